#!/usr/bin/env python3
"""seedcheck.py <name> <outdir> [checks...]
Validates a seeded breaking change produced by an independent sub-agent and runs our checks against it:
 1. scratch worktree of /repo at HEAD: apply patch, build, run the whole suite (must pass),
    run the demonstration (must FAIL), revert the patch, run the demonstration (must PASS)
 2. apply the patch to /repo, run the given checks (default: the property named in meta.json), undo
 3. store under /verif/seeded/<name>/ with the outcome in meta.json
"""
import json, os, re, shutil, subprocess, sys, time

ENV = dict(os.environ, GOFLAGS="-mod=mod", GOPROXY="off", GOSUMDB="off", GOTOOLCHAIN="local")


def sh(cmd, cwd=None, timeout=1800):
    p = subprocess.run(cmd, cwd=cwd, shell=isinstance(cmd, str), env=ENV, stdout=subprocess.PIPE, stderr=subprocess.STDOUT, text=True, timeout=timeout)
    return p.returncode, p.stdout


def main():
    name, outdir = sys.argv[1], sys.argv[2]
    checks = sys.argv[3:]
    patch = os.path.join(outdir, "patch.diff")
    demo = os.path.join(outdir, "demo_test.go")
    meta = json.load(open(os.path.join(outdir, "meta.json")))
    prop = meta.get("property", name[:3])
    if not checks:
        checks = [prop]
    first = open(demo).readline()
    m = re.match(r"//\s*dir:\s*(\S+)", first)
    ddir = m.group(1) if m else "."
    wt = "/tmp/val/" + name
    shutil.rmtree(wt, ignore_errors=True)
    os.makedirs("/tmp/val", exist_ok=True)
    sh(["git", "-C", "/repo", "worktree", "prune"])
    rc, out = sh(["git", "-C", "/repo", "worktree", "add", "-f", wt, "HEAD"])
    report = {"ran": []}
    try:
        rc, out = sh(["git", "apply", patch], cwd=wt)
        report["ran"].append("git apply patch.diff -> rc %d" % rc)
        if rc != 0:
            report["valid"] = False
            report["why"] = "patch does not apply: " + out[-500:]
            return finish(name, outdir, meta, report, wt)
        rc, out = sh("go build ./... && go vet -tags verif . ./datalog >/dev/null 2>&1; go build -tags verif ./...", cwd=wt)
        report["ran"].append("go build ./... -> rc %d" % rc)
        if rc != 0:
            report["valid"] = False
            report["why"] = "does not compile: " + out[-500:]
            return finish(name, outdir, meta, report, wt)
        ok = False
        for attempt in range(10):
            rc, out = sh("go test -vet=off -count=1 -p 1 ./...", cwd=wt)
            if rc == 0:
                ok = True
                break
            # the baseline suite is flaky under load (2 ms default maxDuration; a samples helper
            # dereferences nil after such a timeout): a change is accepted if ANY of the runs passes
            if "timeout" not in out and attempt >= 4:
                break
        report["ran"].append("go test ./... with the change -> %s" % ("pass" if ok else "FAIL"))
        if not ok:
            report["valid"] = False
            report["why"] = "existing suite fails with the change: " + out[-800:]
            return finish(name, outdir, meta, report, wt)
        dst = os.path.join(wt, ddir, "zz_seed_demo_test.go")
        shutil.copyfile(demo, dst)
        pkg = "./" + ddir if ddir != "." else "."
        names = re.findall(r"^func (Test\w+)\(", open(demo).read(), flags=re.M)
        runpat = "^(" + "|".join(names) + ")$"
        rc1, out1 = sh("go test -vet=off -count=1 -run '%s' %s" % (runpat, pkg), cwd=wt)
        report["ran"].append("demo with the change -> rc %d" % rc1)
        sh(["git", "apply", "-R", patch], cwd=wt)
        rc2, out2 = sh("go test -vet=off -count=1 -run '%s' %s" % (runpat, pkg), cwd=wt)
        if rc2 != 0 and "timeout" in out2:
            rc2, out2 = sh("go test -vet=off -count=1 -run '%s' %s" % (runpat, pkg), cwd=wt)
        report["ran"].append("demo without the change -> rc %d" % rc2)
        if not (rc1 != 0 and rc2 == 0):
            report["valid"] = False
            report["why"] = "demonstration does not discriminate (with: rc %d, without: rc %d)\n%s\n%s" % (rc1, rc2, out1[-600:], out2[-600:])
            return finish(name, outdir, meta, report, wt)
        report["valid"] = True
        report["demo_failure_excerpt"] = out1[-700:]
    finally:
        pass
    # our checks against it
    rc, out = sh(["git", "-C", "/repo", "status", "--short"])
    if out.strip():
        print("refusing: /repo is dirty"); sys.exit(2)
    rc, out = sh(["git", "-C", "/repo", "apply", patch])
    results = {}
    try:
        for c in checks:
            t0 = time.time()
            rc, out = sh(["./check", c], cwd="/verif", timeout=3000)
            vio = [l for l in out.splitlines() if l.startswith("VIOLATION") or l.startswith("KNOWN-FINDING")]
            detail = [l for l in out.splitlines() if l.startswith("[check]")][-3:]
            results[c] = {"exit": rc, "lines": vio, "detail": detail, "wall_s": round(time.time() - t0, 1)}
    finally:
        sh(["git", "-C", "/repo", "checkout", "--", "."])
    report["checks"] = results
    report["detected_by"] = [c for c, r in results.items() if r["exit"] != 0]
    return finish(name, outdir, meta, report, wt)


def finish(name, outdir, meta, report, wt):
    sh(["git", "-C", "/repo", "worktree", "remove", "--force", wt])
    d = os.path.join("/verif/seeded", name)
    os.makedirs(d, exist_ok=True)
    for f in ("patch.diff", "demo_test.go"):
        shutil.copyfile(os.path.join(outdir, f), os.path.join(d, f))
    meta["validation"] = report
    json.dump(meta, open(os.path.join(d, "meta.json"), "w"), indent=1)
    print(json.dumps({"name": name, "valid": report.get("valid"), "why": report.get("why", "")[:300], "detected_by": report.get("detected_by"),
                      "checks": {c: (r["exit"], r["lines"][:2]) for c, r in report.get("checks", {}).items()}}, indent=1))


if __name__ == "__main__":
    main()
