#!/usr/bin/env python3
"""partest.py [--jobs N] [--kind seed|benign] [--checks C01,C02|all|auto] <candidate-dir>...

Tries candidate changes to biscuit-go against the checks, several at a time, WITHOUT touching /repo:
every worker has its own scratch copy of /verif (with its build output) and its own scratch git
worktree of /repo under /tmp/par/<k>/, and runs `VERIF_REPO=<worktree> ./check Cxx` there.

 seed   : a candidate is a directory with patch.diff, demo_test.go, meta.json (a change meant to BREAK
          a property).  It is validated first (compiles, whole baseline suite passes, the demonstration
          fails with it and passes without it), then the checks are run with the change applied.
          --checks auto = the property named in meta.json first; when that one does not catch it, all others.
 benign : a candidate is a directory with patch.diff, meta.json (a behaviour-PRESERVING rewrite).  It must
          compile and pass the suite; then ALL checks are run and every alarm is a false alarm to look at.

Results go to /tmp/par/results/<name>.json; valid seeds are copied to /verif/seeded/<name>/, benign
rewrites to /verif/benign/<name>/ (patch, meta with the outcome).  Nothing here is a registered check.
"""
import json, os, re, shutil, subprocess, sys, time, queue, threading

ENV = dict(os.environ, GOFLAGS="-mod=mod", GOPROXY="off", GOSUMDB="off", GOTOOLCHAIN="local")
ALL = ["C%02d" % i for i in range(1, 21)]
# --checks byfile: the checks whose model, tables or harness exercise the file a patch touches
BYFILE = [(r"^authorizer\.go", "C02 C03 C04 C11 C12 C13 C18 C19"),
          (r"^biscuit\.go|^options\.go", "C01 C07 C08 C09 C10 C16 C17 C19 C20"),
          (r"^builder\.go|^converters|^types\.go", "C02 C07 C08 C10 C15 C18"),
          (r"^datalog/datalog\.go", "C04 C05 C06 C10 C11 C12 C19"),
          (r"^datalog/(expressions|symbol)\.go", "C05 C06 C07 C10 C15 C19"),
          (r"^parser/", "C14 C15 C19")]
PAR = os.environ.get("PARTEST_DIR", "/tmp/par")


def sh(cmd, cwd=None, timeout=3000, env=None):
    try:
        p = subprocess.run(cmd, cwd=cwd, shell=isinstance(cmd, str), env=env or ENV, stdout=subprocess.PIPE,
                           stderr=subprocess.STDOUT, text=True, timeout=timeout, errors="replace")
        return p.returncode, p.stdout
    except subprocess.TimeoutExpired:
        return 124, "TIMEOUT"


def setup_worker(k):
    base = os.path.join(PAR, str(k))
    v, r = os.path.join(base, "verif"), os.path.join(base, "repo")
    os.makedirs(base, exist_ok=True)
    sh(["git", "-C", "/repo", "worktree", "prune"])
    if os.path.exists(r):
        sh(["git", "-C", "/repo", "worktree", "remove", "--force", r])
        shutil.rmtree(r, ignore_errors=True)
    rc, out = sh(["git", "-C", "/repo", "worktree", "add", "-f", r, "HEAD"])
    assert rc == 0, out
    sh(["rsync", "-a", "--delete", "--exclude", ".git", "--exclude", "replays", "--exclude", "seeded", "--exclude", "benign",
        "--exclude", ".lock", "/verif/", v + "/"])
    gm = os.path.join(v, "harness", "go.mod")
    s = open(gm).read().replace("=> /repo", "=> " + r)
    open(gm, "w").write(s)
    return v, r


def run_suite(wt):
    """whole baseline suite; the suite is flaky under machine load (2 ms default evaluation timeout, and a
    samples helper that dereferences nil after such a timeout), so a package that failed is re-run alone and
    counts as passing when one of up to 8 runs passes"""
    rc, out = sh("go test -vet=off -count=1 -p 1 ./...", cwd=wt)
    if rc == 0:
        return True, out
    failing = sorted(set(p for p in re.findall(r"^FAIL[ \t]+(\S+)", out, flags=re.M) if "/" in p or "." in p))
    if not failing:
        return False, out
    for pkg in failing:
        ok = False
        for _ in range(8):
            rc2, out2 = sh(["go", "test", "-vet=off", "-count=1", pkg], cwd=wt)
            if rc2 == 0:
                ok = True
                break
        if not ok:
            return False, out2
    return True, out


def run_checks(v, r, checks, results):
    env = dict(ENV, VERIF_REPO=r, VERIF_HARNESS_DIR=os.path.join(v, "harness"))
    for c in checks:
        t0 = time.time()
        rc, out = sh(["./check", c], cwd=v, timeout=3000, env=env)
        vio = [l for l in out.splitlines() if l.startswith("VIOLATION") or l.startswith("KNOWN-FINDING")]
        detail = [l for l in out.splitlines() if l.startswith("[check]")][-4:]
        rep = None
        m = re.search(r"replay=(\S+)", "\n".join(vio))
        if m and os.path.exists(m.group(1)):
            try:
                rep = open(m.group(1)).read()[:3000]
            except Exception:
                pass
        results[c] = {"exit": rc, "lines": vio, "detail": detail, "wall_s": round(time.time() - t0, 1), "replay_excerpt": rep}


def do_candidate(kind, cdir, v, r, checks_arg):
    name = os.path.basename(cdir.rstrip("/"))
    patch = os.path.join(cdir, "patch.diff")
    meta = json.load(open(os.path.join(cdir, "meta.json")))
    report = {"ran": [], "repo_head": sh(["git", "-C", "/repo", "rev-parse", "--short", "HEAD"])[1].strip()}
    sh("git checkout -- . && git clean -fdq", cwd=r)
    rc, out = sh(["git", "apply", patch], cwd=r)
    report["ran"].append("git apply patch.diff -> rc %d" % rc)
    if rc != 0:
        report.update(valid=False, why="patch does not apply: " + out[-500:])
        return name, meta, report
    rc, out = sh("go build ./... && go build -tags verif ./...", cwd=r)
    report["ran"].append("go build ./... (also -tags verif) -> rc %d" % rc)
    if rc != 0:
        report.update(valid=False, why="does not compile: " + out[-600:])
        return name, meta, report
    ok, out = run_suite(r)
    report["ran"].append("go test ./... with the change -> %s" % ("pass" if ok else "FAIL"))
    if not ok:
        report.update(valid=False, why="existing suite fails with the change: " + out[-900:])
        return name, meta, report
    if kind == "seed":
        demo = os.path.join(cdir, "demo_test.go")
        first = open(demo).readline()
        m = re.match(r"//\s*dir:\s*(\S+)", first)
        ddir = m.group(1) if m else "."
        dst = os.path.join(r, ddir, "zz_seed_demo_test.go")
        shutil.copyfile(demo, dst)
        pkg = "./" + ddir if ddir != "." else "."
        names = re.findall(r"^func (Test\w+)\(", open(demo).read(), flags=re.M)
        runpat = "^(" + "|".join(names) + ")$"
        race = " -race" if "-race" in json.dumps(meta) else ""
        cmd = "go test -vet=off -count=1%s -run '%s' %s" % (race, runpat, pkg)
        rc1, out1 = sh(cmd, cwd=r)
        if rc1 == 0:  # timing-dependent demonstrations: a few more attempts
            for _ in range(3):
                rc1, out1 = sh(cmd, cwd=r)
                if rc1 != 0:
                    break
        report["ran"].append("demo with the change (%s) -> rc %d" % (cmd, rc1))
        sh(["git", "apply", "-R", patch], cwd=r)
        rc2, out2 = sh(cmd, cwd=r)
        if rc2 != 0:
            rc2, out2 = sh(cmd, cwd=r)
        report["ran"].append("demo without the change -> rc %d" % rc2)
        os.remove(dst)
        if not (rc1 != 0 and rc2 == 0):
            report.update(valid=False, why="demonstration does not discriminate (with: rc %d, without: rc %d)\n%s\n%s" % (rc1, rc2, out1[-700:], out2[-700:]))
            return name, meta, report
        report["demo_failure_excerpt"] = out1[-900:]
        sh(["git", "apply", patch], cwd=r)
    report["valid"] = True
    results = {}
    prop = meta.get("property", name[:3])
    if checks_arg == "byfile":
        files = re.findall(r"^diff --git a/(\S+)", open(patch).read(), flags=re.M)
        sel = set()
        for f in files:
            for pat, cs in BYFILE:
                if re.search(pat, f):
                    sel.update(cs.split())
        run_checks(v, r, sorted(sel) or ALL, results)
    elif checks_arg == "all" or kind == "benign" and checks_arg == "auto":
        run_checks(v, r, ALL, results)
    elif checks_arg == "auto":
        run_checks(v, r, [prop], results)
        if results[prop]["exit"] == 0:
            run_checks(v, r, [c for c in ALL if c != prop], results)
    else:
        run_checks(v, r, checks_arg.split(","), results)
    report["checks"] = results
    report["detected_by"] = sorted(c for c, x in results.items() if x["exit"] != 0)
    sh("git checkout -- . && git clean -fdq", cwd=r)
    return name, meta, report


def main():
    args = sys.argv[1:]
    jobs, kind, checks = 4, "seed", "auto"
    cands = []
    while args:
        a = args.pop(0)
        if a == "--jobs":
            jobs = int(args.pop(0))
        elif a == "--kind":
            kind = args.pop(0)
        elif a == "--checks":
            checks = args.pop(0)
        else:
            cands.append(a)
    os.makedirs(os.path.join(PAR, "results"), exist_ok=True)
    q = queue.Queue()
    for c in cands:
        q.put(c)
    lock = threading.Lock()

    def worker(k):
        v, r = setup_worker(k)
        while True:
            try:
                c = q.get_nowait()
            except queue.Empty:
                break
            try:
                name, meta, report = do_candidate(kind, c, v, r, checks)
            except Exception as e:  # noqa
                name, meta, report = os.path.basename(c.rstrip("/")), {}, {"valid": None, "why": "partest error: %r" % e}
            meta["validation"] = report
            json.dump(meta, open(os.path.join(PAR, "results", name + ".json"), "w"), indent=1)
            if report.get("valid"):
                d = os.path.join("/verif", "seeded" if kind == "seed" else "benign", name)
                os.makedirs(d, exist_ok=True)
                for f in ("patch.diff", "demo_test.go"):
                    if os.path.exists(os.path.join(c, f)):
                        shutil.copyfile(os.path.join(c, f), os.path.join(d, f))
                json.dump(meta, open(os.path.join(d, "meta.json"), "w"), indent=1)
            with lock:
                print(json.dumps({"name": name, "valid": report.get("valid"), "why": (report.get("why") or "")[:400],
                                  "detected_by": report.get("detected_by"),
                                  "checks": {c: (x["exit"], x["lines"][:2], x["wall_s"]) for c, x in (report.get("checks") or {}).items() if x["exit"] != 0 or kind == "seed"}}), flush=True)
        sh(["git", "-C", "/repo", "worktree", "remove", "--force", r])
        shutil.rmtree(os.path.join(PAR, str(k)), ignore_errors=True)

    ts = [threading.Thread(target=worker, args=(k,)) for k in range(jobs)]
    for t in ts:
        t.start()
    for t in ts:
        t.join()


if __name__ == "__main__":
    main()
