#!/usr/bin/env python3
"""Rewrite the table of seeded changes in DESIGN.md (between the SEEDTABLE markers) from seeded/*/meta.json."""
import json, glob, os, re
ROOT = os.path.dirname(os.path.abspath(__file__))
rows = ["| seeded change | property | what it does | needs | checks run → outcome (first run; then the re-check of all kept changes against the final machinery) |", "|---|---|---|---|---|"]
for d in sorted(glob.glob(os.path.join(ROOT, "seeded", "*"))):
    mp = os.path.join(d, "meta.json")
    if not os.path.exists(mp):
        continue
    m = json.load(open(mp))
    def cell(t, n):
        t = " ".join(str(t).split()).replace("|", "\\|")
        return t if len(t) <= n else t[:n - 1].rsplit(" ", 1)[0] + " …"
    outs = []
    for cid, c in sorted(((m.get("validation") or {}).get("checks") or {}).items()):
        lines = c.get("lines") or []
        if c.get("exit") == 0:
            o = "not caught"
        elif any("no-failing-input-found" in l for l in lines):
            o = "caught (tie)"
        else:
            o = "caught (concrete)"
        outs.append("%s: %s" % (cid, o))
    rc = m.get("recheck")
    if rc:
        if not rc.get("applies"):
            outs.append("re-check at %s: patch no longer applies (the repaired code moved)" % rc.get("repo_head"))
        else:
            det = rc.get("detected_by") or []
            outs.append("re-check at %s: %s" % (rc.get("repo_head"), ("caught by " + ", ".join(det)) if det else "NOT caught"))
    if (m.get("validation") or {}).get("valid") is False:
        outs.append("not kept as valid: " + cell((m.get("validation") or {}).get("why", ""), 80))
    rows.append("| `%s` | %s | %s | %s | %s |" % (os.path.basename(d), m.get("property", ""), cell(m.get("summary", ""), 260), cell(m.get("needs", ""), 200), "; ".join(outs) or "—"))
p = os.path.join(ROOT, "DESIGN.md")
s = open(p).read()
tbl = "<!-- SEEDTABLE-BEGIN -->\n" + "\n".join(rows) + "\n<!-- SEEDTABLE-END -->"
if "<!-- SEEDTABLE-BEGIN -->" in s:
    s = re.sub(r"<!-- SEEDTABLE-BEGIN -->.*?<!-- SEEDTABLE-END -->", lambda _: tbl, s, flags=re.S)
else:
    s = s.replace("SEEDTABLE\n", tbl + "\n", 1)
open(p, "w").write(s)
print("seed table:", len(rows) - 2, "rows")
