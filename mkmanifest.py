#!/usr/bin/env python3
"""writes MANIFEST.json from props.py"""
import json, sys, os
sys.path.insert(0, os.path.dirname(os.path.abspath(__file__)))
from props import PROPS, COMMON_TRUSTED
ALL = ["C%02d" % i for i in range(1, 21)]
checks = []
for pid in ALL:
    if pid not in PROPS:
        continue
    c = PROPS[pid]
    checks.append({
        "property_id": pid,
        "quick_cmd": "./check %s" % pid,
        "thorough_cmd": "./check %s --tier thorough" % pid,
        "evidence_file": "/verif/evidence/%s.json" % pid,
        "replay_cmd_template": "./check %s --replay {path}" % pid,
        "engine": "coq-model+correspondence",
        "technique": ("machine-checked proof in Coq 8.16.1: theorems over an executable Gallina model, closed under the global context; "
                      "the model is tied to /repo on every run by tables regenerated from the source (gen)"
                      + (", by Gallina definitions regenerated from the Go source text and proved equal to the model (genfn)" if c.get("source_level") else "")
                      + " and by a correspondence check that evaluates the model (vm_compute) on the inputs the implementation was run on"),
        "level_claimed": {
            "category": "proof",
            "text": c.get("level_text", "Theorems in coq/Properties/%s.v about the Gallina model, closed under the global context; model tied to /repo by generated tables and a correspondence run on every check" % pid),
            "design_ref": "DESIGN.md §4 " + pid + " and §9",
        },
        "level_note": c.get("level_note", "theorems: " + ", ".join(c.get("theorems", [])) + " || hypotheses / not proved: " + "; ".join(c.get("assumptions", []) or ["none"]) + " || modelled, not verified: " + "; ".join(c.get("trusted", []))),
        "technique": c.get("technique", "machine-checked proof in Coq 8.16.1 of a hand-written Gallina model + correspondence check (vm_compute) against the implementation"),
    })
na = [{"property_id": p, "reason": "check not built yet at this commit (build in progress, see DESIGN.md §7)"} for p in ALL if p not in PROPS]
m = {
    "version": 1,
    "setup_cmd": "./setup.sh",
    "hooks": {
        "guard": "verif",
        "enable": "go build -tags verif (harness module with replace github.com/biscuit-auth/biscuit-go/v2 => /repo)",
        "baseline_off_cmd": "cd /repo && GOFLAGS=-mod=mod GOPROXY=off GOSUMDB=off GOTOOLCHAIN=local go test -vet=off -count=1 -timeout 25m ./...",
        "source_commits": json.load(open(os.path.join(os.path.dirname(os.path.abspath(__file__)), "hooks.json")))["source_commits"],
        "add_only": True,
    },
    "engines": [{"name": "coq-model+correspondence", "path": "/verif/coq + /verif/harness + /verif/gen + /verif/genfn",
                 "serves_properties": [c["property_id"] for c in checks],
                 "kind_free_text": "Coq 8.16.1 development (models, proofs, property theorems), Go translator of source tables, Go correspondence harness"}],
    "checks": checks,
    "not_applicable": na,
    "notes": "All checks share one Coq build (flock-serialised). KNOWN_FINDINGS.txt lists recorded findings and the fix: commits.",
}
json.dump(m, open(os.path.join(os.path.dirname(os.path.abspath(__file__)), "MANIFEST.json"), "w"), indent=1)
print("MANIFEST.json: %d checks, %d not_applicable" % (len(checks), len(na)))
