(* C09, "without changing what it authorizes", at the level of tokens (symbol
   tables included): sealing keeps the authority block, the blocks, the token's
   cumulative symbol table — also one issued over a custom base table — hence the
   resolved Datalog content, and therefore the outcome of every authorizer.
   Statements only; proof in Proofs/TokenProofs.v (C07_seal_inv). *)
From BV Require Import Base Term Expr Datalog Authz DTerm Symbols Chain Wire Token History.
From BV Require Import WireProofs SymbolsProofs TokenProofs.

Theorem C09_same_datalog_content : forall sign base tok tok',
  token_inv base tok -> tk_seal sign tok = Ok tok' ->
  tk_authority tok' = tk_authority tok /\ tk_blocks tok' = tk_blocks tok /\ tk_symbols tok' = tk_symbols tok /\
  resolve_token tok' = resolve_token tok /\
  revocation_ids (tk_container tok') = revocation_ids (tk_container tok) /\
  c_rootid (tk_container tok') = c_rootid (tk_container tok) /\ token_inv base tok'.
Proof. exact C07_seal_inv. Qed.

(* the same verdict, world and query answers for every authorizer state and every regex oracle *)
Theorem C09_same_authorization : forall sign base tok tok',
  token_inv base tok -> tk_seal sign tok = Ok tok' ->
  forall rx a, authorize rx (resolve_token tok') a = authorize rx (resolve_token tok) a.
Proof.
  intros sign base tok tok' I H rx a.
  destruct (C07_seal_inv sign base tok tok' I H) as (_ & _ & _ & R & _). rewrite R. reflexivity.
Qed.

Print Assumptions C09_same_datalog_content.
Print Assumptions C09_same_authorization.
