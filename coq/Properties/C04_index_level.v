(* The authorizer evaluates at INDEX level: Authorize converts the token's content from the
   token's symbol table into the authorizer's own table (through strings), datalog.World works
   on indexes into that table, string concatenation interns its result during evaluation, and
   answers are converted back.  Model/DEval.v models this (authorize_D, query_D, atrace_D over a
   state that carries the symbol table); the theorems below prove that it is, step for step, the
   S-level authorizer of Model/Authz.v on resolved content — so C02, C03, C04, C12 and C13, which
   are stated at S level, are statements about what the index-level code computes.
   [state_rel s a]: the D-level state [s] has a well-formed table, closed facts and rules, and
   resolves to the S-level state [a].  The only hypothesis is the numeric range of the Go type:
   the table stays below 2^32 entries (a variable is a uint32).
   Statements only; proofs in Proofs/DEvalProofs.v. *)
From BV Require Import Base Term Expr Datalog Authz DTerm Symbols Wire Token DEval.
From BV Require Import SymbolsProofs DEvalProofs.

Theorem C04_authorize_index_level : forall rx tok s a s' v,
  state_rel s a -> authorize_D rx tok s = (s', v) -> small_table (d_syms s') ->
  ext (d_syms s) (d_syms s') /\
  state_rel s' (fst (authorize rx (resolve_token tok) a)) /\
  v = snd (authorize rx (resolve_token tok) a).
Proof. exact authorize_D_refines. Qed.

Theorem C04_query_index_level : forall rx s a q s' r,
  state_rel s a -> query_D rx s q = (s', r) -> small_table (d_syms s') ->
  ext (d_syms s) (d_syms s') /\ state_rel s' (fst (query rx a q)) /\ r = snd (query rx a q).
Proof. exact query_D_refines. Qed.

(* whole histories of operations on one authorizer (add*, authorize, query, reset) *)
Theorem C04_histories_index_level : forall rx tok ops s a,
  state_rel s a -> all_small rx tok ops s ->
  atrace_D rx tok ops s = atrace rx (resolve_token tok) ops a.
Proof. exact atrace_D_refines. Qed.

Example C04_index_level_nonvacuous := authorize_D_nonvacuous.

Print Assumptions C04_authorize_index_level.
Print Assumptions C04_query_index_level.
Print Assumptions C04_histories_index_level.
Print Assumptions C04_index_level_nonvacuous.
