(* C15 — The printed form of a block is faithful to what is enforced.
   Statements only; proofs in Proofs/ParserProofs.v.
   [printable_block] is the computable description of the property's printable
   domain (strings without quote / backslash / newline and not starting with
   "hex:", decimal integers, dates 1970..9999, sets of non-string elements in
   printed order, identifier-shaped names).  [sidx] is the symbol-index function
   used only for strings/variables inside sets (outside the printable domain). *)
From BV Require Import Base Term Lexer Parser Printer ParserProofs.
From BV Require Generated.

(* Expression.Print of a parsed expression is its concrete syntax *)
Theorem C15_print_expr : forall (sidx : bytes -> N) (e : Expression),
  pr_expression e = true -> N.of_nat (List.length (to_ops e)) <= 1000 ->
  exists ops : expr, expr_to_biscuit [] e = Ok ops /\ print_expr sidx ops = flat_i (lay_expression e).
Proof. exact C15_print_expr. Qed.

(* a block written in the grammar over the printable domain: what the library
   prints for it parses back to the same facts, rules and checks *)
Theorem C15_roundtrip : forall (sidx : bytes -> N) (B : Block) (b : block),
  printable_block B = true -> block_to_biscuit [] B = Ok b ->
  parse_block (reassemble (print_block sidx b)) [] = Ok b.
Proof. exact C15_roundtrip_structural. Qed.

(* the same for ANY grammar tree denoting the block (elements in any order):
   its normal form in printers' order is what must be printable *)
Theorem C15_roundtrip_from_grammar : forall (sidx : bytes -> N) (G : Block) (b : block),
  block_to_biscuit [] G = Ok b -> printable_block (norm_block G) = true ->
  parse_block (reassemble (print_block sidx b)) [] = Ok b.
Proof. exact ParserProofs.C15_roundtrip_from_grammar. Qed.

(* dates: RFC3339 formatting and parsing round-trip over the whole printable range *)
Theorem C15_date_roundtrip : forall d : Z,
  (0 <= d < 253402300800)%Z -> parse_rfc3339 (fmt_rfc3339 d) = Some d.
Proof. exact rfc3339_roundtrip. Qed.

Theorem C15_civil_calendar : forall z0 : Z,
  let '(y, m, d) := civil_from_days z0 in
  (1 <= m <= 12)%Z /\ (1 <= d <= days_in_month y m)%Z /\ days_from_civil y m d = z0.
Proof. exact civil_roundtrip. Qed.

(* the printed layout lexes back to the printed tokens *)
Theorem C15_layout_lexes : forall l : list item, lexable_i l = true -> lex (flat_i l) = Ok (toks_i l).
Proof. exact lex_items. Qed.
Theorem C15_block_layout_lexable : forall B : Block, ls_block B = true -> lexable_i (lay_block B) = true.
Proof. exact lay_block_lexable. Qed.

(* ... under ARBITRARY layout: any number of spaces, tabs, \n, \r anywhere between the tokens *)
Theorem C15_layout_lexes_any_layout : forall l : list item, lexable_i_any l = true -> lex (flat_i l) = Ok (toks_i l).
Proof. exact lex_items_any. Qed.

(* the printed text re-laid-out: every text [flat_i l] with arbitrary layout whose tokens
   are those of the printed text parses back to the block (the printers' own layout, one
   space after "," and around binary operators, is the instance [l = lay_block B]) *)
Theorem C15_roundtrip_any_layout : forall (sidx : bytes -> N) (B : Block) (b : block) (l : list item),
  printable_block B = true -> block_to_biscuit [] B = Ok b ->
  lexable_i_any l = true -> lex (reassemble (print_block sidx b)) = Ok (toks_i l) ->
  parse_block (flat_i l) [] = Ok b.
Proof. exact ParserProofs.C15_roundtrip_any_layout. Qed.
Example C15_roundtrip_any_layout_nonvacuous := ParserProofs.C15_roundtrip_any_layout_nonvacuous.

(* printing is total (the printers return byte strings); the stack machine falls
   back to "<invalid expression ...>" texts instead of failing *)
Theorem C15_print_total : forall sidx (b : block), exists txt : bytes, block_code sidx b = txt.
Proof. intros sidx b. eexists. reflexivity. Qed.

(* why each exclusion of the printable domain is needed *)
Example C15_domain_is_tight := ParserProofs.C15_domain_is_tight.

Print Assumptions C15_print_expr.
Print Assumptions C15_roundtrip.
Print Assumptions C15_roundtrip_from_grammar.
Print Assumptions C15_date_roundtrip.
Print Assumptions C15_civil_calendar.
Print Assumptions C15_layout_lexes.
Print Assumptions C15_block_layout_lexable.
Print Assumptions C15_layout_lexes_any_layout.
Print Assumptions C15_roundtrip_any_layout.
Print Assumptions C15_roundtrip_any_layout_nonvacuous.
Print Assumptions C15_print_total.
