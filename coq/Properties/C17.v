(* C17 — Revocation identifiers are per-block, stable, and unique.
   Statements only; proofs in Proofs/ChainProofs.v . *)
From BV Require Import Base Chain ChainProofs.

Section C17.
  Variable pub : bytes -> bytes.
  Variable sign : bytes -> bytes -> bytes.

  Theorem C17_one_per_block : forall c, length (revocation_ids c) = (1 + length (c_blocks c))%nat.
  Proof. exact revocation_ids_length. Qed.

  (* the identifier of block i is the signature stored with block i *)
  Theorem C17_is_signature : forall c,
    revocation_ids c = map sb_sig (c_auth c :: c_blocks c).
  Proof. intros c. reflexivity. Qed.

  Theorem C17_prefix_append : forall c blk src c' src',
    append pub sign c blk src = Ok (c', src') ->
    exists sg, revocation_ids c' = revocation_ids c ++ [sg].
  Proof. exact (revocation_ids_append pub sign). Qed.

  Theorem C17_prefix_seal : forall c c', seal sign c = Ok c' -> revocation_ids c' = revocation_ids c.
  Proof. exact (revocation_ids_seal sign). Qed.

  (* uniqueness: two signing events differ.  Each signed message contains the
     freshly drawn next public key, so under injectivity of [pub] on seeds and of
     [sign] on (key, message) pairs (collision-freeness — trusted base), blocks
     signed with different fresh seeds get different identifiers even with
     identical content, key and position. *)
  Hypothesis pub_inj : forall s1 s2, length s1 = 32%nat -> length s2 = 32%nat -> pub s1 = pub s2 -> s1 = s2.
  Hypothesis pub_len : forall s, length s = 32%nat -> length (pub s) = 32%nat.
  Hypothesis sign_inj : forall k1 m1 k2 m2, sign k1 m1 = sign k2 m2 -> k1 = k2 /\ m1 = m2.

  Theorem C17_unique_signing_events : forall k1 k2 blk1 blk2 seed1 seed2,
    length seed1 = 32%nat -> length seed2 = 32%nat -> seed1 <> seed2 ->
    sign k1 (blk1 ++ le32 0 ++ pub seed1) <> sign k2 (blk2 ++ le32 0 ++ pub seed2).
  Proof. exact (unique_signing_events pub sign pub_inj pub_len sign_inj). Qed.

  (* the identifier added by append is such a signature over a payload ending in pub(fresh seed) *)
  Theorem C17_new_id_shape : forall c blk src c' src',
    append pub sign c blk src = Ok (c', src') ->
    exists s, c_proof c = PNextSecret s /\
      revocation_ids c' = revocation_ids c ++ [sign s (blk ++ le32 0 ++ pub (firstn 32 src))].
  Proof. exact (new_id_shape pub sign). Qed.
End C17.

Print Assumptions C17_one_per_block.
Print Assumptions C17_is_signature.
Print Assumptions C17_prefix_append.
Print Assumptions C17_prefix_seal.
Print Assumptions C17_unique_signing_events.
Print Assumptions C17_new_id_shape.
