(* C16 — The root key identifier travels with the token and selects exactly one key.
   Statements only; proofs in Proofs/ChainProofs.v. *)
From BV Require Import Base Chain ChainProofs.

Section C16.
  Variable pub : bytes -> bytes.
  Variable sign : bytes -> bytes -> bytes.
  Variable verify : bytes -> bytes -> bytes -> bool.

  Theorem C16_id_at_build : forall root_seed rid blk src c src',
    build pub sign root_seed rid blk src = Ok (c, src') -> c_rootid c = rid.
  Proof. exact (rootid_build pub sign). Qed.

  Theorem C16_id_survives_append : forall c blk src c' src',
    append pub sign c blk src = Ok (c', src') -> c_rootid c' = c_rootid c.
  Proof. exact (rootid_append pub sign). Qed.

  Theorem C16_id_survives_seal : forall c c', seal sign c = Ok c' -> c_rootid c' = c_rootid c.
  Proof. exact (rootid_seal sign). Qed.

  (* along every history: each token is a fresh build carrying the id it was given,
     or derives from an earlier token whose id (and revocation ids) it keeps *)
  Theorem C16_id_travels : forall root_seed st o c,
    In c (hstep pub sign root_seed st o) -> In c st \/
      (exists rid blk src, o = HBuild rid blk src /\ c_rootid c = rid) \/
      (exists p, In p st /\ c_rootid c = c_rootid p /\
         exists l, revocation_ids c = revocation_ids p ++ l).
  Proof. exact (history_step_preserves pub sign). Qed.

  (* key lookup verifies against exactly the key registered under the token's id
     (the default when the token has none), fails with "no public key available"
     when there is none or it is empty, and consults no other entry *)
  Theorem C16_lookup_exact : forall ks c,
    authorizer_for pub verify ks c =
    match ks with
    | KSingular k => if (length k =? 0)%nat then Err ENoPublicKey else verify_token pub verify k c
    | KMap m d =>
        match (match c_rootid c with None => d | Some i => kmap_find m i end) with
        | None => Err ENoPublicKey
        | Some k => if (length k =? 0)%nat then Err ENoPublicKey else verify_token pub verify k c
        end
    end.
  Proof. exact (authorizer_for_exact pub verify). Qed.
End C16.

(* all identifiers: 0 and 2^32-1 are ordinary values of the option N field *)
Example C16_boundary_ids :
  kmap_find [(0, [1]); (4294967295, [2])] 4294967295 = Some [2] /\
  kmap_find [(0, [1]); (4294967295, [2])] 0 = Some [1] /\
  kmap_find [(0, [1]); (4294967295, [2])] 7 = None.
Proof. repeat split. Qed.

Print Assumptions C16_id_at_build.
Print Assumptions C16_id_survives_append.
Print Assumptions C16_id_survives_seal.
Print Assumptions C16_id_travels.
Print Assumptions C16_lookup_exact.
