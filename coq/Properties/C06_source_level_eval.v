(* C06 at SOURCE level, stage D: the definition that /verif/genfn regenerates on every run from the
   text of Expression.Evaluate in datalog/expressions.go (coq/GeneratedFn.v: go_Expression_Evaluate,
   with go_stack_Push, go_stack_Pop and the dispatch over the implementors of Op, UnaryOpFunc and
   BinaryOpFunc) is EQUAL to the index-level stack machine eval_D (Model/DEval.v), for every op
   sequence and all bindings, when the operands met during the run are in the ranges of the Go types
   ([run_pre]: table_fits before every step, wf_dterm of the operands a step pops; decidable on
   concrete inputs, GenFnEvalProofs.run_preb_sound).  The equalities of Equal / Contains /
   Intersection / Union with their arms of eval_binary_D, premises of the theorems of
   Proofs/SourceLevelEvalProofs.v ([set_ops_eq rx]), are discharged with Proofs/GenFnSetProofs.v in
   Proofs/SourceLevelEvalClosedProofs.v ([set_ops_eq_holds]).  Statements only; proofs in
   Proofs/GenFnEvalProofs.v, Proofs/SourceLevelEvalProofs.v (sub-agent) and
   Proofs/SourceLevelEvalClosedProofs.v. *)
From BV Require Import Base Term Expr DTerm Symbols DEval GoSem GeneratedFn.
From BV Require Import ExprProofs SymbolsProofs DEvalProofs GenFnProofs GenFnSetProofs GenFnEvalProofs SourceLevelEvalProofs SourceLevelEvalClosedProofs.
Local Open Scope Z_scope.

Theorem C06_source_evaluate_is_model : forall rx (b : dbindings) (t : table) (e : dexpr),
  rx_uniform rx -> run_pre rx b t [] e ->
  go_Expression_Evaluate rx e b t = eval_D rx t e b.
Proof. exact src_evaluate_is_model_closed. Qed.

Theorem C06_source_evaluate_total : forall rx (b : dbindings) (t : table) (e : dexpr) (n : N),
  rx_uniform rx -> run_pre rx b t [] e ->
  snd (go_Expression_Evaluate rx e b t) <> Panic n.
Proof. exact src_evaluate_total_closed. Qed.

Theorem C06_source_evaluate_malformed_is_error : forall rx (b : dbindings) (t : table) (e : dexpr),
  rx_uniform rx -> run_pre rx b t [] e ->
  table_wf t -> CL closed_bnd t b -> CL closed_op t e ->
  (forall tr, map (resolve_op t) e <> postfix tr) ->
  exists x, snd (go_Expression_Evaluate rx e b t) = Err x.
Proof. exact src_evaluate_malformed_is_error_closed. Qed.

Theorem C06_source_evaluate_never_wrapped : forall rx (bnd : dbindings) (t : table) (a b : Z) (o : binop) (v : dterm),
  rx_uniform rx -> in_i64 a -> in_i64 b -> table_fits t ->
  o = BAdd \/ o = BSub \/ o = BMul \/ o = BDiv ->
  snd (go_Expression_Evaluate rx [DOVal (DA (DInt a)); DOVal (DA (DInt b)); DOBin o] bnd t) = Ok v ->
  v = DA (DInt (arith_exact o a b)) /\ in_int64 (arith_exact o a b) = true /\ (o = BDiv -> b <> 0).
Proof. exact src_evaluate_never_wrapped_closed. Qed.

Theorem C06_source_set_operators_are_model : forall rx, set_ops_eq rx.
Proof. exact set_ops_eq_holds. Qed.

Print Assumptions C06_source_evaluate_is_model.
Print Assumptions C06_source_evaluate_total.
Print Assumptions C06_source_evaluate_malformed_is_error.
Print Assumptions C06_source_evaluate_never_wrapped.
Print Assumptions C06_source_set_operators_are_model.
