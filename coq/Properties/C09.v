(* C09 — Sealing freezes a token without changing what it authorizes.
   Statements only; proofs in Proofs/ChainProofs.v.  The Datalog content of a
   token is a function of its blocks (c_auth, c_blocks), which Seal leaves
   untouched, so "same authorization outcome for every authorizer" is the
   conjunct [c_blocks c' = c_blocks c /\ c_auth c' = c_auth c]. *)
From BV Require Import Base Chain ChainProofs.

Section C09.
  Variable pub : bytes -> bytes.
  Variable sign : bytes -> bytes -> bytes.
  Variable verify : bytes -> bytes -> bytes -> bool.
  Hypothesis verify_sign : forall s m, verify (pub s) m (sign s m) = true.
  Hypothesis pub_len : forall s, length s = 32%nat -> length (pub s) = 32%nat.

  (* a verified attenuable token seals into a token that verifies under the same
     root key, with the same blocks (hence the same Datalog and verdicts), the
     same root key id and the same revocation identifiers *)
  Theorem C09_seal_verifies : forall root c s,
    length root = 32%nat -> verify_token pub verify root c = Ok tt -> c_proof c = PNextSecret s ->
    exists c', seal sign c = Ok c' /\
      c_blocks c' = c_blocks c /\ c_auth c' = c_auth c /\ c_rootid c' = c_rootid c /\
      (exists x, c_proof c' = PFinalSig x) /\
      verify_token pub verify root c' = Ok tt.
  Proof. exact (seal_success pub sign verify verify_sign). Qed.

  Theorem C09_same_revocation_ids : forall c c',
    seal sign c = Ok c' -> revocation_ids c' = revocation_ids c.
  Proof. exact (revocation_ids_seal sign). Qed.

  Theorem C09_same_root_id : forall c c', seal sign c = Ok c' -> c_rootid c' = c_rootid c.
  Proof. exact (rootid_seal sign). Qed.

  (* frozen: neither extended nor sealed again *)
  Theorem C09_frozen : forall c x blk src,
    c_proof c = PFinalSig x ->
    append pub sign c blk src = Err ESealed /\ seal sign c = Err ESealed.
  Proof. exact (sealed_frozen pub sign). Qed.

  (* tampering: an altered seal signature / last block / last announced key is
     rejected unless the owner of the last key signed exactly that seal payload *)
  Variable Signed : bytes -> bytes -> bytes -> Prop.
  Hypothesis verify_sound : forall k m s, verify k m s = true -> Signed k m s.

  Theorem C09_tamper_rejected : forall root c g,
    length root = 32%nat -> c_proof c = PFinalSig g ->
    ~ Signed (sb_key (last_sblock c)) (seal_payload (last_sblock c)) g ->
    verify_token pub verify root c <> Ok tt.
  Proof. exact (unsigned_seal_rejected pub sign verify Signed verify_sound). Qed.

  (* the seal payload pins block bytes, algorithm, announced key and block signature *)
  Theorem C09_seal_payload_injective : forall b1 b2,
    length (sb_key b1) = 32%nat -> length (sb_key b2) = 32%nat ->
    length (sb_sig b1) = 64%nat -> length (sb_sig b2) = 64%nat -> seal_payload b1 = seal_payload b2 ->
    sb_block b1 = sb_block b2 /\ le32 (sb_alg b1) = le32 (sb_alg b2) /\
    sb_key b1 = sb_key b2 /\ sb_sig b1 = sb_sig b2.
  Proof. exact seal_payload_injective. Qed.
End C09.

Print Assumptions C09_seal_verifies.
Print Assumptions C09_same_revocation_ids.
Print Assumptions C09_same_root_id.
Print Assumptions C09_frozen.
Print Assumptions C09_tamper_rejected.
Print Assumptions C09_seal_payload_injective.
