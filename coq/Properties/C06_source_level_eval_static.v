(* C06 at SOURCE level, stage D, with a STATIC premise: the statements of
   Properties/C06_source_level_eval.v about the definition that /verif/genfn regenerates on every
   run from the text of Expression.Evaluate in datalog/expressions.go (coq/GeneratedFn.v:
   go_Expression_Evaluate), where the dynamic range hypothesis [run_pre] (a condition on every
   intermediate state of the run) is replaced by [static_pre t e b], a condition on the table t,
   the op sequence e and the bindings b ALONE (Proofs/GenFnEvalStaticProofs.v):

     static_pre t e b := exists B,
       64 <= B /\ B * 2 ^ growth e < two63 /\ len_int t + growth e + 1025 < two63 /\
       tab_ok B t /\ Forall (op_ok B b) e

   growth e = the number of binary Add and Union ops in e; tab_ok B t = every string of the table
   has at most B bytes; op_ok B b o = the constant of a value op (or, for a variable op, the value
   it finds in b, if any) is wf_dterm and, if it is a byte array or a set, has at most B bytes /
   elements.  Decidable on concrete inputs (static_preb, static_preb_sound);
   static_pre_run_pre : static_pre t e b -> run_pre rx b t [] e.
   The premise [set_ops_eq rx] is discharged as in C06_source_level_eval.v.  Statements only; proofs in
   Proofs/GenFnEvalStaticProofs.v, Proofs/SourceLevelEvalStaticProofs.v (sub-agent) and
   Proofs/SourceLevelEvalStaticClosedProofs.v. *)
From BV Require Import Base Term Expr DTerm Symbols DEval GoSem GeneratedFn.
From BV Require Import ExprProofs SymbolsProofs DEvalProofs GenFnProofs GenFnEvalProofs SourceLevelEvalProofs.
From BV Require Import GenFnEvalStaticProofs SourceLevelEvalStaticProofs SourceLevelEvalClosedProofs SourceLevelEvalStaticClosedProofs.
Local Open Scope Z_scope.

Theorem C06_source_evaluate_is_model_static : forall rx (b : dbindings) (t : table) (e : dexpr),
  rx_uniform rx -> static_pre t e b ->
  go_Expression_Evaluate rx e b t = eval_D rx t e b.
Proof. exact src_evaluate_is_model_static_closed. Qed.

Theorem C06_source_evaluate_total_static : forall rx (b : dbindings) (t : table) (e : dexpr) (n : N),
  rx_uniform rx -> static_pre t e b ->
  snd (go_Expression_Evaluate rx e b t) <> Panic n.
Proof. exact src_evaluate_total_static_closed. Qed.

Theorem C06_source_evaluate_malformed_is_error_static : forall rx (b : dbindings) (t : table) (e : dexpr),
  rx_uniform rx -> static_pre t e b ->
  table_wf t -> CL closed_bnd t b -> CL closed_op t e ->
  (forall tr, map (resolve_op t) e <> postfix tr) ->
  exists x, snd (go_Expression_Evaluate rx e b t) = Err x.
Proof. exact src_evaluate_malformed_is_error_static_closed. Qed.

Theorem C06_source_evaluate_result_in_range_static : forall rx (b : dbindings) (t : table) (e : dexpr) t' v,
  rx_uniform rx -> static_pre t e b ->
  go_Expression_Evaluate rx e b t = (t', Ok v) -> wf_dterm v /\ table_fits t'.
Proof. exact src_evaluate_result_in_range_static_closed. Qed.

Print Assumptions C06_source_evaluate_is_model_static.
Print Assumptions C06_source_evaluate_total_static.
Print Assumptions C06_source_evaluate_malformed_is_error_static.
Print Assumptions C06_source_evaluate_result_in_range_static.
