(* C06 at SOURCE level: the definitions that /verif/genfn regenerates on every run from the text of
   datalog/expressions.go (coq/GeneratedFn.v: go_Add_Eval, go_Sub_Eval, ...) are EQUAL, for all operands
   in the ranges of the Go types, to the index-level model of the operators (Model/DEval.v), which
   Properties/C06_index_level.v proves to refine to the S-level evaluator the C06 theorems are about.
   So the arithmetic clauses of C06 are theorems about what the Go source says today: a fast path
   that skips the overflow test for some operands, a changed comparison or bound, makes the proof
   script fail for all inputs at once.  Statements only; proofs in Proofs/GenFnProofs.v (sub-agent)
   and Proofs/SourceLevelProofs.v. *)
From BV Require Import Base Term Expr DTerm Symbols DEval GoSem GeneratedFn.
From BV Require Import GenFnProofs SourceLevelProofs.
Local Open Scope Z_scope.

(* the source of each operator = the model's arm for it *)
Theorem C06_source_add : forall rx (t : table) (l r : dterm),
  wf_dterm l -> wf_dterm r -> table_fits t -> go_Add_Eval l r t = eval_binary_D rx t BAdd l r.
Proof. exact go_Add_Eval_eq. Qed.
Theorem C06_source_sub : forall rx (t : table) (l r : dterm), eval_binary_D rx t BSub l r = (t, go_Sub_Eval l r t).
Proof. exact go_Sub_Eval_eq. Qed.
Theorem C06_source_mul : forall rx (t : table) (l r : dterm), eval_binary_D rx t BMul l r = (t, go_Mul_Eval l r t).
Proof. exact go_Mul_Eval_eq. Qed.
Theorem C06_source_div : forall rx (t : table) (l r : dterm), wf_dterm l -> eval_binary_D rx t BDiv l r = (t, go_Div_Eval l r t).
Proof. exact go_Div_Eval_eq. Qed.
Theorem C06_source_less_than : forall rx (t : table) (l r : dterm), eval_binary_D rx t BLessThan l r = (t, go_LessThan_Eval l r t).
Proof. exact go_LessThan_Eval_eq. Qed.
Theorem C06_source_less_or_equal : forall rx (t : table) (l r : dterm), eval_binary_D rx t BLessOrEqual l r = (t, go_LessOrEqual_Eval l r t).
Proof. exact go_LessOrEqual_Eval_eq. Qed.
Theorem C06_source_greater_than : forall rx (t : table) (l r : dterm), eval_binary_D rx t BGreaterThan l r = (t, go_GreaterThan_Eval l r t).
Proof. exact go_GreaterThan_Eval_eq. Qed.
Theorem C06_source_greater_or_equal : forall rx (t : table) (l r : dterm), eval_binary_D rx t BGreaterOrEqual l r = (t, go_GreaterOrEqual_Eval l r t).
Proof. exact go_GreaterOrEqual_Eval_eq. Qed.
Theorem C06_source_and : forall rx (t : table) (l r : dterm), eval_binary_D rx t BAnd l r = (t, go_And_Eval l r t).
Proof. exact go_And_Eval_eq. Qed.
Theorem C06_source_or : forall rx (t : table) (l r : dterm), eval_binary_D rx t BOr l r = (t, go_Or_Eval l r t).
Proof. exact go_Or_Eval_eq. Qed.
Theorem C06_source_negate : forall (t : table) (v : dterm), go_Negate_Eval v t = eval_unary_D t UNegate v.
Proof. exact go_Negate_Eval_eq. Qed.
Theorem C06_source_parens : forall (t : table) (v : dterm), go_Parens_Eval v t = eval_unary_D t UParens v.
Proof. exact go_Parens_Eval_eq. Qed.
Theorem C06_source_length : forall (t : table) (v : dterm), wf_dterm v -> len_ok t -> go_Length_Eval v t = eval_unary_D t ULength v.
Proof. exact go_Length_Eval_eq. Qed.
Theorem C06_source_prefix : forall rx (t : table) (l r : dterm),
  wf_dterm l -> wf_dterm r -> len_ok t -> eval_binary_D rx t BPrefix l r = (t, go_Prefix_Eval l r t).
Proof. exact go_Prefix_Eval_eq. Qed.
Theorem C06_source_suffix : forall rx (t : table) (l r : dterm),
  wf_dterm l -> wf_dterm r -> len_ok t -> eval_binary_D rx t BSuffix l r = (t, go_Suffix_Eval l r t).
Proof. exact go_Suffix_Eval_eq. Qed.
Theorem C06_source_regex : forall rx (t : table) (l r : dterm),
  rx_uniform rx -> wf_dterm l -> wf_dterm r -> len_ok t -> eval_binary_D rx t BRegex l r = (t, go_Regex_Eval rx l r t).
Proof. exact go_Regex_Eval_eq. Qed.

(* the property's arithmetic clause, stated about the source-level definitions alone *)
Theorem C06_source_arith_exact : forall (t : table) (a b : Z),
  in_i64 a -> in_i64 b -> table_fits t ->
  go_Add_Eval (DA (DInt a)) (DA (DInt b)) t = (t, exact_or_overflow (a + b)) /\
  go_Sub_Eval (DA (DInt a)) (DA (DInt b)) t = exact_or_overflow (a - b) /\
  go_Mul_Eval (DA (DInt a)) (DA (DInt b)) t = exact_or_overflow (a * b) /\
  go_Div_Eval (DA (DInt a)) (DA (DInt b)) t = (if Z.eqb b 0 then Err EDivZero else exact_or_overflow (Z.quot a b)).
Proof.
  exact (fun t a b Ha Hb Ht => conj (src_add_exact t a b Ha Hb Ht) (conj (src_sub_exact t a b)
         (conj (src_mul_exact t a b) (src_div_exact t a b Ha)))).
Qed.
Theorem C06_source_never_wrapped : forall (t : table) (a b : Z) (v : dterm),
  in_i64 a ->
  (go_Sub_Eval (DA (DInt a)) (DA (DInt b)) t = Ok v -> v = DA (DInt (a - b)) /\ in_int64 (a - b) = true) /\
  (go_Mul_Eval (DA (DInt a)) (DA (DInt b)) t = Ok v -> v = DA (DInt (a * b)) /\ in_int64 (a * b) = true) /\
  (go_Div_Eval (DA (DInt a)) (DA (DInt b)) t = Ok v -> b <> 0 /\ v = DA (DInt (Z.quot a b)) /\ in_int64 (Z.quot a b) = true).
Proof. exact src_arith_never_wrapped. Qed.
Theorem C06_source_arith_no_panic : forall (t : table) (l r : dterm) (n : N),
  wf_dterm l ->
  go_Sub_Eval l r t <> Panic n /\ go_Mul_Eval l r t <> Panic n /\ go_Div_Eval l r t <> Panic n.
Proof. exact src_arith_no_panic. Qed.

(* non-vacuity: the boundary cases, evaluated on the generated definitions *)
Example C06_source_boundaries :
  go_Mul_Eval (DA (DInt 3037000500)) (DA (DInt 3037000500)) [] = Err EOverflow /\
  go_Mul_Eval (DA (DInt (-9223372036854775808))) (DA (DInt (-1))) [] = Err EOverflow /\
  go_Div_Eval (DA (DInt (-9223372036854775808))) (DA (DInt (-1))) [] = Err EOverflow /\
  go_Div_Eval (DA (DInt 7)) (DA (DInt 0)) [] = Err EDivZero /\
  go_Add_Eval (DA (DInt (-9223372036854775808))) (DA (DInt (-9223372036854775808))) [] = ([], Err EOverflow) /\
  go_Sub_Eval (DA (DInt (-9223372036854775808))) (DA (DInt 1)) [] = Err EOverflow /\
  go_Mul_Eval (DA (DInt 3037000499)) (DA (DInt 3037000499)) [] = Ok (DA (DInt 9223372030926249001)).
Proof. vm_compute. repeat split. Qed.

Print Assumptions C06_source_add.
Print Assumptions C06_source_sub.
Print Assumptions C06_source_mul.
Print Assumptions C06_source_div.
Print Assumptions C06_source_less_than.
Print Assumptions C06_source_less_or_equal.
Print Assumptions C06_source_greater_than.
Print Assumptions C06_source_greater_or_equal.
Print Assumptions C06_source_and.
Print Assumptions C06_source_or.
Print Assumptions C06_source_negate.
Print Assumptions C06_source_parens.
Print Assumptions C06_source_length.
Print Assumptions C06_source_prefix.
Print Assumptions C06_source_suffix.
Print Assumptions C06_source_regex.
Print Assumptions C06_source_arith_exact.
Print Assumptions C06_source_never_wrapped.
Print Assumptions C06_source_arith_no_panic.
