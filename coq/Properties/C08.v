(* C08 — Tokens and blocks are immutable values; sibling derivations are independent.
   Statements only; proofs in Proofs/TokenProofs.v.  Histories are arbitrary lists of
   operations (new builder, add to builder, build, create block, add to block
   builder, build block, append, seal, serialize+unmarshal, get-block-id) over a
   growing family of builders, blocks and tokens; objects are referred to by
   creation index.  Symbol tables are values since SymbolTable.Clone copies
   (fix 8abbbd4) and Builder.Build works on copies (fix c7634ba).
   Recorded finding (KNOWN_FINDINGS.txt): a block builder used again after Build —
   [C08_rebuild_refuted]; the sibling theorem therefore speaks of the FIRST build. *)
From BV Require Import Base Term DTerm Symbols Chain Wire Token History.
From BV Require Import SymbolsProofs TokenProofs.

(* no operation changes a token or a block that already exists: every observation of it
   (printed form, serialized bytes, revocation ids, content, verdicts) is a function of the value *)
Theorem C08_frame : forall pub sign root_seed (ops : list hop) (s s' : hstate) (outs : list hout),
  hrun pub sign root_seed s ops = (s', outs) ->
  (forall i t, nth_error (hs_tokens s) i = Some t -> nth_error (hs_tokens s') i = Some t) /\
  (forall i b, nth_error (hs_blocks s) i = Some b -> nth_error (hs_blocks s') i = Some b).
Proof. exact TokenProofs.C08_frame. Qed.

(* a block builder's state depends only on the operations addressed to it *)
Theorem C08_builder_independence : forall pub sign root_seed (ops : list hop) (s s' : hstate) outs j b,
  hrun pub sign root_seed s ops = (s', outs) -> nth_error (hs_bbuilders s) j = Some b ->
  nth_error (hs_bbuilders s') j = Some (fold_left bbop_step (ops_on_bbuilder j ops) b).
Proof. exact hrun_bb_proj. Qed.

(* two block builders created from the same token, filled in any interleaving with each
   other and with any other operations: each one's (first) built block contains exactly
   what its own caller put in *)
Theorem C08_siblings : forall pub sign root_seed (t : nat) (tok : token) (rest : list hop) (s s' : hstate) outs,
  nth_error (hs_tokens s) t = Some tok ->
  hrun pub sign root_seed s (HCreateBlock t :: HCreateBlock t :: rest) = (s', outs) ->
  table_wf (tk_symbols tok) ->
  forall j, j = length (hs_bbuilders s) \/ j = S (length (hs_bbuilders s)) ->
  forall pre post, rest = pre ++ HBbBuild j :: post -> no_build j pre ->
  let adds := own_adds j pre in
  small_table (bb_syms (bb_exec (create_block tok) adds)) ->
  nth_error outs (2 + length pre) = Some HDone /\
  (exists k blk, nth_error (hs_blocks s') k = Some blk /\
     resolve_block (sym_extend (tk_symbols tok) (db_symbols blk)) blk = supplied (tk_symbols tok) adds /\
     db_context blk = final_context adds /\ db_version blk = 3).
Proof. exact TokenProofs.C08_siblings. Qed.

(* an appended token keeps the meaning of every earlier block *)
Theorem C08_append_keeps_meaning : forall pub sign base bs t blk src t' src',
  tk_unmarshal_with base bs = Ok t -> tk_append pub sign t blk src = Ok (t', src') ->
  firstn (length (all_blocks t)) (resolve_token t') = resolve_token t.
Proof. exact C07_append_keeps_meaning. Qed.

(* the recorded finding, on the model of the code as it is *)
Example C08_blockbuilder_rebuild_refuted := C08_rebuild_refuted.
Example C08_example := C08_example_content.

Print Assumptions C08_frame.
Print Assumptions C08_builder_independence.
Print Assumptions C08_siblings.
Print Assumptions C08_append_keeps_meaning.
