(* C19 — A token can be shared by concurrent goroutines.  PARTIAL.
   Statements only; proofs in Proofs/FootprintProofs.v and Proofs/SharedWritePinProofs.v.

   Model: threads over a shared heap with explicit ownership (shared cells of the
   token: block byte arrays WITH ARBITRARY SPARE CAPACITY, symbol-table cells,
   fact arrays, envelope; private cells allocated by a goroutine).  Each listed
   operation is a footprint program that reads the token and writes only what it
   allocated.  Tie to the code: (1) the generated table of writes through the
   shared token (assignments, append/copy into, mutating calls on expressions
   rooted at the *Biscuit receiver or at the authorizer's token) is pinned to be
   empty — regenerated from /repo on every run; (2) the -race stress harness.
   Runtime remainder (not proved): the Go memory model and scheduler, the
   thread-safety of participle's parser object and of protobuf-go's lazily
   initialised message state. *)
From BV Require Import Base Footprint FootprintProofs TableProofs SharedWritePinProofs.
From BV Require Generated.

(* generic: if every thread writes only what it allocated then, under EVERY
   schedule, each thread's state, trace and observations of shared memory are
   those of its solo run, shared memory is unchanged, and there is no race *)
Theorem C19_interleave_readonly : forall S (sys : system S) (h0 : heap),
  (forall t, disciplined (sys t) t h0) ->
  forall sched : list tid,
  let w := interleaved_run sys h0 sched in
  (forall t, let c := solo_run (sys t) t h0 (steps_of t sched) in
     w_st w t = so_st c /\ by_tid t (w_trace w) = so_trace c /\
     obs_shared t (w_trace w) = obs_shared t (so_trace c)) /\
  (forall l, owner l = None -> w_heap w l = h0 l) /\
  ~ race (w_trace w).
Proof. exact (@interleave_readonly). Qed.

(* every listed operation, on every token layout (any number of blocks, any
   lengths, any spare capacities), writes only memory it allocated *)
Theorem C19_footprints : forall (L : token_layout) (op : opkind), writes_only_owned (op_program L op).
Proof. exact ops_write_only_owned. Qed.

(* hence: any number of goroutines, each running any sequence of the listed
   operations on one shared token, under any schedule: no data race, no write to
   the token, and every goroutine obtains the result it obtains running alone *)
Theorem C19_schedules : forall (L : token_layout) (ops : tid -> list opkind) (h0 : heap) (sched : list tid),
  let sys := fun t : tid => goroutine_program L (ops t) in
  let w := interleaved_run sys h0 sched in
  ~ race (w_trace w) /\ no_shared_write (w_trace w) /\
  (forall l, owner l = None -> w_heap w l = h0 l) /\
  (forall t,
     w_st w t = so_st (solo_run (sys t) t h0 (steps_of t sched)) /\
     by_tid t (w_trace w) = so_trace (solo_run (sys t) t h0 (steps_of t sched)) /\
     ((length (compile 0 (goroutine_phases L (ops t))) <= steps_of t sched)%nat ->
      sc_done (w_st w t) = true /\
      (forall m, (steps_of t sched <= m)%nat ->
         sc_result (w_st w t) = sc_result (so_st (solo_run (sys t) t h0 m))))).
Proof. exact FootprintProofs.C19_schedules. Qed.

(* the pre-repair footprints (payload appended into the block's spare capacity;
   symbols interned into a header copy of the shared table) do race and do give
   schedule-dependent results *)
Theorem C19_old_code_refuted :
  (forall op, In op [OpVerify; OpSeal; OpGetBlockID 1; OpCreateBlock 1] ->
     script_ok (compile 0 (op_phases_old L1 op)) = false /\ ~ writes_only_owned (op_program_old L1 op)) /\
  (let sys := fun _ : tid => op_program_old L1 OpVerify in
   let w := interleaved_run sys demo_heap (alternate 100) in
   race (w_trace w) /\ existsb shared_write (w_trace w) = true) /\
  (let sys := fun _ : tid => op_program_old L1 (OpGetBlockID 1) in
   race (w_trace (interleaved_run sys demo_heap (alternate 20)))) /\
  (let sys := fun t : tid => goroutine_program_old L1 (old_ops t) in
   let wa := interleaved_run sys demo_heap sequential in
   let wb := interleaved_run sys demo_heap preempting in
   sc_done (w_st wa 1%nat) = true /\ sc_done (w_st wb 1%nat) = true /\
   sc_result (w_st wa 1%nat) = sc_result (so_st (solo_run (sys 1%nat) 1%nat demo_heap 60)) /\
   sc_result (w_st wb 1%nat) <> sc_result (w_st wa 1%nat) /\ race (w_trace wb)).
Proof. exact C19_old_refuted. Qed.

(* the tie: regenerated from the Go source on this run *)
Theorem C19_no_write_through_the_shared_token : Generated.shared_write_sites = [].
Proof. exact no_shared_write_sites. Qed.

Theorem C19_no_package_level_state_written : Generated.pkg_state_write_sites = [].
Proof. exact no_package_state_writes. Qed.

Print Assumptions C19_interleave_readonly.
Print Assumptions C19_footprints.
Print Assumptions C19_schedules.
Print Assumptions C19_old_code_refuted.
Print Assumptions C19_no_write_through_the_shared_token.
Print Assumptions C19_no_package_level_state_written.
