(* C15 at SOURCE level, stage H: the definitions that /verif/genfn regenerates on every run from the
   text of SymbolDebugger.Predicate / Expression / CheckQuery / Rule / Check in datalog/symbol.go
   (coq/GeneratedFn.v: go_SymbolDebugger_X) are EQUAL to the model's printer (Model/Printer.v:
   print_pred, print_rule, print_check_query, print_check).  Term.String() (also through fmt's %v) is
   the oracle parameter tstr.  Statements only; proofs in Proofs/GenFnPrintPredProofs.v. *)
From BV Require Import Base Term Expr DTerm Symbols Lexer Parser Printer GoSem GeneratedFn.
From BV Require Import GenFnProofs GenFnEvalProofs GenFnPrintProofs GenFnPrintPredProofs.
Local Open Scope Z_scope.

Theorem C15_source_predicate_is_model : forall (sidx : bytes -> N) (tstr : dterm -> bytes) (t : table) (p : dpred),
  len_ok t -> Forall wf_dterm (dp_terms p) -> in_u64 (dp_name p) ->
  (forall x, In x (dp_terms p) -> pt_of tstr t x = print_term sidx (resolve_term t x)) ->
  go_SymbolDebugger_Predicate tstr t p = Ok (print_pred sidx (resolve_pred t p)).
Proof. exact src_predicate_is_model. Qed.
Print Assumptions C15_source_predicate_is_model.

Theorem C15_source_rule_is_model : forall (sidx : bytes -> N) (tstr : dterm -> bytes) (t : table) (r : drule),
  len_ok t -> wf_drule r -> agree_pred sidx (pt_of tstr t) t (dr_head r) -> agree_body sidx (pt_of tstr t) t r ->
  go_SymbolDebugger_Rule tstr t r = Ok (print_rule sidx (resolve_rule t r)).
Proof. exact src_rule_is_model. Qed.
Print Assumptions C15_source_rule_is_model.

Theorem C15_source_check_is_model : forall (sidx : bytes -> N) (tstr : dterm -> bytes) (t : table) (c : dcheck),
  len_ok t -> Forall wf_dbody c -> (forall r, In r c -> agree_body sidx (pt_of tstr t) t r) ->
  go_SymbolDebugger_Check tstr t c = Ok (print_check sidx (resolve_check t c)).
Proof. exact src_check_is_model. Qed.
Print Assumptions C15_source_check_is_model.

Theorem C15_source_check_joins_queries_with_or : forall (tstr : dterm -> bytes) (t : table) (q1 q2 : drule) (s1 s2 : bytes),
  len_ok t -> wf_dbody q1 -> wf_dbody q2 ->
  go_SymbolDebugger_CheckQuery tstr t q1 = Ok s1 -> go_SymbolDebugger_CheckQuery tstr t q2 = Ok s2 ->
  go_SymbolDebugger_Check tstr t [q1; q2] =
  Ok ([99; 104; 101; 99; 107; 32; 105; 102; 32]%N ++ s1 ++ [32; 111; 114; 32]%N ++ s2).
Proof. exact src_check_joins_queries_with_or. Qed.
Print Assumptions C15_source_check_joins_queries_with_or.
