(* C05 at index level: World.Run and World.QueryRule over indexes into a symbol table (the table
   threaded through, growing only by string concatenation) compute, fact for fact and in the same
   order, with the same error and the same limits, what the S-level evaluator computes on the
   resolved program.  Statements only; proofs in Proofs/DEvalProofs.v. *)
From BV Require Import Base Term Expr Datalog DTerm Symbols Wire Token DEval.
From BV Require Import SymbolsProofs DEvalProofs.

Theorem C05_run_index_level : forall rx lim t rs facts t' facts' e,
  table_wf t -> CL closed_rule t rs -> CL closed_pred t facts ->
  run_D rx lim t rs facts = (t', (facts', e)) ->
  ext t t' /\ table_wf t' /\ CL closed_pred t' facts' /\
  run rx lim (map (resolve_rule t) rs) (map (resolve_pred t) facts) = (map (resolve_pred t') facts', e).
Proof. exact run_D_refines. Qed.

Theorem C05_query_index_level : forall rx t r facts t' res,
  table_wf t -> closed_rule t r -> CL closed_pred t facts ->
  query_rule_D rx t r facts = (t', res) ->
  ext t t' /\ table_wf t' /\ CL closed_pred t' res /\
  query_rule rx (resolve_rule t r) (map (resolve_pred t) facts) = map (resolve_pred t') res.
Proof. exact query_rule_D_refines. Qed.

Print Assumptions C05_run_index_level.
Print Assumptions C05_query_index_level.
