(* C11 — Evaluation is bounded: limits honoured, no silent truncation, no stranded work.
   Statements only; proofs in Proofs/DatalogProofs.v (a: limits), Proofs/AuthzProofs.v
   (a: authorization fails on a limit; b: limits survive every operation),
   Proofs/ChanLTSProofs.v (c: the goroutine protocol of Run / Apply / combine).
   PARTIAL: that the timeout fires at the configured wall-clock duration, and that
   the Go runtime reclaims a goroutine the transition system calls finished, are
   runtime facts outside a Gallina model; they are exercised by the harness
   (goroutine census, timeout ordering). *)
From BV Require Import Base Term Expr Datalog Authz DatalogProofs AuthzProofs ChanLTS ChanLTSProofs TableProofs ChanPinProofs.

(* (a) success is reported only for a world closed under one more round, below the fact limit *)
Theorem C11_ok_is_fixpoint : forall rx lim rules facts fs,
  run rx lim rules facts = (fs, None) ->
  exists nf, apply_rules rx rules fs [] = (nf, None) /\ insert_all fs nf = fs /\
    (forall f, In f nf -> fact_in f fs = true) /\ (lenN fs < max_facts lim)%N.
Proof. exact run_ok_round. Qed.

Theorem C11_max_facts_error : forall rx lim rules facts fs,
  run rx lim rules facts = (fs, Some EMaxFacts) -> (max_facts lim <= lenN fs)%N.
Proof. exact run_max_facts. Qed.

Theorem C11_max_iterations_error : forall rx lim rules facts fs,
  run rx lim rules facts = (fs, Some EMaxIterations) ->
  (length facts + N.to_nat (max_iterations lim) <= length fs)%nat.
Proof. exact run_max_iterations_grew. Qed.

(* every error is a distinguishable limit error or comes from a rule (expression error / invalid rule) *)
Theorem C11_error_cases : forall rx lim rules facts fs e,
  run rx lim rules facts = (fs, Some e) ->
  e = EMaxFacts \/ e = EMaxIterations \/
  (exists r c b, In r rules /\ Forall (fun g => In g fs) c /\
     Forall2 (fun g p => pred_match g p = true) c (r_body r) /\
     bind_all (r_body r) c [] = Some b /\
     (eval_exprs rx (r_exprs r) b = Err e /\ expr_err e = true \/
      eval_exprs rx (r_exprs r) b = Ok true /\ inst_head (r_head r) b = None /\ e = EInvalidRule)).
Proof. exact run_error_cases. Qed.

(* authorization fails whenever any run inside it hits a limit (or any error) *)
Theorem C11_authorize_fails_on_limit : forall rx (auth : block) (bs : list block) (a : astate),
  (exists e, snd (auth_world rx auth a) = Some e) \/
  (exists b e, In b bs /\ snd (block_world rx (a_limits a) (fst (auth_world rx auth a)) b) = Some e) ->
  snd (authorize rx (auth :: bs) a) <> VSuccess.
Proof. exact AuthzProofs.C11_authorize_fails_on_limit. Qed.

(* (b) the configured limits are in force for every world of every round: they survive all operations *)
Theorem C11_limits_survive : forall rx (tok : list block) (ops : list aop) (a : astate),
  a_limits (fold_left (astep rx tok) ops a) = a_limits a.
Proof. exact limits_invariant. Qed.

(* (c) no stranded work: from every reachable state of the protocol (any number of
   rule applications, any number of combinations, any scheduling, timeout at any
   moment, early consumer return at any moment) all goroutines can still finish,
   every run is finite, and every maximal run ends with all of them finished *)
Theorem C11_no_stranded : forall s,
  reachable s -> caller_returned s ->
  (exists s', steps s s' /\ all_finished s') /\
  (forall k s', steps_n k s s' -> (k <= measure s)%nat) /\
  (forall s', steps s s' -> (forall s'', ~ step s' s'') -> all_finished s').
Proof. exact ChanLTSProofs.C11_no_stranded. Qed.

Theorem C11_no_blocked_forever : forall s p, reachable s -> ~ blocked_forever p s.
Proof. exact no_blocked_forever. Qed.

Theorem C11_no_infinite_run : forall f : nat -> state, ~ (forall i, step (f i) (f (S i))).
Proof. exact no_infinite_run. Qed.

(* the pre-repair protocol (unbuffered done, no stop channel) does strand goroutines *)
Theorem C11_old_protocol_strands :
  exists s, reachable_old s /\ caller_returned s /\ ~ exists s', steps_old s s' /\ all_finished s'.
Proof. exact old_protocol_strands. Qed.

(* the tie of the transition system to the source, regenerated on this run: the
   result channel is buffered, the combination channel is not, and every send
   on it can also take the stop signal *)
Theorem C11_channel_protocol_pinned : channel_protocol_stmt.
Proof. exact channel_protocol_pinned. Qed.

Example C11_limit_examples := (chain_hits_max_facts, chain_hits_max_iterations).
Example C11_lts_nonvacuous := nonvacuous_reachable.

Print Assumptions C11_ok_is_fixpoint.
Print Assumptions C11_max_facts_error.
Print Assumptions C11_max_iterations_error.
Print Assumptions C11_error_cases.
Print Assumptions C11_authorize_fails_on_limit.
Print Assumptions C11_limits_survive.
Print Assumptions C11_no_stranded.
Print Assumptions C11_no_blocked_forever.
Print Assumptions C11_no_infinite_run.
Print Assumptions C11_old_protocol_strands.
Print Assumptions C11_channel_protocol_pinned.
