(* C05 at SOURCE level, stage G: the definition that /verif/genfn regenerates on every run from the
   text of MatchedVariables.Insert in datalog/datalog.go (coq/GeneratedFn.v:
   go_MatchedVariables_Insert) is one step of the model's unification DEval.bind_terms_D.
   MatchedVariables = map[Variable]*Term is the model's dbindings holding exactly the variables with
   a non-nil value (a key present with a nil value and an absent key are not distinguished: Go's m[k]
   is nil for both); the map is a reference, so the function returns the new map beside its result.
   MatchedVariables.Complete is not translated.  Statements only; proofs in Proofs/GenFnMapProofs.v. *)
From Coq Require Import List NArith.
From BV Require Import Base Term Expr DTerm Symbols Token DEval GoSem GoMap GeneratedFn.
From BV Require Import GenFnProofs GenFnSetProofs GenFnMapProofs.
Import ListNotations.

Theorem C05_source_matched_variables_insert : forall (b : dbindings) (k : N) (v : dterm),
  go_MatchedVariables_Insert b k v =
  match dlookup b k with
  | None => (b ++ [(k, v)], Ok true)
  | Some ex => (b, Ok (dterm_geqb v ex))
  end.
Proof. exact go_MatchedVariables_Insert_eq. Qed.
Print Assumptions C05_source_matched_variables_insert.

Theorem C05_source_insert_is_bind_step :
  forall (b : dbindings) (k : N) (v : dterm) (pt ft : list dterm),
  bind_terms_D (DA (DVar k) :: pt) (v :: ft) b =
  match go_MatchedVariables_Insert b k v with
  | (b', Ok true) => bind_terms_D pt ft b'
  | _ => None
  end.
Proof. exact go_MatchedVariables_Insert_is_bind_step. Qed.
Print Assumptions C05_source_insert_is_bind_step.

Theorem C05_source_insert_consistent :
  forall (b : dbindings) (k : N) (v ex : dterm), dlookup b k = Some ex ->
  (dterm_geqb v ex = true -> go_MatchedVariables_Insert b k v = (b, Ok true)) /\
  (dterm_geqb v ex = false -> go_MatchedVariables_Insert b k v = (b, Ok false)).
Proof. exact go_MatchedVariables_Insert_consistent. Qed.
Print Assumptions C05_source_insert_consistent.

Theorem C05_source_insert_fresh :
  forall (b : dbindings) (k : N) (v : dterm), dlookup b k = None ->
  exists b', go_MatchedVariables_Insert b k v = (b', Ok true) /\ dlookup b' k = Some v /\
             forall k2, k2 <> k -> dlookup b' k2 = dlookup b k2.
Proof. exact go_MatchedVariables_Insert_fresh. Qed.
Print Assumptions C05_source_insert_fresh.
