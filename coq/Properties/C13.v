(* C13 — Reset gives a clean authorizer: nothing leaks from one request into the next.
   Statements only; proofs in Proofs/AuthzProofs.v.  Histories are lists of
   operations (add fact/rule/check/policy, Authorize, Query, Reset) on one
   authorizer for one token; [fresh lim] is a newly created authorizer. *)
From BV Require Import Base Term Expr Datalog Authz AuthzProofs.

Theorem C13_reset_fresh : forall rx (tok : list block) (ops : list aop) (lim : limits),
  reset (fold_left (astep rx tok) ops (fresh lim)) = fresh lim.
Proof. exact AuthzProofs.C13_reset_fresh. Qed.

(* whatever happened before the Reset — any content, any outcome of each round —
   every later state ... *)
Theorem C13_rounds : forall rx (tok : list block) (ops1 ops2 : list aop) (lim : limits),
  fold_left (astep rx tok) ops2 (reset (fold_left (astep rx tok) ops1 (fresh lim))) =
  fold_left (astep rx tok) ops2 (fresh lim).
Proof. exact AuthzProofs.C13_rounds. Qed.

(* ... and every later verdict and query result are those of a new authorizer *)
Theorem C13_rounds_outputs : forall rx (tok : list block) (ops1 ops2 : list aop) (lim : limits),
  atrace rx tok ops2 (reset (fold_left (astep rx tok) ops1 (fresh lim))) = atrace rx tok ops2 (fresh lim).
Proof. exact AuthzProofs.C13_rounds_outputs. Qed.

Theorem C13_history_cut : forall rx (tok : list block) (ops1 ops2 : list aop) (lim : limits),
  fold_left (astep rx tok) (ops1 ++ OReset :: ops2) (fresh lim) = fold_left (astep rx tok) ops2 (fresh lim).
Proof. exact AuthzProofs.C13_history_cut. Qed.

(* the configured limits survive every operation, Reset included *)
Theorem C13_limits_invariant : forall rx (tok : list block) (ops : list aop) (a : astate),
  a_limits (fold_left (astep rx tok) ops a) = a_limits a.
Proof. exact limits_invariant. Qed.

(* the pre-repair scenario (F12): with Reset the second round is refused like on
   a fresh authorizer; without Reset the first round's fact would leak *)
Example C13_scenario := ex_C13_rounds.

Print Assumptions C13_reset_fresh.
Print Assumptions C13_rounds.
Print Assumptions C13_rounds_outputs.
Print Assumptions C13_history_cut.
Print Assumptions C13_limits_invariant.
