(* C06 at index level: expression evaluation over symbol indexes (string equality is index
   equality, concatenation interns its result, prefix/suffix/contains/regex/length go through
   the table) agrees with the S-level evaluator on the resolved expression: same value, same
   error class, and no panic where the S level has none (C06_total_no_panic).
   Statements only; proofs in Proofs/DEvalProofs.v. *)
From BV Require Import Base Term Expr DTerm Symbols Wire Token DEval.
From BV Require Import SymbolsProofs DEvalProofs.

Theorem C06_eval_index_level : forall rx t e b t' r,
  table_wf t -> CL closed_bnd t b -> CL closed_op t e ->
  eval_D rx t e b = (t', r) ->
  ext t t' /\ table_wf t' /\
  match r with
  | Ok v => closed_term t' v /\
            eval rx (map (resolve_op t) e) (map (resolve_bnd t) b) = Ok (resolve_term t' v)
  | Err x => eval rx (map (resolve_op t) e) (map (resolve_bnd t) b) = Err x
  | Panic n => eval rx (map (resolve_op t) e) (map (resolve_bnd t) b) = Panic n
  end.
Proof. exact eval_D_refines. Qed.

(* why index equality may stand for string equality: interning is injective in a well-formed table *)
Theorem C06_index_equality_is_string_equality : forall t i j,
  table_wf t -> valid_index t i -> valid_index t j ->
  bytes_eqb (sym_str t i) (sym_str t j) = N.eqb i j.
Proof. exact str_eqb_res. Qed.

Print Assumptions C06_eval_index_level.
Print Assumptions C06_index_equality_is_string_equality.
