(* C06 at SOURCE level, set operators: the definitions that /verif/genfn regenerates (with -all)
   from the text of datalog/expressions.go and datalog/datalog.go (coq/GeneratedFn.v:
   go_Equal_Eval, go_Contains_Eval, go_Intersection_Eval, go_Union_Eval, with Set.Equal,
   Set.contains, Set.Intersect, Set.Union and the seven Equal methods they call) are EQUAL, for all
   operands in the ranges of the Go types, to the index-level model of the operators
   (Model/DEval.v), and satisfy the set clauses of C06 stated about the generated definitions
   alone.  Statements only; proofs in Proofs/GenFnSetProofs.v and Proofs/SourceLevelSetProofs.v
   (sub-agent). *)
From BV Require Import Base Term Expr DTerm Symbols Token DEval GoSem GeneratedFn.
From BV Require Import GenFnProofs GenFnSetProofs SourceLevelProofs SourceLevelSetProofs.
Local Open Scope Z_scope.

(* the source of each operator = the model's arm for it *)
Theorem C06_source_equal : forall rx (t : table) (l r : dterm),
  eval_binary_D rx t BEqual l r = (t, go_Equal_Eval l r t).
Proof. exact go_Equal_Eval_eq. Qed.
Theorem C06_source_contains : forall rx (t : table) (l r : dterm),
  wf_dterm l -> wf_dterm r -> len_ok t -> eval_binary_D rx t BContains l r = (t, go_Contains_Eval l r t).
Proof. exact go_Contains_Eval_eq. Qed.
Theorem C06_source_contains_set : forall rx (t : table) (s : list datom) (r : dterm),
  eval_binary_D rx t BContains (DSet s) r = (t, go_Contains_Eval (DSet s) r t).
Proof. exact go_Contains_Eval_set_eq. Qed.
Theorem C06_source_intersection : forall rx (t : table) (l r : dterm),
  eval_binary_D rx t BIntersection l r = (t, go_Intersection_Eval l r t).
Proof. exact go_Intersection_Eval_eq. Qed.
Theorem C06_source_union : forall rx (t : table) (l r : dterm),
  eval_binary_D rx t BUnion l r = (t, go_Union_Eval l r t).
Proof. exact go_Union_Eval_eq. Qed.

(* the methods of datalog.go they call = the model's functions *)
Theorem C06_source_term_equal : forall (x y : dterm), go_Term_Equal x y = Ok (dterm_geqb x y).
Proof. exact go_Term_Equal_eq. Qed.
Theorem C06_source_set_equal : forall (s : list datom) (t : dterm), go_Set_Equal s t = Ok (dterm_geqb (DSet s) t).
Proof. exact go_Set_Equal_eq. Qed.
Theorem C06_source_set_contains : forall (s : list datom) (a : datom), go_Set_contains s (DA a) = Ok (dset_contains s a).
Proof. exact go_Set_contains_atom_eq. Qed.
Theorem C06_source_set_intersect : forall (s t : list datom), go_Set_Intersect s t = Ok (dset_intersect s t).
Proof. exact go_Set_Intersect_eq. Qed.
Theorem C06_source_set_union : forall (s t : list datom), go_Set_Union s t = Ok (dset_union s t).
Proof. exact go_Set_Union_eq. Qed.

(* the property's set clauses, stated about the source-level definitions alone *)
Theorem C06_source_intersection_spec : forall (a b : list datom) (t : table),
  exists s, go_Intersection_Eval (DSet a) (DSet b) t = Ok (DSet s) /\
            NoDup s /\ (forall x, In x s <-> In x a /\ In x b).
Proof. exact src_intersection_spec. Qed.
Theorem C06_source_union_spec : forall (a b : list datom) (t : table),
  exists s, go_Union_Eval (DSet a) (DSet b) t = Ok (DSet s) /\
            NoDup s /\ (forall x, In x s <-> In x a \/ In x b).
Proof. exact src_union_spec. Qed.
Theorem C06_source_set_ops_no_repeats : forall (l r : dterm) (t : table) (v : dterm),
  (go_Intersection_Eval l r t = Ok v -> exists s, v = DSet s /\ NoDup s) /\
  (go_Union_Eval l r t = Ok v -> exists s, v = DSet s /\ NoDup s).
Proof. exact (fun l r t v => conj (src_intersection_no_repeats l r t v) (src_union_no_repeats l r t v)). Qed.
Theorem C06_source_set_ops_no_panic : forall (t : table) (l r : dterm) (n : N),
  wf_dterm l -> wf_dterm r -> len_ok t ->
  go_Equal_Eval l r t <> Panic n /\ go_Contains_Eval l r t <> Panic n /\
  go_Intersection_Eval l r t <> Panic n /\ go_Union_Eval l r t <> Panic n.
Proof. exact src_set_ops_no_panic. Qed.
Theorem C06_source_equal_symmetric : forall (l r : dterm) (t : table),
  go_Equal_Eval l r t = go_Equal_Eval r l t.
Proof. exact src_equal_symmetric. Qed.
Theorem C06_source_equal_sets_spec : forall (a b : list datom) (t : table),
  exists v, go_Equal_Eval (DSet a) (DSet b) t = Ok (DA (DBool v)) /\
            (v = true <-> length a = length b /\ (forall x, In x a <-> In x b)).
Proof. exact src_equal_sets_spec. Qed.
Theorem C06_source_equal_atoms_spec : forall (a b : datom) (t : table),
  datom_type a = datom_type b -> datom_type a <> TyVar ->
  exists v, go_Equal_Eval (DA a) (DA b) t = Ok (DA (DBool v)) /\ (v = true <-> a = b).
Proof. exact src_equal_atoms_spec. Qed.
Theorem C06_source_equal_mismatch : forall (l r : dterm) (t : table),
  dterm_type l <> dterm_type r -> go_Equal_Eval l r t = Err EIllTyped.
Proof. exact src_equal_mismatch. Qed.
Theorem C06_source_contains_spec : forall (s : list datom) (t : table),
  (forall a, datom_type a <> TyVar ->
     exists v, go_Contains_Eval (DSet s) (DA a) t = Ok (DA (DBool v)) /\ (v = true <-> In a s)) /\
  (forall c,
     exists v, go_Contains_Eval (DSet s) (DSet c) t = Ok (DA (DBool v)) /\
               (v = true <-> forall x, In x c -> In x s)) /\
  (forall a, go_Contains_Eval (DSet s) (DA (DVar a)) t = Err EIllTyped).
Proof. exact src_contains_spec. Qed.
Theorem C06_source_contains_strings : forall (t : table) (a b : N) (x y : bytes),
  in_u64 a -> in_u64 b -> len_ok t ->
  go_SymbolTable_Str t a = Ok x -> go_SymbolTable_Str t b = Ok y ->
  go_Contains_Eval (DA (DStr a)) (DA (DStr b)) t = Ok (DA (DBool (contains_sub x y))).
Proof. exact src_contains_strings. Qed.
Theorem C06_source_contains_ill_typed : forall (t : table) (a : datom) (r : dterm),
  wf_dterm (DA a) -> wf_dterm r -> len_ok t ->
  (forall x y, ~ (a = DStr x /\ r = DA (DStr y))) ->
  go_Contains_Eval (DA a) r t = Err EIllTyped.
Proof. exact src_contains_ill_typed. Qed.

Print Assumptions C06_source_equal.
Print Assumptions C06_source_contains.
Print Assumptions C06_source_contains_set.
Print Assumptions C06_source_intersection.
Print Assumptions C06_source_union.
Print Assumptions C06_source_term_equal.
Print Assumptions C06_source_set_equal.
Print Assumptions C06_source_set_contains.
Print Assumptions C06_source_set_intersect.
Print Assumptions C06_source_set_union.
Print Assumptions C06_source_intersection_spec.
Print Assumptions C06_source_union_spec.
Print Assumptions C06_source_set_ops_no_repeats.
Print Assumptions C06_source_set_ops_no_panic.
Print Assumptions C06_source_equal_symmetric.
Print Assumptions C06_source_equal_sets_spec.
Print Assumptions C06_source_equal_atoms_spec.
Print Assumptions C06_source_equal_mismatch.
Print Assumptions C06_source_contains_spec.
Print Assumptions C06_source_contains_strings.
Print Assumptions C06_source_contains_ill_typed.
