(* C15 (second sentence and "in any block position") — the printed form of a token's
   blocks is the same before and after serialization, and the text printed for a
   block does not depend on where the block sits.
   Statements only; proofs in Proofs/PrintStableProofs.v (a composition of the C07
   token theorems with the printer/parser theorems of ParserProofs).

   [token_code tok] is the list of the Datalog texts (Block.Code) of the blocks of
   [tok], printed through the token's own symbol table ([table_sidx (tk_symbols tok)]
   is the index function the Go printers use for set elements); [token_strings] the
   same for Block.String.  [ops_of_block b] are the builder calls that supply the
   content [b] to a block builder. *)
From Coq Require Import String.
From BV Require Import Base Term DTerm Symbols Chain Wire Token History.
From BV Require Import WireProofs SymbolsProofs TokenProofs.
From BV Require Import Lexer Parser Printer ParserProofs PrintStableProofs.

(* before and after Serialize / Unmarshal: every block prints the same text *)
Theorem C15_stable_under_serialization : forall base tok tok',
  token_inv base tok -> small (tk_serialize tok) ->
  tk_unmarshal_with base (tk_serialize tok) = Ok tok' ->
  map (block_code (table_sidx (tk_symbols tok'))) (resolve_token tok') =
  map (block_code (table_sidx (tk_symbols tok))) (resolve_token tok).
Proof. exact print_stable_under_serialization. Qed.

(* ... and the reload of a library-built token succeeds, with equal Code() and String() texts *)
Theorem C15_reload_prints_the_same : forall base tok,
  token_inv base tok -> sized tok -> small (tk_serialize tok) ->
  exists tok', tk_unmarshal_with base (tk_serialize tok) = Ok tok' /\
               token_code tok' = token_code tok /\ token_strings tok' = token_strings tok.
Proof. exact print_stable_reload. Qed.

(* a block of the printable domain, appended to ANY two tokens (different bases, symbol
   tables, numbers of blocks): same text in both, the text parses back to the block, and
   a reloaded copy prints it again *)
Theorem C15_any_block_position : forall pub1 sign1 pub2 sign2 base1 base2 tok1 tok2 (B : Block) b
    blk1 bb1 src1 tok1' src1' blk2 bb2 src2 tok2' src2',
  printable_block B = true -> block_to_biscuit [] B = Ok b -> dedup_facts (b_facts b) = b_facts b ->
  token_inv base1 tok1 -> token_inv base2 tok2 ->
  small_table (bb_syms (bb_exec (create_block tok1) (ops_of_block b))) ->
  small_table (bb_syms (bb_exec (create_block tok2) (ops_of_block b))) ->
  bb_build (bb_exec (create_block tok1) (ops_of_block b)) = Ok (blk1, bb1) ->
  bb_build (bb_exec (create_block tok2) (ops_of_block b)) = Ok (blk2, bb2) ->
  tk_append pub1 sign1 tok1 blk1 src1 = Ok (tok1', src1') ->
  tk_append pub2 sign2 tok2 blk2 src2 = Ok (tok2', src2') ->
  last (token_code tok1') [] = last (token_code tok2') [] /\
  last (resolve_token tok1') TokenProofs.empty_block = b /\
  parse_block (reassemble (print_block (table_sidx (tk_symbols tok1'))
                             (last (resolve_token tok1') TokenProofs.empty_block))) [] = Ok b /\
  (forall t, token_inv base1 tok1' -> small (tk_serialize tok1') ->
             tk_unmarshal_with base1 (tk_serialize tok1') = Ok t -> token_code t = token_code tok1').
Proof. exact C15_printed_block_anywhere. Qed.

(* outside the printable domain the only channel from position to text is the index printed
   for strings / variables INSIDE SETS: if the two tables agree on those, the texts agree *)
Theorem C15_position_channel : forall s1 s2 b,
  agree s1 s2 (block_set_syms b) -> block_code s1 b = block_code s2 b.
Proof. exact block_code_agree. Qed.

(* the hypotheses are satisfiable, and the domain restriction (no strings in sets) is needed:
   the same content prints "#1027" in one token and "#1028" in another *)
Example C15_any_block_position_nonvacuous := C15_printed_block_anywhere_nonvacuous.
Example C15_strings_in_sets_print_by_position := print_position_dependent_refuted.

Print Assumptions C15_stable_under_serialization.
Print Assumptions C15_reload_prints_the_same.
Print Assumptions C15_any_block_position.
Print Assumptions C15_position_channel.
Print Assumptions C15_any_block_position_nonvacuous.
Print Assumptions C15_strings_in_sets_print_by_position.
