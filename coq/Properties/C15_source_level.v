(* C15 at SOURCE level, stage F: the definitions that /verif/genfn regenerates on every run from the
   text of Expression.Print, UnaryOp.Print, BinaryOp.Print and stringstack.Push / Pop in
   datalog/expressions.go (coq/GeneratedFn.v: go_Expression_Print, go_UnaryOp_Print,
   go_BinaryOp_Print, go_stringstack_Push, go_stringstack_Pop) are EQUAL to the model's printer
   (Model/Printer.v: print_expr / print_ops, print_unop, print_binop with the format tables that
   /verif/gen extracts into Generated.v).  Term.String() is the oracle parameter tstr (the
   statements hold for every tstr).  Statements only; proofs in Proofs/GenFnPrintProofs.v. *)
From BV Require Import Base Term Expr DTerm Symbols Lexer Parser Printer GoSem GeneratedFn.
From BV Require Import GenFnProofs GenFnEvalProofs GenFnPrintProofs.
Local Open Scope Z_scope.

Theorem C15_source_print_is_model : forall (sidx : bytes -> N) (tstr : dterm -> bytes) (t : table) (e : dexpr),
  len_ok t -> Forall wf_dop e ->
  (forall x, In (DOVal x) e -> pt_of tstr t x = print_term sidx (resolve_term t x)) ->
  go_Expression_Print tstr e t = Ok (print_expr sidx (map (resolve_op t) e)).
Proof. exact src_print_is_model. Qed.

Theorem C15_source_print_is_model_g : forall (tstr : dterm -> bytes) (t : table) (e : dexpr),
  len_ok t -> Forall wf_dop e ->
  go_Expression_Print tstr e t = Ok (print_ops_g (pt_of tstr t) e [] 0).
Proof. exact go_Expression_Print_eq. Qed.

Theorem C15_source_print_total : forall (tstr : dterm -> bytes) (t : table) (e : dexpr),
  len_ok t -> Forall wf_dop e -> exists s, go_Expression_Print tstr e t = Ok s.
Proof. exact src_print_total. Qed.

Theorem C15_source_parens_printed : forall (v : bytes),
  go_UnaryOp_Print UParens v = Ok ([40]%N ++ v ++ [41]%N).
Proof. exact src_parens_printed. Qed.

Theorem C15_source_operator_spellings : forall (l r : bytes),
  map (fun b => go_BinaryOp_Print b l r) all_binops =
  map Ok
    [
     (* BLessThan      "%s < %s"          *) l ++ [32;60;32]%N ++ r;
     (* BLessOrEqual   "%s <= %s"         *) l ++ [32;60;61;32]%N ++ r;
     (* BGreaterThan   "%s > %s"          *) l ++ [32;62;32]%N ++ r;
     (* BGreaterOrEqual "%s >= %s"         *) l ++ [32;62;61;32]%N ++ r;
     (* BEqual         "%s == %s"         *) l ++ [32;61;61;32]%N ++ r;
     (* BContains      "%s.contains(%s)"  *) l ++ [46;99;111;110;116;97;105;110;115;40]%N ++ r ++ [41]%N;
     (* BPrefix        "%s.starts_with(%s)" *) l ++ [46;115;116;97;114;116;115;95;119;105;116;104;40]%N ++ r ++ [41]%N;
     (* BSuffix        "%s.ends_with(%s)" *) l ++ [46;101;110;100;115;95;119;105;116;104;40]%N ++ r ++ [41]%N;
     (* BRegex         "%s.matches(%s)"   *) l ++ [46;109;97;116;99;104;101;115;40]%N ++ r ++ [41]%N;
     (* BAdd           "%s + %s"          *) l ++ [32;43;32]%N ++ r;
     (* BSub           "%s - %s"          *) l ++ [32;45;32]%N ++ r;
     (* BMul           "%s * %s"          *) l ++ [32;42;32]%N ++ r;
     (* BDiv           "%s / %s"          *) l ++ [32;47;32]%N ++ r;
     (* BAnd           "%s && %s"         *) l ++ [32;38;38;32]%N ++ r;
     (* BOr            "%s || %s"         *) l ++ [32;124;124;32]%N ++ r;
     (* BIntersection  "%s.intersection(%s)" *) l ++ [46;105;110;116;101;114;115;101;99;116;105;111;110;40]%N ++ r ++ [41]%N;
     (* BUnion         "%s.union(%s)"     *) l ++ [46;117;110;105;111;110;40]%N ++ r ++ [41]%N].
Proof. exact src_operator_spellings. Qed.

Theorem C15_source_unary_spellings : forall (v : bytes),
  map (fun u => go_UnaryOp_Print u v) [UNegate; UParens; ULength] =
  map Ok [ [33]%N ++ v; [40]%N ++ v ++ [41]%N; v ++ [46;108;101;110;103;116;104;40;41]%N ].
Proof. exact src_unary_spellings. Qed.

Print Assumptions C15_source_print_is_model.
Print Assumptions C15_source_print_is_model_g.
Print Assumptions C15_source_print_total.
Print Assumptions C15_source_parens_printed.
Print Assumptions C15_source_operator_spellings.
Print Assumptions C15_source_unary_spellings.
