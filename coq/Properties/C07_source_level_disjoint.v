(* C07 at SOURCE level, stage G: the definition that /verif/genfn regenerates on every run from the
   text of SymbolTable.IsDisjoint in datalog/symbol.go (coq/GeneratedFn.v: go_SymbolTable_IsDisjoint;
   the local map[string]struct{} is a list of strings, Model/GoMap.v) is EQUAL to the model's
   Symbols.sym_disjoint, the test Token.v uses for ErrSymbolTableOverlap, for all tables; in
   particular it cannot panic.  Statement only; proof in Proofs/GenFnMapProofs.v. *)
From BV Require Import Base Term Expr DTerm Symbols GoSem GoMap GeneratedFn.
From BV Require Import GenFnProofs GenFnSetProofs GenFnMapProofs.

Theorem C07_source_is_disjoint : forall (t other : table),
  go_SymbolTable_IsDisjoint t other = Ok (sym_disjoint t other).
Proof. exact go_SymbolTable_IsDisjoint_eq. Qed.
Print Assumptions C07_source_is_disjoint.
