(* C04 — The authorization verdict follows the specified decision procedure.
   Statements only; proofs in Proofs/AuthzProofs.v (decision structure) and
   Proofs/DatalogProofs.v (the worlds are least models). *)
From BV Require Import Base Term Expr Datalog Authz DatalogProofs AuthzProofs OrderProofs.
From Coq Require Import SetoidList.

(* with the authority-level world fs and the block worlds ws (all runs
   error-free), the verdict is: the list of failed checks if any check of the
   authorizer, the authority block or a later block fails in its scope;
   otherwise the kind of the first policy with a satisfied query *)
Theorem C04_verdict_structure : forall rx (auth : block) (bs : list block) (a : astate) fs ws,
  auth_world rx auth a = (fs, None) -> block_worlds rx (a_limits a) fs bs ws ->
  snd (authorize rx (auth :: bs) a) =
  match all_failed rx auth bs a fs ws with
  | [] => match policy_result rx fs (a_policies a) with
          | Some Allow => VSuccess | Some Deny => VPolicyDenied | None => VNoMatchingPolicy end
  | l => VChecksFailed l
  end.
Proof. exact AuthzProofs.C04_verdict_structure. Qed.

Theorem C04_success_iff : forall rx (auth : block) (bs : list block) (a : astate) fs ws,
  auth_world rx auth a = (fs, None) -> block_worlds rx (a_limits a) fs bs ws ->
  (snd (authorize rx (auth :: bs) a) = VSuccess <->
   all_checks_ok rx auth bs a fs ws /\ policy_result rx fs (a_policies a) = Some Allow).
Proof. exact AuthzProofs.C04_success_iff. Qed.

(* check failure takes precedence over the policy result *)
Theorem C04_precedence : forall rx (auth : block) (bs : list block) (a : astate) fs ws,
  auth_world rx auth a = (fs, None) -> block_worlds rx (a_limits a) fs bs ws ->
  all_failed rx auth bs a fs ws <> [] ->
  snd (authorize rx (auth :: bs) a) = VChecksFailed (all_failed rx auth bs a fs ws).
Proof. exact AuthzProofs.C04_precedence. Qed.

Theorem C04_decision : forall rx (auth : block) (bs : list block) (a : astate) fs ws,
  auth_world rx auth a = (fs, None) -> block_worlds rx (a_limits a) fs bs ws ->
  (all_checks_ok rx auth bs a fs ws ->
   snd (authorize rx (auth :: bs) a) = policy_verdict (policy_result rx fs (a_policies a))) /\
  (~ all_checks_ok rx auth bs a fs ws ->
   exists l, l <> [] /\ snd (authorize rx (auth :: bs) a) = VChecksFailed l).
Proof. exact AuthzProofs.C04_decision. Qed.

(* policies: the first one, in insertion order, with a satisfied query decides *)
Theorem C04_first_match : forall rx fs (ps1 ps2 : list policy) (p : policy),
  (forall p', In p' ps1 -> check_holds rx fs (pol_queries p') = false) ->
  check_holds rx fs (pol_queries p) = true ->
  policy_result rx fs (ps1 ++ p :: ps2) = Some (pol_kind p).
Proof. exact AuthzProofs.C04_first_match. Qed.

Theorem C04_no_match : forall rx fs (ps : list policy),
  (forall p, In p ps -> check_holds rx fs (pol_queries p) = false) -> policy_result rx fs ps = None.
Proof. exact AuthzProofs.C04_no_match. Qed.

(* a check (or policy) holds iff at least one of its queries has a result *)
Theorem C04_or_is_disjunction : forall rx fs (c : check),
  check_holds rx fs c = true <-> exists q, In q c /\ query_rule rx q fs <> [].
Proof. exact AuthzProofs.C04_or_is_disjunction. Qed.

(* outside the fragment: a run error anywhere is returned, never masked *)
Theorem C04_run_error_wins : forall rx (auth : block) (bs : list block) (a : astate),
  (exists e, snd (auth_world rx auth a) = Some e) \/
  (exists b e, In b bs /\ snd (block_world rx (a_limits a) (fst (auth_world rx auth a)) b) = Some e) ->
  exists e', snd (authorize rx (auth :: bs) a) = VRunError e'.
Proof. exact AuthzProofs.C04_run_error_wins. Qed.

(* the worlds of the scopes are the least models, one fact per class of Equal
   facts ([fact_eqv] is Predicate.Equal, see C05): every fact of a world is
   derivable, every derivable fact has an Equal fact in the world, ... *)
Theorem C04_worlds_are_least_models : forall rx (auth : block) (a : astate) fs,
  auth_world rx auth a = (fs, None) ->
  ((forall f, In f fs ->
      Derivable rx (a_rules a ++ b_rules auth) (fold_left insert_fact (b_facts auth) (a_facts a)) f) /\
   (forall f,
      Derivable rx (a_rules a ++ b_rules auth) (fold_left insert_fact (b_facts auth) (a_facts a)) f ->
      InA fact_eqv f fs)) /\
  (forall lim b w, block_world rx lim fs b = (w, None) ->
     (forall f, In f w -> Derivable rx (b_rules b) (fold_left insert_fact (b_facts b) fs) f) /\
     (forall f, Derivable rx (b_rules b) (fold_left insert_fact (b_facts b) fs) f -> InA fact_eqv f w)).
Proof. exact OrderProofs.C04_worlds_are_least_models. Qed.

(* ... hence, for error-free runs and queries, the verdict is exactly the one the declarative
   decision procedure [spec_verdict] (stated over least-model membership only)
   prescribes, and that procedure is functional *)
Theorem C04_verdict_spec : forall rx (auth : block) (bs : list block) (a : astate),
  runs_ok rx (auth :: bs) a -> queries_ef rx (auth :: bs) a ->
  forall v, spec_verdict rx auth bs a v <-> v = snd (authorize rx (auth :: bs) a).
Proof. exact OrderProofs.C04_verdict_spec. Qed.

Example C04_hypotheses_satisfiable := ex_C04_hyps.
Example C04_all_outcomes := ex_C04_outcomes.
(* the declarative specification on a programme with repeated-element sets,
   intersection and union *)
Example C04_verdict_spec_sets := s_C04_verdict_spec.

Print Assumptions C04_verdict_structure.
Print Assumptions C04_success_iff.
Print Assumptions C04_precedence.
Print Assumptions C04_decision.
Print Assumptions C04_first_match.
Print Assumptions C04_no_match.
Print Assumptions C04_or_is_disjunction.
Print Assumptions C04_run_error_wins.
Print Assumptions C04_worlds_are_least_models.
Print Assumptions C04_verdict_spec.
