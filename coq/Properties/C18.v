(* C18 — An authorizer snapshot restores an equivalent authorizer.
   Statements only; proofs in Proofs/SnapshotProofs.v (model: Model/Snapshot.v —
   SerializePolicies / LoadPolicies at the symbol-index level over Model/Wire.v's
   AuthorizerPolicies codec; [sem] resolves an authorizer to the S-level state on
   which Authz.authorize runs). *)
From BV Require Import Base Term Expr Datalog Authz DTerm Symbols Wire Snapshot.
From BV Require Import WireProofs SymbolsProofs TokenProofs SnapshotProofs.

(* saving an unevaluated authorizer and loading the bytes into a fresh one gives the
   same resolved facts, rules, checks and ordered policies ... *)
Theorem C18_equivalent : forall (a : dauth) (bs : bytes),
  dinv a -> save a = Ok bs -> small_table (da_syms (save_state a)) -> wf_astate_c (sem a) -> small bs ->
  exists a', load (dfresh (da_limits a)) bs = Ok a' /\ sem a' = sem a /\
             da_syms a' = da_syms (save_state a) /\ dinv a'.
Proof. exact SnapshotProofs.C18_equivalent. Qed.

(* ... hence the same authorization outcome and the same query results, for every token *)
Theorem C18_same_behaviour : forall a bs a' rx (tok : list block) (q : rule),
  dinv a -> save a = Ok bs -> small_table (da_syms (save_state a)) -> wf_astate_c (sem a) -> small bs ->
  load (dfresh (da_limits a)) bs = Ok a' ->
  authorize rx tok (sem a') = authorize rx tok (sem a) /\ query rx (sem a') q = query rx (sem a) q.
Proof. exact SnapshotProofs.C18_same_behaviour. Qed.

(* the invariant [dinv] holds for every authorizer built from a fresh one by add operations *)
Theorem C18_invariant_reachable : forall rx tok (ops : list dhop) (a : dauth),
  forallb is_add ops = true -> dinv a ->
  dinv (dhrun rx tok a ops) /\ da_dirty (dhrun rx tok a ops) = da_dirty a /\
  da_limits (dhrun rx tok a ops) = da_limits a.
Proof. exact dinv_adds. Qed.

(* saving is refused once the authorizer has been evaluated: after any Authorize
   (whatever its outcome, also a failed run) and after a successful Query *)
Theorem C18_refused_when_evaluated : forall a, da_dirty a = true -> save a = Err EDirty.
Proof. exact SnapshotProofs.C18_refused_when_evaluated. Qed.
Theorem C18_refused_after_authorize : forall rx tok (pre post : list dhop) (a : dauth),
  existsb is_reset post = false -> save (dhrun rx tok a (pre ++ DAuthorize :: post)) = Err EDirty.
Proof. exact C18_refused_history. Qed.
Theorem C18_refused_after_query : forall rx tok (pre post : list dhop) (a : dauth) q r,
  snd (d_query rx (dhrun rx tok a pre) q) = Ok r -> existsb is_reset post = false ->
  save (dhrun rx tok a (pre ++ DQuery q :: post)) = Err EDirty.
Proof. exact C18_refused_history_query. Qed.

(* loading malformed bytes returns an error (or a state), never panics *)
Theorem C18_load_total : forall a bs s, load a bs <> Panic s.
Proof. exact SnapshotProofs.C18_load_total. Qed.

Example C18_hypotheses_satisfiable := C18_equivalent_nonvacuous.
Example C18_refused_after_failed_run_example := C18_refused_after_failed_run.

Print Assumptions C18_equivalent.
Print Assumptions C18_same_behaviour.
Print Assumptions C18_invariant_reachable.
Print Assumptions C18_refused_when_evaluated.
Print Assumptions C18_refused_after_authorize.
Print Assumptions C18_refused_after_query.
Print Assumptions C18_load_total.
