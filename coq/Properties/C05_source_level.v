(* C05 at SOURCE level, stage E: the definitions that /verif/genfn regenerates on every run from the
   text of Predicate.Equal, Predicate.Match, FactSet.Insert, FactSet.InsertAll, FactSet.Equal and
   advanceIndexes in datalog/datalog.go (coq/GeneratedFn.v: go_Predicate_Equal, ...) are EQUAL to the
   index-level model (Model/Token.v: dpred_geqb, dfact_in; Model/DEval.v: dpred_match, dinsert_fact,
   dinsert_all; Model/Odometer.v: advance), for all inputs in the ranges of the Go types.
   Predicate is the model's record dpred, Fact its single field, FactSet = list dpred; a pointer the
   function writes through is threaded (new pointee beside the result).  Statements only; proofs in
   Proofs/GenFnDatalogProofs.v. *)
From BV Require Import Base Term Expr DTerm Symbols Token DEval Odometer GoSem GeneratedFn.
From BV Require Import GenFnProofs GenFnSetProofs GenFnDatalogProofs.
Local Open Scope Z_scope.

Theorem C05_source_predicate_equal : forall (p q : dpred),
  go_Predicate_Equal p q = Ok (dpred_geqb p q).
Proof. exact go_Predicate_Equal_eq. Qed.

Theorem C05_source_predicate_match : forall (p q : dpred),
  go_Predicate_Match p q = Ok (dpred_match p q).
Proof. exact go_Predicate_Match_eq. Qed.

Theorem C05_source_factset_insert : forall (s : list dpred) (f : dpred),
  go_FactSet_Insert s f = (dinsert_fact s f, Ok (negb (dfact_in f s))).
Proof. exact go_FactSet_Insert_eq. Qed.

Theorem C05_source_factset_insert_all : forall (s facts : list dpred),
  go_FactSet_InsertAll s facts = (dinsert_all s facts, Ok tt).
Proof. exact go_FactSet_InsertAll_eq. Qed.

Theorem C05_source_factset_equal : forall (s x : list dpred),
  go_FactSet_Equal s x = Ok (Nat.eqb (length s) (length x) && forallb (fun f => dfact_in f s) x).
Proof. exact go_FactSet_Equal_eq. Qed.

Theorem C05_source_advance_indexes : forall (cur : nat) (idx : list nat) (facts : list dpred),
  (cur < length idx)%nat -> Z.of_nat cur < two63 -> len_ok facts ->
  go_advanceIndexes (Z.of_nat cur) (map Z.of_nat idx) facts =
  match advance cur idx (length facts) with
  | Some (c, idx') => (Z.of_nat c, map Z.of_nat idx', Ok true)
  | None => (0, map Z.of_nat (reset_down cur idx), Ok false)
  end.
Proof. exact go_advanceIndexes_eq. Qed.

Theorem C05_source_advance_indexes_total : forall (cur : nat) (idx : list nat) (facts : list dpred),
  (cur < length idx)%nat -> Z.of_nat cur < two63 -> len_ok facts ->
  exists (c : nat) (idx' : list nat) (b : bool),
    go_advanceIndexes (Z.of_nat cur) (map Z.of_nat idx) facts = (Z.of_nat c, map Z.of_nat idx', Ok b) /\
    (b = true <-> advance cur idx (length facts) = Some (c, idx')).
Proof. exact go_advanceIndexes_total. Qed.

Theorem C05_source_insert_no_duplicates : forall (s : list dpred) (f : dpred),
  factset_nodupb s = true -> factset_nodupb (fst (go_FactSet_Insert s f)) = true.
Proof. exact go_FactSet_Insert_no_duplicates. Qed.

Theorem C05_source_insert_all_no_duplicates : forall (facts s : list dpred),
  factset_nodupb s = true -> factset_nodupb (fst (go_FactSet_InsertAll s facts)) = true.
Proof. exact go_FactSet_InsertAll_no_duplicates. Qed.

Theorem C05_source_insert_keeps_existing : forall (s : list dpred) (f : dpred),
  (go_FactSet_Insert s f = (s, Ok false) /\ dfact_in f s = true) \/
  (go_FactSet_Insert s f = (s ++ [f], Ok true) /\ dfact_in f s = false).
Proof. exact go_FactSet_Insert_keeps_existing. Qed.

Theorem C05_source_insert_then_member : forall (s : list dpred) (f : dpred),
  dpred_geqb f f = true -> dfact_in f (fst (go_FactSet_Insert s f)) = true.
Proof. exact go_FactSet_Insert_then_member. Qed.

Theorem C05_source_match_symmetric : forall (p q : dpred),
  go_Predicate_Match p q = go_Predicate_Match q p.
Proof. exact go_Predicate_Match_symmetric. Qed.

Theorem C05_source_equal_symmetric : forall (p q : dpred),
  go_Predicate_Equal p q = go_Predicate_Equal q p.
Proof. exact go_Predicate_Equal_symmetric. Qed.

Theorem C05_source_equal_implies_match : forall (p q : dpred),
  go_Predicate_Equal p q = Ok true -> go_Predicate_Match p q = Ok true.
Proof. exact go_Predicate_Equal_implies_Match. Qed.

Print Assumptions C05_source_predicate_equal.
Print Assumptions C05_source_predicate_match.
Print Assumptions C05_source_factset_insert.
Print Assumptions C05_source_factset_insert_all.
Print Assumptions C05_source_factset_equal.
Print Assumptions C05_source_advance_indexes.
Print Assumptions C05_source_advance_indexes_total.
Print Assumptions C05_source_insert_no_duplicates.
Print Assumptions C05_source_insert_all_no_duplicates.
Print Assumptions C05_source_insert_keeps_existing.
Print Assumptions C05_source_insert_then_member.
Print Assumptions C05_source_match_symmetric.
Print Assumptions C05_source_equal_symmetric.
Print Assumptions C05_source_equal_implies_match.
