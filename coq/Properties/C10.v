(* C10 — Untrusted token bytes can never crash the verifier.  PARTIAL.
   Statements only; proofs in Proofs/PipelineProofs.v, WireProofs.v, ChainProofs.v,
   ExprProofs.v, AuthzProofs.v.  Every modelled stage returns [res] with an
   explicit Panic outcome for each Go operation that can panic; the theorems say
   that outcome is unreachable, for every byte string.
   Not covered by a theorem (runtime / third-party remainder, exercised by the
   worker-process streams of the harness): proto.Unmarshal's own crash-freedom,
   regexp.Compile/Match on attacker patterns, fmt and time formatting. *)
From BV Require Import Base Term Expr Datalog Authz DTerm Symbols Chain Wire Token.
From BV Require Import WireProofs ChainProofs ExprProofs AuthzProofs PipelineProofs.

(* unmarshalling any byte string returns a token or an error *)
Theorem C10_unmarshal_total : forall bs s, tk_unmarshal bs <> Panic s.
Proof. exact tk_unmarshal_no_panic. Qed.

Theorem C10_unmarshal_with_base_total : forall base bs s, tk_unmarshal_with base bs <> Panic s.
Proof. exact tk_unmarshal_with_no_panic. Qed.

Theorem C10_block_decode_total : forall bs s, dec_block bs <> Panic s.
Proof. exact dec_block_no_panic. Qed.

Theorem C10_policies_decode_total : forall bs s, dec_policies bs <> Panic s.
Proof. exact dec_policies_no_panic. Qed.

(* signature verification under any 32-byte key: wrong-length secrets, keys,
   signatures and unknown algorithms are errors *)
Theorem C10_verify_total : forall pub verify root t s,
  length root = 32%nat -> tk_verify pub verify (KSingular root) t <> Panic s.
Proof. exact tk_verify_no_panic. Qed.

(* accepted envelopes have 32-byte keys and 64-byte signatures (so ed25519.Verify is never
   called with a mis-sized key taken from the token) *)
Theorem C10_accepted_sizes : forall sbs t r,
  unmarshal_blocks t sbs = Ok r ->
  Forall (fun sb => length (sb_key sb) = 32%nat /\ length (sb_sig sb) = 64%nat) sbs.
Proof. exact unmarshal_blocks_sizes. Qed.

(* append / seal on any token *)
Theorem C10_append_total : forall pub sign t blk src s, tk_append pub sign t blk src <> Panic s.
Proof. exact tk_append_no_panic. Qed.
Theorem C10_seal_total : forall sign t s, tk_seal sign t <> Panic s.
Proof. exact tk_seal_no_panic. Qed.

(* evaluation: expressions never panic on any operator sequence and operands
   (sets of byte arrays included); authorization always returns a verdict *)
Theorem C10_expressions_total : forall rx e b s, eval rx e b <> Panic s.
Proof. exact eval_no_panic. Qed.
Theorem C10_blocks_phase_total : forall rx lim fs bs i s, blocks_phase rx lim fs bs i <> Panic s.
Proof. exact blocks_phase_no_panic. Qed.
Theorem C10_authorize_total : forall rx tok a, exists st v, authorize rx tok a = (st, v).
Proof. exact authorize_total. Qed.

(* the witnesses of the repaired defects, on the model of the repaired code *)
Example C10_set_of_bytes_evaluates :
  eval (fun _ _ => None) [OVal (TSet [ABytes [1]]); OVal (TSet [ABytes [1]]); OBin BEqual] [] = Ok (TA (ABool true)).
Proof. vm_compute. reflexivity. Qed.
Example C10_huge_symbol_index_prints :
  sym_str [] 9223372036854775808 = invalid_symbol 9223372036854775808.
Proof. vm_compute. reflexivity. Qed.
Example C10_short_secret_is_an_error :
  verify_proof (fun s => s) (fun _ _ _ => true) (repeat 0 32)
    {| c_rootid := None; c_auth := {| sb_block := []; sb_alg := 0; sb_key := repeat 0 32; sb_sig := [] |};
       c_blocks := []; c_proof := PNextSecret [1; 2; 3] |} = Err EInvalidKeySize.
Proof. vm_compute. reflexivity. Qed.

Print Assumptions C10_unmarshal_total.
Print Assumptions C10_unmarshal_with_base_total.
Print Assumptions C10_block_decode_total.
Print Assumptions C10_policies_decode_total.
Print Assumptions C10_verify_total.
Print Assumptions C10_accepted_sizes.
Print Assumptions C10_append_total.
Print Assumptions C10_seal_total.
Print Assumptions C10_expressions_total.
Print Assumptions C10_blocks_phase_total.
Print Assumptions C10_authorize_total.
