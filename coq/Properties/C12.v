(* C12 — Authorization is deterministic and independent of presentation order.
   Statements only; proofs in Proofs/OrderProofs.v.

   Fragment: error-free queries ([queries_ef]: no candidate binding makes an
   expression fail — outside it order dependence is real, see
   [C12_out_of_fragment]), runs within limits ([runs_ok]).  No hypothesis on set
   constants or set operators: every step of the evaluation respects
   Predicate.Equal (C05).  Worlds are compared up to Equal ([PermutationA
   fact_eqv]): a world keeps the first representative of each class of Equal
   facts.  The policy LIST order is significant and is never permuted
   ([C12_policy_order_matters]).  Duplicates and repetition need no hypothesis
   at all. *)
From BV Require Import Base Term Expr Datalog Authz DatalogProofs AuthzProofs OrderProofs.
From Coq Require Import Permutation SetoidList SetoidPermutation.

(* facts, rules, checks of every block and of the authorizer permuted, queries
   inside checks and policies permuted: same verdict class (failed checks are
   renumbered by the permutation, so the class carries their number) and the
   same derived fact set, up to Equal *)
Theorem C12_permutation : forall rx (tok tok' : list block) (a a' : astate),
  Forall2 block_perm tok tok' -> astate_perm a a' ->
  NoDupA fact_eqv (a_facts a) -> runs_ok rx tok a -> runs_ok rx tok' a' -> queries_ef rx tok a ->
  verdict_class (snd (authorize rx tok a)) = verdict_class (snd (authorize rx tok' a')) /\
  PermutationA fact_eqv (a_facts (fst (authorize rx tok a))) (a_facts (fst (authorize rx tok' a'))).
Proof. exact OrderProofs.C12_permutation. Qed.

(* the set-free case: Predicate.Equal is equality there, plain permutation *)
Theorem C12_permutation_setfree : forall rx (tok tok' : list block) (a a' : astate),
  Forall2 block_perm tok tok' -> astate_perm a a' ->
  setfree_facts (a_facts a) -> setfree_rules (a_rules a) ->
  Forall (fun b => setfree_facts (b_facts b) /\ setfree_rules (b_rules b)) tok ->
  NoDup (a_facts a) -> runs_ok rx tok a -> runs_ok rx tok' a' -> queries_ef rx tok a ->
  verdict_class (snd (authorize rx tok a)) = verdict_class (snd (authorize rx tok' a')) /\
  Permutation (a_facts (fst (authorize rx tok a))) (a_facts (fst (authorize rx tok' a'))).
Proof. exact OrderProofs.C12_permutation_setfree. Qed.

(* consistent (injective) renaming of variables, rule by rule: identical verdict and world *)
Theorem C12_alpha : forall rx (tok tok' : list block) (a a' : astate),
  Forall2 alpha_block tok tok' -> alpha_astate a a' ->
  snd (authorize rx tok' a') = snd (authorize rx tok a) /\
  a_facts (fst (authorize rx tok' a')) = a_facts (fst (authorize rx tok a)).
Proof. exact OrderProofs.C12_alpha. Qed.

(* duplicating a fact is a no-op *)
Theorem C12_duplicate : forall (a : astate) (f : pred), add_fact (add_fact a f) f = add_fact a f.
Proof. exact OrderProofs.C12_duplicate. Qed.

Theorem C12_duplicate_in_block : forall (l1 l2 l3 : list pred) (f : pred) (fs : list pred),
  fold_left insert_fact (l1 ++ f :: l2 ++ f :: l3) fs = fold_left insert_fact (l1 ++ f :: l2 ++ l3) fs.
Proof. exact fold_insert_dup. Qed.

(* so is adding a fact that is merely Equal to an earlier one (p([2,1]) after p([1,2])) *)
Theorem C12_duplicate_in_block_equal : forall (l1 l2 l3 : list pred) (f f' : pred) (fs : list pred),
  fact_eqv f f' ->
  fold_left insert_fact (l1 ++ f :: l2 ++ f' :: l3) fs = fold_left insert_fact (l1 ++ f :: l2 ++ l3) fs.
Proof. exact fold_insert_dup_eqv. Qed.

(* calling Authorize again on the same authorizer: same state, same verdict, any number of times *)
Theorem C12_repeat : forall rx (tok : list block) (a : astate) (n : nat),
  snd (auth_world rx (hd empty_block tok) a) = None ->
  authorize rx tok (authorize_times rx n tok a) = authorize rx tok a.
Proof. exact C12_repeat_n. Qed.

(* boundaries of the fragment, made explicit *)
Example C12_policy_order_matters := policy_order_matters.
Example C12_out_of_fragment := C12_out_of_fragment_example.
(* the former set counter-example (repeated element + intersection), repaired *)
Example C12_sets_setops_repaired := C12_sets_setops_repaired_example.
Example C12_repeat_after_limit := C12_repeat_after_limit_example.
Example C12_hypotheses_satisfiable := o_hyps.
(* with set constants that have repeated elements and rules with intersection
   and union, two presentations *)
Example C12_hypotheses_satisfiable_sets := s_hyps.
Example C12_permutation_sets := s_C12_permutation.
Example C12_permutation_sets_computed := s_verdicts.

Print Assumptions C12_permutation.
Print Assumptions C12_permutation_setfree.
Print Assumptions C12_alpha.
Print Assumptions C12_duplicate.
Print Assumptions C12_duplicate_in_block.
Print Assumptions C12_duplicate_in_block_equal.
Print Assumptions C12_repeat.
