(* C03 at the level of library tokens: appending a block built from CreateBlock of
   a token changes neither the authorizer state after Authorize (the world that
   Query and later operations see) nor any query answer: whatever the block
   carries stays in its own scope.  Composition of C07_content_append
   (Proofs/TokenProofs.v) with the S-level theorems of Proofs/AuthzProofs.v. *)
From BV Require Import Base Term Expr Datalog Authz DTerm Symbols Chain Wire Token History.
From BV Require Import WireProofs SymbolsProofs TokenProofs AuthzProofs.

Lemma resolve_token_cons tok : exists auth bs, resolve_token tok = auth :: bs.
Proof. unfold resolve_token. cbn [map]. eexists. eexists. reflexivity. Qed.

Theorem C03_token_append_state_blind : forall pub sign base tok ops blk bb' src tok' src' rx a,
  token_inv base tok -> small_table (bb_syms (bb_exec (create_block tok) ops)) ->
  bb_build (bb_exec (create_block tok) ops) = Ok (blk, bb') ->
  tk_append pub sign tok blk src = Ok (tok', src') ->
  fst (authorize rx (resolve_token tok') a) = fst (authorize rx (resolve_token tok) a) /\
  forall q, query rx (fst (authorize rx (resolve_token tok') a)) q =
            query rx (fst (authorize rx (resolve_token tok) a)) q.
Proof.
  intros pub sign base tok ops blk bb' src tok' src' rx a I Hs Hb Ha.
  destruct (TokenProofs.C07_content_append pub sign base tok ops blk bb' src tok' src' I Hs Hb Ha)
    as (_ & _ & _ & R & _).
  destruct (resolve_token_cons tok) as (auth & bs & E).
  rewrite R, E. cbn [app]. split.
  - apply authorize_state_blind.
  - intro q. apply AuthzProofs.C03_queries_blind.
Qed.

Print Assumptions C03_token_append_state_blind.
