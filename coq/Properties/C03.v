(* C03 — Block scoping: a later block's facts and rules reach only its own checks.
   Statements only; proofs in Proofs/AuthzProofs.v. *)
From BV Require Import Base Term Expr Datalog Authz AuthzProofs.

(* the authority-level computation (world, authorizer checks, authority checks,
   policy result) does not take the later blocks as an argument *)
Theorem C03_authority_phase_blind : forall rx (auth : block) (bs bs' : list block) (a : astate),
  authorize rx (auth :: bs) a =
    authz_finish rx a (a_rules a ++ b_rules auth) (authority_phase rx auth a) bs /\
  authorize rx (auth :: bs') a =
    authz_finish rx a (a_rules a ++ b_rules auth) (authority_phase rx auth a) bs'.
Proof. exact AuthzProofs.C03_authority_phase_blind. Qed.

(* each later block is evaluated on its own: the blocks phase is the first run
   error, else the concatenation of per-block outcomes *)
Theorem C03_blocks_independent : forall rx lim fs (bs : list block) i,
  blocks_phase rx lim fs bs i = combine_outcomes (outcomes rx lim fs bs i).
Proof. exact blocks_phase_independent. Qed.

(* replacing one block (content and checks arbitrary) changes no other block's outcome *)
Theorem C03_other_blocks_unaffected : forall rx lim fs (pre post : list block) (b b' : block) i (k : nat),
  k <> length pre ->
  nth_error (outcomes rx lim fs (pre ++ [b] ++ post) i) k =
  nth_error (outcomes rx lim fs (pre ++ [b'] ++ post) i) k.
Proof. exact C03_other_blocks_unaffected_nth. Qed.

(* facts and rules of a check-free block influence nothing at all: state, verdict *)
Theorem C03_block_facts_local : forall rx (auth : block) (pre post : list block) (b b' : block) (a : astate),
  b_checks b = [] -> b_checks b' = [] ->
  snd (block_world rx (a_limits a) (fst (auth_world rx auth a)) b) = None ->
  snd (block_world rx (a_limits a) (fst (auth_world rx auth a)) b') = None ->
  authorize rx (auth :: pre ++ [b] ++ post) a = authorize rx (auth :: pre ++ [b'] ++ post) a.
Proof. exact AuthzProofs.C03_block_facts_local. Qed.

(* inserting a check-free block only renumbers the later blocks in the report *)
Theorem C03_block_insert : forall rx (auth : block) (pre post : list block) (b : block) (a : astate),
  b_checks b = [] ->
  snd (block_world rx (a_limits a) (fst (auth_world rx auth a)) b) = None ->
  snd (authorize rx (auth :: pre ++ [b] ++ post) a) =
  shift_verdict (1 + lenN pre) (snd (authorize rx (auth :: pre ++ post) a)).
Proof. exact C03_block_insert_renumber. Qed.

(* the authorizer's state after Authorize, hence every later query, is blind to later blocks *)
Theorem C03_state_blind : forall rx (auth : block) (bs bs' : list block) (a : astate),
  fst (authorize rx (auth :: bs) a) = fst (authorize rx (auth :: bs') a).
Proof. exact authorize_state_blind. Qed.

Theorem C03_queries_blind : forall rx (auth : block) (bs bs' : list block) (a : astate) (q : rule),
  query rx (fst (authorize rx (auth :: bs) a)) q = query rx (fst (authorize rx (auth :: bs') a)) q.
Proof. exact AuthzProofs.C03_queries_blind. Qed.

(* authority-level facts (authorizer + authority block + what their rules derive) are in every block's world *)
Theorem C03_authority_visible : forall rx lim fs (b : block) fs',
  run rx lim (b_rules b) (fold_left insert_fact (b_facts b) fs) = (fs', None) ->
  forall f, In f fs -> In f fs'.
Proof. exact AuthzProofs.C03_authority_visible. Qed.

Example C03_hypotheses_satisfiable := ex_C03_block_facts_local_hyp.

Print Assumptions C03_authority_phase_blind.
Print Assumptions C03_blocks_independent.
Print Assumptions C03_other_blocks_unaffected.
Print Assumptions C03_block_facts_local.
Print Assumptions C03_block_insert.
Print Assumptions C03_state_blind.
Print Assumptions C03_queries_blind.
Print Assumptions C03_authority_visible.
