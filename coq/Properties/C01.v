(* C01 — Only an unbroken root-signed signature chain verifies.
   Statements only; proofs in Proofs/ChainProofs.v.
   ed25519 is a parameter: [pub] (seed -> public key), [sign], [verify], with the
   laws stated as Section hypotheses (they become explicit premises after the
   section closes).  [Signed k m s] is an ideal ledger: "the owner of key k
   produced signature s on message m"; [verify_sound] is the cryptographic
   assumption that only such signatures verify (trusted base). *)
From BV Require Import Base Chain ChainProofs.

Section C01.
  Variable pub : bytes -> bytes.
  Variable sign : bytes -> bytes -> bytes.
  Variable verify : bytes -> bytes -> bytes -> bool.

  (* acceptance <-> the declarative chain: authority signed under the root key,
     every block under the key announced before it, proof matching the last key *)
  Theorem C01_accept_iff_chain : forall root c,
    length root = 32%nat ->
    (verify_token pub verify root c = Ok tt <-> chain_valid pub verify root c).
  Proof. exact (verify_token_iff_chain pub sign verify). Qed.

  Theorem C01_broken_link_rejected : forall root c,
    length root = 32%nat -> ~ links_valid verify root (c_auth c :: c_blocks c) ->
    exists e, verify_token pub verify root c = Err e.
  Proof. exact (verify_token_rejects_broken_link pub sign verify). Qed.

  Theorem C01_verification_total : forall root c s,
    length root = 32%nat -> verify_token pub verify root c <> Panic s.
  Proof. exact (verify_token_no_panic pub verify). Qed.

  (* no two distinct (block bytes, algorithm, key[, signature]) tuples are signed as the same message *)
  Theorem C01_payload_injective : forall b1 b2,
    length (sb_key b1) = 32%nat -> length (sb_key b2) = 32%nat -> payload b1 = payload b2 ->
    sb_block b1 = sb_block b2 /\ le32 (sb_alg b1) = le32 (sb_alg b2) /\ sb_key b1 = sb_key b2.
  Proof. exact payload_injective. Qed.

  Theorem C01_seal_payload_injective : forall b1 b2,
    length (sb_key b1) = 32%nat -> length (sb_key b2) = 32%nat ->
    length (sb_sig b1) = 64%nat -> length (sb_sig b2) = 64%nat -> seal_payload b1 = seal_payload b2 ->
    sb_block b1 = sb_block b2 /\ le32 (sb_alg b1) = le32 (sb_alg b2) /\
    sb_key b1 = sb_key b2 /\ sb_sig b1 = sb_sig b2.
  Proof. exact seal_payload_injective. Qed.

  (* completeness: every token reachable by build / append / seal verifies under the matching root key *)
  Hypothesis verify_sign : forall s m, verify (pub s) m (sign s m) = true.
  Hypothesis pub_len : forall s, length s = 32%nat -> length (pub s) = 32%nat.

  Theorem C01_complete : forall root_seed (ops : list chop),
    length root_seed = 32%nat ->
    Forall (fun c => verify_token pub verify (pub root_seed) c = Ok tt)
           (fold_left (hstep pub sign root_seed) ops []).
  Proof.
    intros rs ops H. apply (history_complete pub sign verify verify_sign pub_len rs ops H). constructor.
  Qed.

  (* forgery resistance, relative to the ideal ledger *)
  Variable Signed : bytes -> bytes -> bytes -> Prop.
  Hypothesis verify_sound : forall k m s, verify k m s = true -> Signed k m s.

  Theorem C01_accepted_is_signed : forall root c,
    length root = 32%nat -> verify_token pub verify root c = Ok tt ->
    links_signed Signed root (c_auth c :: c_blocks c) /\
    match c_proof c with
    | PNextSecret s => sb_key (last_sblock c) = pub s
    | PFinalSig g => Signed (sb_key (last_sblock c)) (seal_payload (last_sblock c)) g
    | PNone => False
    end.
  Proof. exact (accepted_is_signed pub sign verify Signed verify_sound). Qed.

  (* every mutation class of the property is an instance of these three: a
     changed block / announced key / algorithm / signature / position / count
     yields some link (key, payload, signature) that was never signed *)
  Theorem C01_unsigned_link_rejected : forall root c,
    length root = 32%nat -> ~ links_signed Signed root (c_auth c :: c_blocks c) ->
    verify_token pub verify root c <> Ok tt.
  Proof. exact (unsigned_link_rejected pub sign verify Signed verify_sound). Qed.

  Theorem C01_unsigned_seal_rejected : forall root c g,
    length root = 32%nat -> c_proof c = PFinalSig g ->
    ~ Signed (sb_key (last_sblock c)) (seal_payload (last_sblock c)) g ->
    verify_token pub verify root c <> Ok tt.
  Proof. exact (unsigned_seal_rejected pub sign verify Signed verify_sound). Qed.

  Theorem C01_wrong_secret_rejected : forall root c s,
    length root = 32%nat -> c_proof c = PNextSecret s -> sb_key (last_sblock c) <> pub s ->
    verify_token pub verify root c <> Ok tt.
  Proof. exact (wrong_secret_rejected pub sign verify Signed verify_sound). Qed.
End C01.

Print Assumptions C01_accept_iff_chain.
Print Assumptions C01_broken_link_rejected.
Print Assumptions C01_verification_total.
Print Assumptions C01_payload_injective.
Print Assumptions C01_seal_payload_injective.
Print Assumptions C01_complete.
Print Assumptions C01_accepted_is_signed.
Print Assumptions C01_unsigned_link_rejected.
Print Assumptions C01_unsigned_seal_rejected.
Print Assumptions C01_wrong_secret_rejected.
