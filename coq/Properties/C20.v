(* C20 — Entropy failure is reported, never turned into a panic or a degenerate key.
   Only statements closed by [exact]; proofs live in Proofs/ChainProofs.v. *)
From BV Require Import Base Chain ChainProofs.

Section C20.
  Variable pub : bytes -> bytes.
  Variable sign : bytes -> bytes -> bytes.
  Variable verify : bytes -> bytes -> bytes -> bool.
  (* assumed of ed25519 (trusted base): a signature made with a seed verifies
     under the public key derived from it; public keys are 32 bytes *)
  Hypothesis verify_sign : forall s m, verify (pub s) m (sign s m) = true.
  Hypothesis pub_len : forall s, length s = 32%nat -> length (pub s) = 32%nat.

  (* a source that fails after k < 32 bytes: building returns an error — no
     token, no panic — for every k, every root key, every content *)
  Theorem C20_build_fault : forall root_seed rid blk (src : source),
    (length src < 32)%nat -> build pub sign root_seed rid blk src = Err EEntropy.
  Proof. exact (build_fault pub sign). Qed.

  (* the same for attenuation: always an error; the entropy error whenever the
     token is attenuable at all *)
  Theorem C20_append_fault : forall c blk (src : source),
    (length src < 32)%nat ->
    (exists e, append pub sign c blk src = Err e) /\
    (forall s, c_proof c = PNextSecret s -> length s = 32%nat ->
       append pub sign c blk src = Err EEntropy).
  Proof. exact (append_fault pub sign). Qed.

  (* whenever a token is returned its next key pair is the one derived from the
     bytes the source delivered, and the token verifies *)
  Theorem C20_build_success : forall root_seed rid blk (src : source),
    length root_seed = 32%nat -> (32 <= length src)%nat ->
    exists c, build pub sign root_seed rid blk src = Ok (c, skipn 32 src) /\
      c_proof c = PNextSecret (firstn 32 src) /\
      sb_key (last_sblock c) = pub (firstn 32 src) /\
      sb_block (c_auth c) = blk /\ c_blocks c = [] /\ c_rootid c = rid /\
      verify_token pub verify (pub root_seed) c = Ok tt.
  Proof. exact (build_success pub sign verify verify_sign pub_len). Qed.

  Theorem C20_append_success : forall root c blk (src : source) s,
    length root = 32%nat -> (32 <= length src)%nat ->
    verify_token pub verify root c = Ok tt -> c_proof c = PNextSecret s ->
    exists c' b, append pub sign c blk src = Ok (c', skipn 32 src) /\
      c_blocks c' = c_blocks c ++ [b] /\ sb_block b = blk /\
      sb_key b = pub (firstn 32 src) /\
      c_proof c' = PNextSecret (firstn 32 src) /\
      c_auth c' = c_auth c /\ c_rootid c' = c_rootid c /\
      verify_token pub verify root c' = Ok tt.
  Proof. exact (append_success pub sign verify verify_sign pub_len). Qed.

  (* build/append either fail with an error or succeed: never a panic *)
  Theorem C20_no_panic_build : forall root_seed rid blk src s,
    build pub sign root_seed rid blk src <> Panic s.
  Proof.
    intros. unfold build, gen_seed. destruct (32 <=? length src)%nat; discriminate.
  Qed.
End C20.

(* non-vacuity: the premises are met by a concrete source and token *)
Example C20_premises_satisfiable :
  (length (repeat 7 31) < 32)%nat /\ (32 <= length (repeat 7 40))%nat.
Proof. cbn. lia. Qed.

Print Assumptions C20_build_fault.
Print Assumptions C20_append_fault.
Print Assumptions C20_build_success.
Print Assumptions C20_append_success.
Print Assumptions C20_no_panic_build.
