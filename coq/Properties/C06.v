(* C06 — Expressions are total, typed, and arithmetically exact.
   Statements only; proofs in Proofs/ExprProofs.v and Proofs/TableProofs.v.
   [rx] stands for Go's regexp (pattern, subject -> match, None = invalid pattern). *)
From BV Require Import Base Term Expr ExprProofs TableProofs.
From BV Require Generated.

(* evaluation never panics: every operator sequence (well-formed or not),
   every binding environment, every regexp behaviour *)
Theorem C06_total_no_panic : forall rx e b s, eval rx e b <> Panic s.
Proof. exact eval_no_panic. Qed.

Theorem C06_total : forall rx e b,
  (exists v, eval rx e b = Ok v) \/ (exists x, eval rx e b = Err x).
Proof. exact eval_total. Qed.

(* integer + - * / : the exact mathematical result when it fits in 64 bits,
   an error otherwise (division by zero included); never a wrapped value *)
Theorem C06_arith_exact : forall rx o a b bnd,
  In o [BAdd; BSub; BMul; BDiv] -> in_int64 a = true -> in_int64 b = true ->
  eval rx [OVal (TA (AInt a)); OVal (TA (AInt b)); OBin o] bnd =
  if (match o with BDiv => Z.eqb b 0 | _ => false end) then Err EDivZero
  else if in_int64 (exact_arith o a b) then Ok (TA (AInt (exact_arith o a b))) else Err EOverflow.
Proof. exact arith_exact. Qed.

Theorem C06_never_wrapped : forall rx o l r z,
  In o [BAdd; BSub; BMul; BDiv] -> eval_binary rx o l r = Ok (TA (AInt z)) -> in_int64 z = true.
Proof. exact never_wrapped. Qed.

(* the operator table: exactly the typings of the property statement evaluate,
   everything else is the ill-typed error *)
Theorem C06_ill_typed_is_error : forall rx o l r,
  well_typed o l r = false -> eval_binary rx o l r = Err EIllTyped.
Proof. exact ill_typed_is_error. Qed.

Theorem C06_well_typed_iff : forall rx o l r,
  well_typed o l r = true <-> eval_binary rx o l r <> Err EIllTyped.
Proof. exact well_typed_iff_not_ill_typed. Qed.

Theorem C06_well_typed_result : forall rx o l r,
  well_typed o l r = true ->
  (exists v, eval_binary rx o l r = Ok v) \/ eval_binary rx o l r = Err EDivZero \/
  eval_binary rx o l r = Err EOverflow \/ eval_binary rx o l r = Err ERegex.
Proof. exact well_typed_result. Qed.

Theorem C06_result_type : forall rx o l r v,
  eval_binary rx o l r = Ok v -> term_type v = result_type o (term_type l).
Proof. exact result_typed. Qed.

Theorem C06_unary_table : forall u v,
  (unary_well_typed u v = false -> eval_unary u v = Err EIllTyped) /\
  (unary_well_typed u v = true -> exists r, eval_unary u v = Ok r).
Proof. intros u v. split; [exact (unary_ill_typed_is_error u v) | exact (unary_well_typed_ok u v)]. Qed.

(* the denotations of the table entries on resolved values *)
Theorem C06_set_ops : forall s t x,
  (In x (set_intersect s t) <-> In x s /\ set_contains t x = true) /\
  (In x (set_union s t) <-> In x s \/ (In x t /\ set_contains s x = false)).
Proof. intros s t x. split; [exact (intersection_spec s t x) | exact (union_spec s t x)]. Qed.

(* intersection and union return each element once, whatever the repetitions
   in the operands (a set literal may repeat an element) *)
Theorem C06_set_ops_no_repeats : forall s t,
  NoDup (set_intersect s t) /\ NoDup (set_union s t).
Proof. intros s t. exact (conj (intersection_NoDup s t) (union_NoDup s t)). Qed.

Theorem C06_string_ops : forall s p,
  (has_prefix s p = true <-> exists r, s = p ++ r) /\
  (has_suffix s p = true <-> exists r, s = r ++ p) /\
  (contains_sub s p = true <-> exists a b, s = a ++ p ++ b).
Proof.
  intros s p. split; [exact (has_prefix_spec s p)|]. split; [exact (has_suffix_spec s p)|].
  exact (contains_sub_spec s p).
Qed.

(* well-formed sequences are exactly the postfix forms of expression trees and
   evaluate to the tree's strict left-to-right denotation; anything else errors *)
Theorem C06_postfix : forall rx b t,
  (need t <= max_stack)%nat -> eval rx (postfix t) b = denote rx b t.
Proof. exact postfix_eval. Qed.

Theorem C06_ok_is_postfix : forall rx e b v,
  eval rx e b = Ok v -> exists t, e = postfix t /\ denote rx b t = Ok v.
Proof. exact eval_ok_denote. Qed.

Theorem C06_malformed_is_error : forall rx e b,
  (forall t, e <> postfix t) -> exists x, eval rx e b = Err x.
Proof. exact not_postfix_is_error. Qed.

(* re-proved over the tables generated from the source on this run *)
Theorem C06_every_operator_has_an_evaluator_arm :
  evaluator_arms /\ Generated.max_stack = 1000%N.
Proof. split; [exact evaluator_arms_hold | reflexivity]. Qed.

(* witnesses on the model of the repaired code (the two pre-repair findings) *)
Example C06_minint_div_minus_one_is_overflow :
  eval (fun _ _ => None) [OVal (TA (AInt int64_min)); OVal (TA (AInt (-1))); OBin BDiv] [] = Err EOverflow.
Proof. vm_compute. reflexivity. Qed.
Example C06_set_of_bytes_equality_evaluates :
  eval (fun _ _ => None) [OVal (TSet [ABytes [1]]); OVal (TSet [ABytes [1]]); OBin BEqual] []
  = Ok (TA (ABool true)).
Proof. vm_compute. reflexivity. Qed.

Print Assumptions C06_total_no_panic.
Print Assumptions C06_total.
Print Assumptions C06_arith_exact.
Print Assumptions C06_never_wrapped.
Print Assumptions C06_ill_typed_is_error.
Print Assumptions C06_well_typed_iff.
Print Assumptions C06_well_typed_result.
Print Assumptions C06_result_type.
Print Assumptions C06_unary_table.
Print Assumptions C06_set_ops.
Print Assumptions C06_set_ops_no_repeats.
Print Assumptions C06_string_ops.
Print Assumptions C06_postfix.
Print Assumptions C06_ok_is_postfix.
Print Assumptions C06_malformed_is_error.
Print Assumptions C06_every_operator_has_an_evaluator_arm.
