(* C10 at SOURCE level: SymbolTable.Str and SymbolTable.Var, as regenerated on every run from the text of
   datalog/symbol.go (coq/GeneratedFn.v), return normally for EVERY 64-bit (32-bit) index and every table —
   the out-of-range symbol indexes an attacker can put in a token.  [Panic] is an outcome of the generated
   definitions (an index expression out of range produces it), so "= Ok _" is the absence of a panic; an
   off-by-one in a bound of the source makes these proofs fail.  The arithmetic operators are covered in
   C06_source_level.v.  Statements only; proofs in Proofs/GenFnProofs.v and Proofs/SourceLevelProofs.v. *)
From BV Require Import Base Term Expr DTerm Symbols DEval GoSem GeneratedFn.
From BV Require Import GenFnProofs SourceLevelProofs.

Theorem C10_source_str_total : forall (t : table) (i : N),
  in_u64 i -> len_ok t -> exists s, go_SymbolTable_Str t i = Ok s.
Proof. exact src_str_total. Qed.
Theorem C10_source_var_total : forall (t : table) (v : N),
  in_u32 v -> len_ok t -> exists s, go_SymbolTable_Var t v = Ok s.
Proof. exact src_var_total. Qed.
Theorem C10_source_str_is_model : forall (t : table) (i : N),
  in_u64 i -> len_ok t -> go_SymbolTable_Str t i = Ok (sym_str t i).
Proof. exact go_SymbolTable_Str_eq. Qed.
Theorem C10_source_var_is_model : forall (t : table) (v : N),
  in_u32 v -> len_ok t -> go_SymbolTable_Var t v = Ok (sym_var t v).
Proof. exact go_SymbolTable_Var_eq. Qed.

Example C10_source_boundary_indexes :
  go_SymbolTable_Str [] 28%N = Ok (invalid_symbol 28) /\
  go_SymbolTable_Str [] 1024%N = Ok (invalid_symbol 1024) /\
  go_SymbolTable_Str [] 9223372036854775808%N = Ok (invalid_symbol 9223372036854775808) /\
  go_SymbolTable_Var [] 28%N = Ok (invalid_variable 28) /\
  go_SymbolTable_Var [] 4294967295%N = Ok (invalid_variable 4294967295).
Proof. vm_compute. repeat split. Qed.

Print Assumptions C10_source_str_total.
Print Assumptions C10_source_var_total.
Print Assumptions C10_source_str_is_model.
Print Assumptions C10_source_var_is_model.
