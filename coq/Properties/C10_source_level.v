(* C10 at SOURCE level: SymbolTable.Str and SymbolTable.Var, as regenerated on every run from the text of
   datalog/symbol.go (coq/GeneratedFn.v), return normally for EVERY 64-bit (32-bit) index and every table —
   the out-of-range symbol indexes an attacker can put in a token.  [Panic] is an outcome of the generated
   definitions (an index expression out of range produces it), so "= Ok _" is the absence of a panic; an
   off-by-one in a bound of the source makes these proofs fail.  The arithmetic operators are covered in
   C06_source_level.v.  Statements only; proofs in Proofs/GenFnProofs.v and Proofs/SourceLevelProofs.v. *)
From BV Require Import Base Term Expr DTerm Symbols DEval GoSem GeneratedFn.
From BV Require Import ExprProofs SymbolsProofs DEvalProofs GenFnProofs SourceLevelProofs.
From BV Require Import GenFnEvalProofs SourceLevelEvalProofs GenFnEvalStaticProofs SourceLevelEvalStaticProofs
  SourceLevelEvalClosedProofs SourceLevelEvalStaticClosedProofs.

Theorem C10_source_str_total : forall (t : table) (i : N),
  in_u64 i -> len_ok t -> exists s, go_SymbolTable_Str t i = Ok s.
Proof. exact src_str_total. Qed.
Theorem C10_source_var_total : forall (t : table) (v : N),
  in_u32 v -> len_ok t -> exists s, go_SymbolTable_Var t v = Ok s.
Proof. exact src_var_total. Qed.
Theorem C10_source_str_is_model : forall (t : table) (i : N),
  in_u64 i -> len_ok t -> go_SymbolTable_Str t i = Ok (sym_str t i).
Proof. exact go_SymbolTable_Str_eq. Qed.
Theorem C10_source_var_is_model : forall (t : table) (v : N),
  in_u32 v -> len_ok t -> go_SymbolTable_Var t v = Ok (sym_var t v).
Proof. exact go_SymbolTable_Var_eq. Qed.

Example C10_source_boundary_indexes :
  go_SymbolTable_Str [] 28%N = Ok (invalid_symbol 28) /\
  go_SymbolTable_Str [] 1024%N = Ok (invalid_symbol 1024) /\
  go_SymbolTable_Str [] 9223372036854775808%N = Ok (invalid_symbol 9223372036854775808) /\
  go_SymbolTable_Var [] 28%N = Ok (invalid_variable 28) /\
  go_SymbolTable_Var [] 4294967295%N = Ok (invalid_variable 4294967295).
Proof. vm_compute. repeat split. Qed.

(* The expression stack machine, as regenerated from the text of Expression.Evaluate with stack.Push/Pop and the
   dispatch over all operators: no op sequence an attacker can put in a block — ill-typed, malformed, too deep,
   referring to unknown variables or to symbols outside the table — makes it panic.  [static_pre] only says that
   the decoded constants are inside the ranges of the Go types (which the decoder guarantees: int64, uint64,
   uint32 fields) and bounds the sizes (B * 2^(#Add + #Union) < 2^63: the memory a run could need). *)
Theorem C10_source_evaluate_total : forall rx (b : dbindings) (t : table) (e : dexpr) (n : N),
  rx_uniform rx -> static_pre t e b ->
  snd (go_Expression_Evaluate rx e b t) <> Panic n.
Proof. exact src_evaluate_total_static_closed. Qed.
Theorem C10_source_evaluate_is_model : forall rx (b : dbindings) (t : table) (e : dexpr),
  rx_uniform rx -> static_pre t e b ->
  go_Expression_Evaluate rx e b t = eval_D rx t e b.
Proof. exact src_evaluate_is_model_static_closed. Qed.

Print Assumptions C10_source_evaluate_total.
Print Assumptions C10_source_evaluate_is_model.
Print Assumptions C10_source_str_total.
Print Assumptions C10_source_var_total.
Print Assumptions C10_source_str_is_model.
Print Assumptions C10_source_var_is_model.
