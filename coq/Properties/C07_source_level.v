(* C07 at SOURCE level: the symbol rules of the wire format are what datalog/symbol.go says today.  The
   default table, the offset and the functions Insert, Sym, Extend, SplitOff, Clone, Len regenerated from
   the source text (coq/GeneratedFn.v) are equal to the model's (Model/Symbols.v), over which the C07
   theorems (resolve_intern, content_build, no_capture, ...) are proved.  Statements only; proofs in
   Proofs/GenFnProofs.v and Proofs/SourceLevelProofs.v. *)
From BV Require Import Base Term Expr DTerm Symbols DEval GoSem GeneratedFn.
From BV Require Import GenFnProofs SourceLevelProofs.
Local Open Scope Z_scope.

Theorem C07_source_default_table : go_DEFAULT_SYMBOLS = defaults.
Proof. exact go_DEFAULT_SYMBOLS_eq. Qed.
Theorem C07_source_offset : go_OFFSET = Z.of_N offset.
Proof. exact go_OFFSET_eq. Qed.
Theorem C07_source_insert : forall (t : table) (s : bytes),
  table_fits t -> go_SymbolTable_Insert t s = (fst (sym_insert t s), Ok (snd (sym_insert t s))).
Proof. exact go_SymbolTable_Insert_eq. Qed.
Theorem C07_source_sym : forall (t : table) (s : bytes),
  table_fits t -> go_SymbolTable_Sym t s = Ok (option_map (fun i => DA (DStr i)) (sym_find t s)).
Proof. exact go_SymbolTable_Sym_eq. Qed.
Theorem C07_source_extend : forall (t other : table),
  len_int t + len_int other + 1025 < two63 -> go_SymbolTable_Extend t other = (sym_extend t other, Ok tt).
Proof. exact go_SymbolTable_Extend_eq. Qed.
Theorem C07_source_split_off : forall (t : table) (n : nat),
  len_ok t ->
  go_SymbolTable_SplitOff t (Z.of_nat n) =
  match sym_split_off t n with
  | Ok (kept, new) => (kept, Ok new)
  | Err e => (t, Err e)
  | Panic _ => (t, Panic site_panic)
  end.
Proof. exact go_SymbolTable_SplitOff_eq. Qed.
Theorem C07_source_clone : forall (t : table), go_SymbolTable_Clone t = Ok t.
Proof. exact go_SymbolTable_Clone_eq. Qed.
Theorem C07_source_len : forall (t : table), go_SymbolTable_Len t = Ok (Z.of_nat (length t)).
Proof. exact go_SymbolTable_Len_eq. Qed.
(* Insert, stated without the model: the table is unchanged or grows by exactly that string, and the
   index returned is where the string is found afterwards *)
Theorem C07_source_insert_spec : forall (t : table) (s : bytes),
  table_fits t ->
  exists t' i, go_SymbolTable_Insert t s = (t', Ok i) /\ (t' = t \/ t' = t ++ [s]) /\ sym_find t' s = Some i.
Proof. exact src_insert_spec. Qed.

Print Assumptions C07_source_default_table.
Print Assumptions C07_source_offset.
Print Assumptions C07_source_insert.
Print Assumptions C07_source_sym.
Print Assumptions C07_source_extend.
Print Assumptions C07_source_split_off.
Print Assumptions C07_source_clone.
Print Assumptions C07_source_len.
Print Assumptions C07_source_insert_spec.
