(* C02 — Attenuation can only restrict: appending a block never widens authorization.
   Statements only; proofs in Proofs/AuthzProofs.v.  [rx] stands for Go's regexp.
   A token is the list of its blocks' content, authority first (S level: string
   terms carry their contents, i.e. every block is resolved at its own position;
   the D-level capture of a dangling symbol index is the recorded finding F9). *)
From BV Require Import Base Term Expr Datalog Authz AuthzProofs.

Theorem C02_monotone : forall rx (T : list block) (B : block) (a : astate),
  T <> [] -> snd (authorize rx (T ++ [B]) a) = VSuccess -> snd (authorize rx T a) = VSuccess.
Proof. exact AuthzProofs.C02_monotone. Qed.

Theorem C02_no_content_helps : forall rx (T : list block) (B : block) (a : astate),
  T <> [] -> snd (authorize rx T a) <> VSuccess -> snd (authorize rx (T ++ [B]) a) <> VSuccess.
Proof. exact AuthzProofs.C02_no_content_helps. Qed.

(* the exact effect of one appended block on the verdict: it can only add its
   own failed checks or a run error *)
Theorem C02_exact_effect : forall rx (auth : block) (bs : list block) (B : block) (a : astate),
  snd (authorize rx ((auth :: bs) ++ [B]) a) =
  extend_verdict (snd (authorize rx (auth :: bs) a))
    (block_outcome rx (a_limits a) (fst (auth_world rx auth a)) B (1 + lenN bs)).
Proof. exact authorize_extend. Qed.

Theorem C02_prefix_cases : forall rx (T : list block) (B : block) (a : astate),
  T <> [] ->
  match snd (authorize rx T a) with
  | VSuccess =>
      snd (authorize rx (T ++ [B]) a) = VSuccess \/
      (exists l', l' <> [] /\ snd (authorize rx (T ++ [B]) a) = VChecksFailed l') \/
      (exists e, snd (authorize rx (T ++ [B]) a) = VRunError e)
  | VPolicyDenied =>
      snd (authorize rx (T ++ [B]) a) = VPolicyDenied \/
      (exists l', l' <> [] /\ snd (authorize rx (T ++ [B]) a) = VChecksFailed l') \/
      (exists e, snd (authorize rx (T ++ [B]) a) = VRunError e)
  | VNoMatchingPolicy =>
      snd (authorize rx (T ++ [B]) a) = VNoMatchingPolicy \/
      (exists l', l' <> [] /\ snd (authorize rx (T ++ [B]) a) = VChecksFailed l') \/
      (exists e, snd (authorize rx (T ++ [B]) a) = VRunError e)
  | VChecksFailed l =>
      (exists l', snd (authorize rx (T ++ [B]) a) = VChecksFailed (l ++ l')) \/
      (exists e, snd (authorize rx (T ++ [B]) a) = VRunError e)
  | VRunError e => snd (authorize rx (T ++ [B]) a) = VRunError e
  end.
Proof. exact authorize_prefix. Qed.

(* the hypothesis T <> [] is needed: with no authority block the appended block
   would become the authority *)
Example C02_needs_authority_block := C02_monotone_empty_token_refuted.

(* non-vacuity: a refused token and an appended block carrying the wanted fact *)
Example C02_hypotheses_satisfiable := ex_C02_no_content_helps.

Print Assumptions C02_monotone.
Print Assumptions C02_no_content_helps.
Print Assumptions C02_exact_effect.
Print Assumptions C02_prefix_cases.
