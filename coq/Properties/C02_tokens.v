(* C02 at the level of library tokens (symbol tables included): whatever a holder
   puts into a block created from a token with CreateBlock, built and appended,
   the resolved content of the new token is the parent's content followed by the
   supplied block (C07_content_append: the parent's symbols are not re-bound),
   so the S-level monotonicity theorem applies to what the authorizer evaluates.
   Statements only; proofs compose Proofs/TokenProofs.v with Proofs/AuthzProofs.v. *)
From BV Require Import Base Term Expr Datalog Authz DTerm Symbols Chain Wire Token History.
From BV Require Import WireProofs SymbolsProofs TokenProofs AuthzProofs.

Lemma resolve_token_nonempty tok : resolve_token tok <> [].
Proof. unfold resolve_token, all_blocks. cbn [map]. discriminate. Qed.

Theorem C02_token_attenuation : forall pub sign base tok ops blk bb' src tok' src' rx a,
  token_inv base tok -> small_table (bb_syms (bb_exec (create_block tok) ops)) ->
  bb_build (bb_exec (create_block tok) ops) = Ok (blk, bb') ->
  tk_append pub sign tok blk src = Ok (tok', src') ->
  snd (authorize rx (resolve_token tok') a) = VSuccess ->
  snd (authorize rx (resolve_token tok) a) = VSuccess.
Proof.
  intros pub sign base tok ops blk bb' src tok' src' rx a I Hs Hb Ha Hv.
  destruct (TokenProofs.C07_content_append pub sign base tok ops blk bb' src tok' src' I Hs Hb Ha)
    as (_ & _ & _ & R & _).
  rewrite R in Hv.
  exact (AuthzProofs.C02_monotone rx (resolve_token tok) _ a (resolve_token_nonempty tok) Hv).
Qed.

(* and the parent's own blocks mean the same in the new token *)
Theorem C02_parent_content_unchanged : forall pub sign base tok ops blk bb' src tok' src',
  token_inv base tok -> small_table (bb_syms (bb_exec (create_block tok) ops)) ->
  bb_build (bb_exec (create_block tok) ops) = Ok (blk, bb') ->
  tk_append pub sign tok blk src = Ok (tok', src') ->
  firstn (length (resolve_token tok)) (resolve_token tok') = resolve_token tok.
Proof.
  intros pub sign base tok ops blk bb' src tok' src' I Hs Hb Ha.
  destruct (TokenProofs.C07_content_append pub sign base tok ops blk bb' src tok' src' I Hs Hb Ha)
    as (_ & _ & _ & R & _).
  rewrite R. rewrite firstn_app, Nat.sub_diag, firstn_all. cbn [firstn]. apply app_nil_r.
Qed.

Print Assumptions C02_token_attenuation.
Print Assumptions C02_parent_content_unchanged.
