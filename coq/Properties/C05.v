(* C05 — Datalog evaluation computes exactly the least fixpoint.
   Statements only; proofs in Proofs/DatalogProofs.v.

   [Derivable rx rules facts f]: f is a base fact, or the head instance of a rule
   under a substitution that sends every body predicate to a derivable fact
   (consistently for repeated variables), makes every expression true, and binds
   every head variable.  Facts and rule heads are required set-free for the
   completeness direction: Go's Set.Equal (used to de-duplicate facts) is not an
   equivalence on lists with repeated elements — [C05_setfree_needed] exhibits
   the counter-example; sets remain unrestricted in bodies and expressions. *)
From BV Require Import Base Term Expr Datalog DatalogProofs Odometer OdometerProofs.
From Coq Require Import Permutation.

Theorem C05_run_sound : forall rx lim rules facts fs e,
  run rx lim rules facts = (fs, e) -> forall f, In f fs -> Derivable rx rules facts f.
Proof. exact run_sound. Qed.

Theorem C05_run_complete : forall rx lim rules facts fs,
  setfree_facts facts -> setfree_rules rules ->
  run rx lim rules facts = (fs, None) -> forall f, Derivable rx rules facts f -> In f fs.
Proof. exact run_complete. Qed.

Theorem C05_least_model : forall rx lim rules facts fs,
  NoDup facts -> setfree_facts facts -> setfree_rules rules ->
  run rx lim rules facts = (fs, None) ->
  (forall f, In f fs <-> Derivable rx rules facts f) /\ NoDup fs.
Proof. exact DatalogProofs.C05_least_model. Qed.

(* Derivable really is the least model: contained in every model closed under the rules *)
Theorem C05_derivable_is_least : forall rx rules facts (M : pred -> Prop),
  (forall f, In f facts -> M f) ->
  (forall r c b f, In r rules -> Forall M c ->
     Forall2 (fun g p => pred_match g p = true) c (r_body r) ->
     bind_all (r_body r) c [] = Some b -> eval_exprs rx (r_exprs r) b = Ok true ->
     inst_head (r_head r) b = Some f -> M f) ->
  forall f, Derivable rx rules facts f -> M f.
Proof. exact Derivable_least. Qed.

(* querying a rule returns exactly the head instances of the satisfying substitutions *)
Theorem C05_query_exact : forall rx r fs,
  setfree_facts fs -> setfree_pred (r_head r) = true -> snd (apply_rule rx r fs []) = None ->
  forall h, In h (query_rule rx r fs) <->
    exists c b, Forall (fun g => In g fs) c /\
      Forall2 (fun g p => pred_match g p = true) c (r_body r) /\
      bind_all (r_body r) c [] = Some b /\ eval_exprs rx (r_exprs r) b = Ok true /\
      inst_head (r_head r) b = Some h.
Proof. exact query_exact. Qed.

Theorem C05_query_sound : forall rx r fs h,
  In h (query_rule rx r fs) ->
  exists c b, Forall (fun g => In g fs) c /\
    Forall2 (fun g p => pred_match g p = true) c (r_body r) /\
    bind_all (r_body r) c [] = Some b /\ eval_exprs rx (r_exprs r) b = Ok true /\
    inst_head (r_head r) b = Some h.
Proof. exact query_sound. Qed.

(* all fact orders and rule orders give the same model *)
Theorem C05_order_free : forall rx lim lim' rules rules' facts facts' a b,
  setfree_facts facts -> setfree_rules rules -> NoDup facts ->
  Permutation facts facts' -> Permutation rules rules' ->
  run rx lim rules facts = (a, None) -> run rx lim' rules' facts' = (b, None) -> Permutation a b.
Proof. exact run_perm. Qed.

Theorem C05_world_only_grows : forall rx lim rules facts fs e,
  run rx lim rules facts = (fs, e) -> forall f, In f facts -> In f fs.
Proof. exact run_extends. Qed.

(* the literal index machine of combine / advanceIndexes (current, indexes, carry
   loop) visits exactly the tuples of the declarative enumeration, in the same order *)
Theorem C05_odometer_refines : forall fuel ps facts,
  (enough_fuel ps facts <= fuel)%nat -> odo_tuples fuel ps facts = Some (combos ps facts).
Proof. exact odometer_refines_all. Qed.

Example C05_setfree_needed := run_complete_needs_setfree.
Example C05_hypotheses_satisfiable := anc_least_model.

Print Assumptions C05_run_sound.
Print Assumptions C05_run_complete.
Print Assumptions C05_least_model.
Print Assumptions C05_derivable_is_least.
Print Assumptions C05_query_exact.
Print Assumptions C05_query_sound.
Print Assumptions C05_order_free.
Print Assumptions C05_world_only_grows.
Print Assumptions C05_odometer_refines.
