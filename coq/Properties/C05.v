(* C05 — Datalog evaluation computes exactly the least fixpoint.
   Statements only; proofs in Proofs/DatalogProofs.v.

   [Derivable rx rules facts f]: f is a base fact, or the head instance of a rule
   under a substitution that sends every body predicate to a derivable fact
   (consistently for repeated variables), makes every expression true, and binds
   every head variable.

   Facts are compared by Predicate.Equal, which on set constants is Set.Equal:
   same length and the same elements.  Since its repair it is an equivalence
   relation ([C05_equal_is_equivalence]); the world keeps the first
   representative of each class of Equal facts (p([1,2]) and p([2,1]) are one
   fact).  [fact_eqv f g] is [pred_eqb f g = true]; "present", "no duplicates",
   "same facts" are therefore [InA fact_eqv], [NoDupA fact_eqv], [equivlistA /
   PermutationA fact_eqv] of the standard library.

   Every step of the evaluation respects Equal — matching, binding, head
   instantiation and every operator, intersection and union included since
   they return each element once ([C05_operators_respect_equal]).  Hence
   completeness, exactness and order-independence hold, up to Equal, for EVERY
   program: set constants with repeated elements and set operators together.
   For set-free programs Equal is equality and the syntactic statements are
   kept ([C05_least_model_setfree]). *)
From BV Require Import Base Term Expr Datalog DatalogProofs Odometer OdometerProofs.
From Coq Require Import Permutation SetoidList SetoidPermutation.

(* Term.Equal / Predicate.Equal are equivalence relations *)
Theorem C05_equal_is_equivalence :
  (forall t, term_eqb t t = true) /\
  (forall a b, term_eqb a b = term_eqb b a) /\
  (forall a b c, term_eqb a b = true -> term_eqb b c = true -> term_eqb a c = true) /\
  (forall p, pred_eqb p p = true) /\
  (forall p q, pred_eqb p q = pred_eqb q p) /\
  (forall p q r, pred_eqb p q = true -> pred_eqb q r = true -> pred_eqb p r = true).
Proof. exact Equal_is_equivalence. Qed.

Theorem C05_run_sound : forall rx lim rules facts fs e,
  run rx lim rules facts = (fs, e) -> forall f, In f fs -> Derivable rx rules facts f.
Proof. exact run_sound. Qed.

(* every derivable fact has an Equal fact in the world *)
Theorem C05_run_complete : forall rx lim rules facts fs,
  run rx lim rules facts = (fs, None) -> forall f, Derivable rx rules facts f -> InA fact_eqv f fs.
Proof. exact run_complete. Qed.

Theorem C05_least_model : forall rx lim rules facts fs,
  NoDupA fact_eqv facts ->
  run rx lim rules facts = (fs, None) ->
  (forall f, In f fs -> Derivable rx rules facts f) /\
  (forall f, Derivable rx rules facts f -> InA fact_eqv f fs) /\
  NoDupA fact_eqv fs.
Proof. exact DatalogProofs.C05_least_model. Qed.

(* the set-free case, with syntactic membership *)
Theorem C05_least_model_setfree : forall rx lim rules facts fs,
  NoDup facts -> setfree_facts facts -> setfree_rules rules ->
  run rx lim rules facts = (fs, None) ->
  (forall f, In f fs <-> Derivable rx rules facts f) /\ NoDup fs.
Proof. exact DatalogProofs.C05_least_model_setfree. Qed.

(* Derivable really is the least model: contained in every model closed under the rules *)
Theorem C05_derivable_is_least : forall rx rules facts (M : pred -> Prop),
  (forall f, In f facts -> M f) ->
  (forall r c b f, In r rules -> Forall M c ->
     Forall2 (fun g p => pred_match g p = true) c (r_body r) ->
     bind_all (r_body r) c [] = Some b -> eval_exprs rx (r_exprs r) b = Ok true ->
     inst_head (r_head r) b = Some f -> M f) ->
  forall f, Derivable rx rules facts f -> M f.
Proof. exact Derivable_least. Qed.

(* querying a rule returns exactly the head instances of the satisfying
   substitutions, one per class of Equal facts (no hypothesis on sets) *)
Theorem C05_query_exact : forall rx r fs,
  snd (apply_rule rx r fs []) = None ->
  forall h, InA fact_eqv h (query_rule rx r fs) <->
    exists c b h', Forall (fun g => In g fs) c /\
      Forall2 (fun g p => pred_match g p = true) c (r_body r) /\
      bind_all (r_body r) c [] = Some b /\ eval_exprs rx (r_exprs r) b = Ok true /\
      inst_head (r_head r) b = Some h' /\ fact_eqv h h'.
Proof. exact query_exact. Qed.

Theorem C05_query_sound : forall rx r fs h,
  In h (query_rule rx r fs) ->
  exists c b, Forall (fun g => In g fs) c /\
    Forall2 (fun g p => pred_match g p = true) c (r_body r) /\
    bind_all (r_body r) c [] = Some b /\ eval_exprs rx (r_exprs r) b = Ok true /\
    inst_head (r_head r) b = Some h.
Proof. exact query_sound. Qed.

(* all fact orders and rule orders give the same model, up to Equal *)
Theorem C05_order_free : forall rx lim lim' rules rules' facts facts' a b,
  NoDupA fact_eqv facts ->
  Permutation facts facts' -> Permutation rules rules' ->
  run rx lim rules facts = (a, None) -> run rx lim' rules' facts' = (b, None) ->
  PermutationA fact_eqv a b.
Proof. exact run_perm. Qed.

(* more generally: base facts that are the same up to Equal (any order, any
   multiplicity, different representatives — as two insertion orders produce) *)
Theorem C05_order_free_equal : forall rx lim lim' rules rules' facts facts' a b,
  equivlistA fact_eqv facts facts' -> (forall r, In r rules <-> In r rules') ->
  run rx lim rules facts = (a, None) -> run rx lim' rules' facts' = (b, None) ->
  equivlistA fact_eqv a b.
Proof. exact run_equivlist. Qed.

(* every binary operator gives Equal results (or the same error) on Equal
   operands; in particular intersection and union of Equal sets are Equal *)
Theorem C05_operators_respect_equal : forall rx o l l' r r',
  trel l l' -> trel r r' -> resrel trel (eval_binary rx o l r) (eval_binary rx o l' r').
Proof. exact eval_binary_rel. Qed.

Theorem C05_trel_is_equal : forall a b, trel a b <-> term_eqb a b = true.
Proof. exact trel_iff. Qed.

Theorem C05_set_operators_respect_equal : forall a a' b b',
  set_equal a a' = true -> set_equal b b' = true ->
  set_equal (set_intersect a b) (set_intersect a' b') = true /\
  set_equal (set_union a b) (set_union a' b') = true.
Proof. intros a a' b b' Ha Hb. exact (conj (set_intersect_equal a a' b b' Ha Hb) (set_union_equal a a' b b' Ha Hb)). Qed.

Theorem C05_world_only_grows : forall rx lim rules facts fs e,
  run rx lim rules facts = (fs, e) -> forall f, In f facts -> In f fs.
Proof. exact run_extends. Qed.

(* the literal index machine of combine / advanceIndexes (current, indexes, carry
   loop) visits exactly the tuples of the declarative enumeration, in the same order *)
Theorem C05_odometer_refines : forall fuel ps facts,
  (enough_fuel ps facts <= fuel)%nat -> odo_tuples fuel ps facts = Some (combos ps facts).
Proof. exact odometer_refines_all. Qed.

(* the old witness [1,1] / [1,2], repaired: both p's and both q's, in both fact orders *)
Example C05_sets_repaired := run_sets_repaired.
(* membership is up to Equal: p([2,1]) is derivable, the world holds p([1,2]) *)
Example C05_modulo_equal := run_complete_modulo_equal.
(* the former counter-examples (a repeated element AND an intersection), repaired:
   the operators give Equal results on Equal sets, both fact orders give Equal worlds *)
Example C05_setops_repaired := run_sets_setops_repaired.
Example C05_setops_respect_equal_sets := setops_respect_equal_sets.
(* non-vacuity: a set-free program; a program with repeated elements, intersection
   and union together, in two presentations *)
Example C05_hypotheses_satisfiable := anc_least_model.
Example C05_hypotheses_satisfiable_sets := rep_least_model.
Example C05_order_free_sets := rep_order_free.
Example C05_order_free_sets_perm := rep_perm.

Print Assumptions C05_equal_is_equivalence.
Print Assumptions C05_run_sound.
Print Assumptions C05_run_complete.
Print Assumptions C05_least_model.
Print Assumptions C05_least_model_setfree.
Print Assumptions C05_derivable_is_least.
Print Assumptions C05_query_exact.
Print Assumptions C05_query_sound.
Print Assumptions C05_order_free.
Print Assumptions C05_order_free_equal.
Print Assumptions C05_operators_respect_equal.
Print Assumptions C05_trel_is_equal.
Print Assumptions C05_set_operators_respect_equal.
Print Assumptions C05_world_only_grows.
Print Assumptions C05_odometer_refines.
