(* C07 — Wire fidelity: bytes carry exactly the caller's Datalog and round-trip intact.
   Statements only; proofs in Proofs/WireProofs.v, SymbolsProofs.v, TokenProofs.v,
   TableProofs.v.  [bu_exec (new_builder base rid) ops] is a builder after the
   caller's add operations [ops]; [supplied base ops] is the S-level content the
   caller supplied (duplicate facts rejected by the builder are not part of it);
   [independent_decode] is the reader of the property's first sentence: it uses
   only the schema (Model/Wire.v, field numbers regenerated from biscuit.proto)
   and the published symbol rules (default table below 1024, each block resolved
   from its own and earlier blocks' symbol lists) — not the library's Unmarshal. *)
From BV Require Import Base Term DTerm Symbols Chain Wire Token History.
From BV Require Import WireProofs SymbolsProofs TokenProofs TableProofs.

(* codec round trips (all sizes, all nestings) *)
Theorem C07_varint_roundtrip : forall n r, n < two64 -> decode_varint (encode_varint n ++ r) = Some (n, r).
Proof. exact varint_roundtrip. Qed.
Theorem C07_fields_roundtrip : forall fs, Forall wf_field fs -> decode_fields (encode_fields fs) = Some fs.
Proof. exact fields_roundtrip. Qed.
Theorem C07_block_roundtrip : forall b bs, wf_dblock b -> enc_block b = Ok bs -> dec_block bs = Ok b.
Proof. exact block_roundtrip. Qed.
Theorem C07_container_roundtrip : forall c, wf_container c -> dec_container (enc_container c) = Ok c.
Proof. exact container_roundtrip. Qed.

(* interning then resolving (through any extension of the table) is the identity *)
Theorem C07_resolve_intern : forall t p t' d,
  intern_pred t p = (t', d) -> small_table t' -> forall ext, resolve_pred (t' ++ ext) d = p.
Proof. exact resolve_intern_pred. Qed.

(* Build: the token carries exactly the supplied content ... *)
Theorem C07_content_build : forall pub sign root_seed base rid ops src tok src',
  let b := bu_exec (new_builder base rid) ops in
  table_wf base -> small_table (bu_syms b) ->
  bu_build pub sign root_seed b src = Ok (tok, src') ->
  tk_symbols tok = bu_syms b /\ tk_blocks tok = [] /\
  tk_symbols tok = base ++ db_symbols (tk_authority tok) /\
  table_wf (tk_symbols tok) /\ closed_block (tk_symbols tok) (tk_authority tok) /\
  resolve_token tok = [supplied base ops] /\
  db_context (tk_authority tok) = final_context ops /\ db_version (tk_authority tok) = 3 /\
  c_rootid (tk_container tok) = rid /\ c_blocks (tk_container tok) = [] /\
  sb_alg (c_auth (tk_container tok)) = 0 /\
  enc_block (tk_authority tok) = Ok (sb_block (c_auth (tk_container tok))) /\
  (exists seed, sb_key (c_auth (tk_container tok)) = pub seed) /\
  (exists m, sb_sig (c_auth (tk_container tok)) = sign root_seed m).
Proof. exact TokenProofs.C07_content_build. Qed.

(* ... and an independent decoder of the serialized bytes finds it, with version 3 *)
Theorem C07_build_decode : forall pub sign root_seed base rid ops src tok src',
  let b := bu_exec (new_builder base rid) ops in
  table_wf base -> small_table (bu_syms b) ->
  bu_build pub sign root_seed b src = Ok (tok, src') ->
  wf_block_c (supplied base ops) -> rid_ok rid ->
  small (sb_block (c_auth (tk_container tok))) -> small (tk_serialize tok) ->
  independent_decode base (tk_serialize tok) = Ok [(supplied base ops, final_context ops, 3)].
Proof. exact TokenProofs.C07_build_decode. Qed.

(* Append of a block built (once) from CreateBlock: parent content unchanged, then the supplied content *)
Theorem C07_content_append : forall pub sign base tok ops blk bb' src tok' src',
  let bb := bb_exec (create_block tok) ops in
  token_inv base tok -> small_table (bb_syms bb) -> bb_build bb = Ok (blk, bb') ->
  tk_append pub sign tok blk src = Ok (tok', src') ->
  tk_symbols tok' = tk_symbols tok ++ db_symbols blk /\
  tk_authority tok' = tk_authority tok /\ tk_blocks tok' = tk_blocks tok ++ [blk] /\
  resolve_token tok' = resolve_token tok ++ [supplied (tk_symbols tok) ops] /\
  db_context blk = final_context ops /\ db_version blk = 3 /\
  (wf_block_c (supplied (tk_symbols tok) ops) -> small (sb_block (last_sblock (tk_container tok'))) ->
   token_inv base tok' /\ dec_block (sb_block (last_sblock (tk_container tok'))) = Ok blk).
Proof. exact TokenProofs.C07_content_append. Qed.

Theorem C07_append_decode : forall pub sign base tok ops blk bb' src tok' src',
  let bb := bb_exec (create_block tok) ops in
  token_inv base tok -> small_table (bb_syms bb) -> bb_build bb = Ok (blk, bb') ->
  tk_append pub sign tok blk src = Ok (tok', src') ->
  wf_block_c (supplied (tk_symbols tok) ops) ->
  small (sb_block (last_sblock (tk_container tok'))) -> small (tk_serialize tok') ->
  independent_decode base (tk_serialize tok') =
  Ok (map (dblock_view (tk_symbols tok)) (all_blocks tok) ++ [(supplied (tk_symbols tok) ops, final_context ops, 3)]).
Proof. exact TokenProofs.C07_append_decode. Qed.

(* Unmarshal of the serialized bytes gives back the very same token (content, symbols,
   envelope — hence revocation ids, root key id, authorization behaviour), and
   re-serializing reproduces the bytes *)
Theorem C07_reload : forall base tok tok',
  token_inv base tok -> small (tk_serialize tok) ->
  tk_unmarshal_with base (tk_serialize tok) = Ok tok' -> tok' = tok.
Proof. exact TokenProofs.C07_reload. Qed.
Theorem C07_reload_accepts : forall base tok,
  token_inv base tok -> sized tok -> small (tk_serialize tok) ->
  tk_unmarshal_with base (tk_serialize tok) = Ok tok.
Proof. exact TokenProofs.C07_reload_accepts. Qed.

(* blocks declaring an unsupported schema version are rejected *)
Theorem C07_version_gate : forall bs t,
  tk_unmarshal bs = Ok t -> Forall (fun b => db_version b = 3) (all_blocks t).
Proof. exact TokenProofs.C07_version_gate. Qed.

(* every accepted block only uses declared symbols, so no later block can change its meaning *)
Theorem C07_no_capture : forall base bs t ext,
  tk_unmarshal_with base bs = Ok t ->
  map (resolve_block (tk_symbols t ++ ext)) (all_blocks t) = resolve_token t.
Proof. exact TokenProofs.C07_no_capture. Qed.

(* operator code tables, regenerated from the source on this run: total, name-preserving
   in both directions, mutually inverse, equal to the numbers of the published schema *)
Theorem C07_operator_tables : operator_tables_stmt.
Proof. exact operator_tables_hold. Qed.

Example C07_hypotheses_satisfiable := C07_build_nonvacuous.

Print Assumptions C07_varint_roundtrip.
Print Assumptions C07_fields_roundtrip.
Print Assumptions C07_block_roundtrip.
Print Assumptions C07_container_roundtrip.
Print Assumptions C07_resolve_intern.
Print Assumptions C07_content_build.
Print Assumptions C07_build_decode.
Print Assumptions C07_content_append.
Print Assumptions C07_append_decode.
Print Assumptions C07_reload.
Print Assumptions C07_reload_accepts.
Print Assumptions C07_version_gate.
Print Assumptions C07_no_capture.
Print Assumptions C07_operator_tables.
