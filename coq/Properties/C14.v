(* C14 — The Datalog parser denotes exactly the documented grammar and never panics.
   Statements only (copied verbatim from, and closed by, Proofs/ParserProofs.v).
   Model: Model/Lexer.v (ordered first-match lexer over the rule table regenerated
   from parser.go and pinned), Model/Parser.v (recursive descent following
   participle's semantics over the struct-tag grammar, pinned), conversion to
   builder-level values with parameter substitution and its error cases. *)
From BV Require Import Base Term Lexer Parser Printer ParserProofs.
From BV Require Generated.

(* the ties to the source, regenerated on this run *)
Theorem C14_lexer_rules_pinned : Generated.lexer_rules = lexer_rules_pin.
Proof. exact lexer_pin. Qed.
Theorem C14_grammar_tags_pinned : filter used_tag Generated.grammar_tags = grammar_tags_pin.
Proof. exact grammar_pin. Qed.
(* the parser options the model accounts for: the Int-token mapper (base-10 integers) is the
   modelled one, and DefaultParserOptions holds no option the model does not know *)
Theorem C14_parser_options_pinned :
  Generated.lexer_map = lexer_map_pin /\ Generated.parser_unknown_options = [].
Proof. split; reflexivity. Qed.

Theorem C14_to_ops_postfix : forall t : Expression, to_ops t = postfix_of (bexpr_of t).
Proof. exact (@C14_to_ops_postfix). Qed.

Theorem C14_tokens_parse_unparse_expr : forall e f rest,
  wf_expression e = true -> (need_expression e <= f)%nat -> hdp c1 rest = true ->
  parse_expr f (up_expression e rest) = POk e rest.
Proof. exact (@parse_unparse_expr). Qed.

Theorem C14_tokens_parse_unparse_check : forall c f k,
  fits_check f c -> ck_query k -> parse_check_g f (up_check c k) = POk c k.
Proof. exact (@parse_unparse_check). Qed.

Theorem C14_tokens_parse_unparse_rule : forall r f k,
  fits_rule f r -> ck_body k -> parse_rule_g f (up_rule r k) = POk r k.
Proof. exact (@parse_unparse_rule). Qed.

Theorem C14_tokens_parse_unparse_block : forall b f,
  fits_block f b -> parse_block_g f (up_block b) = POk b [].
Proof. exact (@parse_unparse_block). Qed.

Theorem C14_tokens_parse_unparse_authorizer : forall a f,
  fits_authorizer f a -> parse_authorizer_g f (up_authorizer a) = POk a [].
Proof. exact (@parse_unparse_authorizer). Qed.

Theorem C14_lex_render : forall l, lexable l = true -> lex (flat l) = Ok (List.map fst l).
Proof. exact (@lex_render). Qed.

Theorem C14_parse_unparse_fact : forall p l ps,
  wf_pred p = true -> List.map fst l = up_pred p [] -> lexable l = true ->
  parse_fact (flat l) ps =
    (do q <- pred_to_biscuit ps p; if existsb is_var (p_terms q) then Err EParse else Ok q).
Proof. exact (@C14_parse_unparse_fact). Qed.

Theorem C14_parse_unparse_rule : forall r l ps,
  wfb_rule r = true -> List.map fst l = up_rule r [] -> lexable l = true ->
  parse_rule (flat l) ps = rule_to_biscuit ps r.
Proof. exact (@C14_parse_unparse_rule). Qed.

Theorem C14_parse_unparse_check : forall c l ps,
  wfb_check c = true -> List.map fst l = up_check c [] -> lexable l = true ->
  parse_check (flat l) ps = check_to_biscuit ps c.
Proof. exact (@C14_parse_unparse_check). Qed.

Theorem C14_parse_unparse_policy : forall p l ps,
  wfb_policy p = true -> List.map fst l = up_policy p [] -> lexable l = true ->
  parse_policy (flat l) ps = policy_to_biscuit ps p.
Proof. exact (@C14_parse_unparse_policy). Qed.

Theorem C14_parse_unparse_block : forall b l ps,
  wfb_block b = true -> List.map fst l = up_block b -> lexable l = true ->
  parse_block (flat l) ps = block_to_biscuit ps b.
Proof. exact (@C14_parse_unparse_block). Qed.

Theorem C14_parse_unparse_authorizer : forall a l ps,
  wfb_authorizer a = true -> List.map fst l = up_authorizer a -> lexable l = true ->
  parse_authorizer (flat l) ps = authorizer_to_biscuit ps a.
Proof. exact (@C14_parse_unparse_authorizer). Qed.

(* ---- arbitrary layout ----
   [render_any pre l] is the text with the layout bytes [pre] in front and, after each token
   [t] of [l], the layout bytes paired with it: ANY byte string over space, tab, \n, \r
   ([is_layout]), i.e. any sequence of the elided Whitespace / EOL tokens, also before the
   first and after the last token.  [lexable_any] is [lexable] without the restriction of
   the gaps to {nothing, " ", "\n"}: per token, [tok_ok t nx] with [nx] the byte that follows
   the token in the text.  A non-empty gap discharges that condition for every token that is
   acceptable at the end of the text, except that the gap after a Comment token must start
   with \n (C14_token_before_layout); an empty gap requires that the next token does not
   glue ("<" "-", "/" "/", digits, word bytes ...).
   Comments: the grammar has them only as the leading "@Comment*" of Rule, Block and
   Authorizer, where [up_rule], [up_block], [up_authorizer] put the Comment tokens; a comment
   in any other gap makes the library's parser (and the model) fail — see
   C14_comments_only_leading — so no theorem allows one there. *)
Theorem C14_render_any_def : forall pre l, render_any pre l = pre ++ flat l.
Proof. reflexivity. Qed.

Theorem C14_lex_render_any_layout : forall pre l,
  forallb is_layout pre = true -> lexable_any l = true ->
  lex (render_any pre l) = Ok (List.map fst l).
Proof. exact (@lex_render_any). Qed.

(* the same with the text given as a list of tokens and single layout bytes in any order *)
Theorem C14_lex_items_any_layout : forall l, lexable_i_any l = true -> lex (flat_i l) = Ok (toks_i l).
Proof. exact (@lex_items_any). Qed.

(* the layouts of C14_lex_render (and of C15_layout_lexes) are special cases *)
Theorem C14_lexable_is_lexable_any : forall l, lexable l = true -> lexable_any l = true.
Proof. exact (@lexable_any_of). Qed.
Theorem C14_lexable_i_is_lexable_i_any : forall l, lexable_i l = true -> lexable_i_any l = true.
Proof. exact (@lexable_i_any_of). Qed.

Theorem C14_token_before_layout : forall t c,
  is_layout c = true -> tok_ok t None = true -> (tk t = KComment -> c = 10) -> tok_ok t (Some c) = true.
Proof. exact (@tok_ok_before_layout). Qed.

Theorem C14_parse_unparse_fact_any_layout : forall p pre l ps,
  wf_pred p = true -> List.map fst l = up_pred p [] ->
  forallb is_layout pre = true -> lexable_any l = true ->
  parse_fact (render_any pre l) ps =
    (do q <- pred_to_biscuit ps p; if existsb is_var (p_terms q) then Err EParse else Ok q).
Proof. exact (@C14_parse_unparse_fact_any_layout). Qed.

Theorem C14_parse_unparse_rule_any_layout : forall r pre l ps,
  wfb_rule r = true -> List.map fst l = up_rule r [] ->
  forallb is_layout pre = true -> lexable_any l = true ->
  parse_rule (render_any pre l) ps = rule_to_biscuit ps r.
Proof. exact (@C14_parse_unparse_rule_any_layout). Qed.

Theorem C14_parse_unparse_check_any_layout : forall c pre l ps,
  wfb_check c = true -> List.map fst l = up_check c [] ->
  forallb is_layout pre = true -> lexable_any l = true ->
  parse_check (render_any pre l) ps = check_to_biscuit ps c.
Proof. exact (@C14_parse_unparse_check_any_layout). Qed.

Theorem C14_parse_unparse_policy_any_layout : forall p pre l ps,
  wfb_policy p = true -> List.map fst l = up_policy p [] ->
  forallb is_layout pre = true -> lexable_any l = true ->
  parse_policy (render_any pre l) ps = policy_to_biscuit ps p.
Proof. exact (@C14_parse_unparse_policy_any_layout). Qed.

Theorem C14_parse_unparse_block_any_layout : forall b pre l ps,
  wfb_block b = true -> List.map fst l = up_block b ->
  forallb is_layout pre = true -> lexable_any l = true ->
  parse_block (render_any pre l) ps = block_to_biscuit ps b.
Proof. exact (@C14_parse_unparse_block_any_layout). Qed.

Theorem C14_parse_unparse_authorizer_any_layout : forall a pre l ps,
  wfb_authorizer a = true -> List.map fst l = up_authorizer a ->
  forallb is_layout pre = true -> lexable_any l = true ->
  parse_authorizer (render_any pre l) ps = authorizer_to_biscuit ps a.
Proof. exact (@C14_parse_unparse_authorizer_any_layout). Qed.

(* non-vacuity: a check and a block with tabs, \r\n, runs of blanks, leading and trailing
   newlines; where comments are accepted and where they are not; the "<" "-" adjacency *)
Example C14_any_layout_check_nonvacuous := ParserProofs.C14_any_layout_check_nonvacuous.
Example C14_any_layout_block_nonvacuous := ParserProofs.C14_any_layout_block_nonvacuous.
Example C14_comments_only_leading := ParserProofs.C14_comments_only_leading.
Example C14_lt_minus_adjacency_any_layout := ParserProofs.lt_minus_adjacency_any_layout.

Theorem C14_comparison_consumes_one : forall f ts l o s1 c r rest,
  parse_expr3 f ts = POk l (o :: s1) -> cmp_of_text (tx o) = Some c ->
  parse_expr3 f s1 = POk r rest ->
  parse_expr2 (S f) ts = POk (MkExpr2 l (O3Some c r)) rest.
Proof. exact (@C14_comparison_consumes_one). Qed.

Theorem C14_rejects_chained_comparison_run : forall ts c o2 s2,
  parse_check_g (fuel_for (t_check_if :: ts)) (t_check_if :: ts) = POk c (o2 :: s2) ->
  run parse_check_g (t_check_if :: ts) = Err EParse.
Proof. exact (@C14_rejects_chained_comparison_run). Qed.

Theorem C14_rejects_double_negation : forall f r, not_ok (parse_expression f (t_bang :: t_bang :: r)).
Proof. exact (@C14_rejects_double_negation). Qed.

Theorem C14_variable_in_set : forall ps x xs v,
  gin (GVar v) (GCons x xs) -> is_err (term_to_biscuit ps (GSet x xs)).
Proof. exact (@C14_variable_in_set). Qed.

Theorem C14_variable_param_in_set : forall ps x xs n v,
  lookup_param ps n = Some (TA (AVar v)) ->
  gin (GParam n) (GCons x xs) -> is_err (term_to_biscuit ps (GSet x xs)).
Proof. exact (@C14_variable_param_in_set). Qed.

Theorem C14_unbound_parameter : forall ps n,
  lookup_param ps n = None -> term_to_biscuit ps (GParam n) = Err EParse.
Proof. exact (@C14_unbound_parameter). Qed.

Theorem C14_malformed_date : forall ps s, parse_rfc3339 s = None -> term_to_biscuit ps (GDate s) = Err EParse.
Proof. exact (@C14_malformed_date). Qed.

Theorem C14_malformed_hex : forall ps h, hex_decode h = None -> term_to_biscuit ps (GBytes h) = Err EParse.
Proof. exact (@C14_malformed_hex). Qed.

Theorem C14_bad_term_in_predicate : forall ps p t,
  is_err (term_to_biscuit ps t) -> gin t (pr_ids p) -> is_err (pred_to_biscuit ps p).
Proof. exact (@C14_bad_term_in_predicate). Qed.

Theorem C14_bad_term_in_expression : forall ps e t,
  is_err (term_to_biscuit ps t) -> In (GVal t) (to_ops e) -> is_err (expr_to_biscuit ps e).
Proof. exact (@C14_bad_term_in_expression). Qed.

Theorem C14_lex_total : forall s n, lex s <> Panic n.
Proof. exact (@lex_total). Qed.

Theorem C14_parse_fact_total : forall s ps n, parse_fact s ps <> Panic n.
Proof. exact (@parse_fact_total). Qed.

Theorem C14_parse_rule_total : forall s ps n, parse_rule s ps <> Panic n.
Proof. exact (@parse_rule_total). Qed.

Theorem C14_parse_check_total : forall s ps n, parse_check s ps <> Panic n.
Proof. exact (@parse_check_total). Qed.

Theorem C14_parse_policy_total : forall s ps n, parse_policy s ps <> Panic n.
Proof. exact (@parse_policy_total). Qed.

Theorem C14_parse_block_total : forall s ps n, parse_block s ps <> Panic n.
Proof. exact (@parse_block_total). Qed.

Theorem C14_parse_authorizer_total : forall s ps n, parse_authorizer s ps <> Panic n.
Proof. exact (@parse_authorizer_total). Qed.


Print Assumptions C14_to_ops_postfix.
Print Assumptions C14_tokens_parse_unparse_expr.
Print Assumptions C14_tokens_parse_unparse_check.
Print Assumptions C14_tokens_parse_unparse_rule.
Print Assumptions C14_tokens_parse_unparse_block.
Print Assumptions C14_tokens_parse_unparse_authorizer.
Print Assumptions C14_lex_render.
Print Assumptions C14_parse_unparse_fact.
Print Assumptions C14_parse_unparse_rule.
Print Assumptions C14_parse_unparse_check.
Print Assumptions C14_parse_unparse_policy.
Print Assumptions C14_parse_unparse_block.
Print Assumptions C14_parse_unparse_authorizer.
Print Assumptions C14_lex_render_any_layout.
Print Assumptions C14_lex_items_any_layout.
Print Assumptions C14_lexable_is_lexable_any.
Print Assumptions C14_lexable_i_is_lexable_i_any.
Print Assumptions C14_token_before_layout.
Print Assumptions C14_parse_unparse_fact_any_layout.
Print Assumptions C14_parse_unparse_rule_any_layout.
Print Assumptions C14_parse_unparse_check_any_layout.
Print Assumptions C14_parse_unparse_policy_any_layout.
Print Assumptions C14_parse_unparse_block_any_layout.
Print Assumptions C14_parse_unparse_authorizer_any_layout.
Print Assumptions C14_any_layout_check_nonvacuous.
Print Assumptions C14_any_layout_block_nonvacuous.
Print Assumptions C14_comments_only_leading.
Print Assumptions C14_lt_minus_adjacency_any_layout.
Print Assumptions C14_comparison_consumes_one.
Print Assumptions C14_rejects_chained_comparison_run.
Print Assumptions C14_rejects_double_negation.
Print Assumptions C14_variable_in_set.
Print Assumptions C14_variable_param_in_set.
Print Assumptions C14_unbound_parameter.
Print Assumptions C14_malformed_date.
Print Assumptions C14_malformed_hex.
Print Assumptions C14_bad_term_in_predicate.
Print Assumptions C14_bad_term_in_expression.
Print Assumptions C14_lex_total.
Print Assumptions C14_parse_fact_total.
Print Assumptions C14_parse_rule_total.
Print Assumptions C14_parse_check_total.
Print Assumptions C14_parse_policy_total.
Print Assumptions C14_parse_block_total.
Print Assumptions C14_parse_authorizer_total.
Print Assumptions C14_lexer_rules_pinned.
Print Assumptions C14_grammar_tags_pinned.
Print Assumptions C14_parser_options_pinned.
