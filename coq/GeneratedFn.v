(* GeneratedFn.v — written by /verif/genfn from the Go source text of <repo>/datalog on every run.
   DO NOT EDIT.  One Definition per translated function, callees first. *)
From BV Require Import Base Term Expr DTerm Symbols GoSem.

Definition genfn_whitelist : list (list N) := (* names of the requested functions *)
  [[83;121;109;98;111;108;84;97;98;108;101;46;83;116;114]%N (* SymbolTable.Str *);
   [83;121;109;98;111;108;84;97;98;108;101;46;86;97;114]%N (* SymbolTable.Var *);
   [83;121;109;98;111;108;84;97;98;108;101;46;83;121;109]%N (* SymbolTable.Sym *);
   [83;121;109;98;111;108;84;97;98;108;101;46;73;110;115;101;114;116]%N (* SymbolTable.Insert *);
   [83;121;109;98;111;108;84;97;98;108;101;46;69;120;116;101;110;100]%N (* SymbolTable.Extend *);
   [83;121;109;98;111;108;84;97;98;108;101;46;83;112;108;105;116;79;102;102]%N (* SymbolTable.SplitOff *);
   [83;121;109;98;111;108;84;97;98;108;101;46;67;108;111;110;101]%N (* SymbolTable.Clone *);
   [83;121;109;98;111;108;84;97;98;108;101;46;76;101;110]%N (* SymbolTable.Len *);
   [65;100;100;46;69;118;97;108]%N (* Add.Eval *);
   [83;117;98;46;69;118;97;108]%N (* Sub.Eval *);
   [77;117;108;46;69;118;97;108]%N (* Mul.Eval *);
   [68;105;118;46;69;118;97;108]%N (* Div.Eval *);
   [76;101;115;115;84;104;97;110;46;69;118;97;108]%N (* LessThan.Eval *);
   [76;101;115;115;79;114;69;113;117;97;108;46;69;118;97;108]%N (* LessOrEqual.Eval *);
   [71;114;101;97;116;101;114;84;104;97;110;46;69;118;97;108]%N (* GreaterThan.Eval *);
   [71;114;101;97;116;101;114;79;114;69;113;117;97;108;46;69;118;97;108]%N (* GreaterOrEqual.Eval *);
   [65;110;100;46;69;118;97;108]%N (* And.Eval *);
   [79;114;46;69;118;97;108]%N (* Or.Eval *);
   [78;101;103;97;116;101;46;69;118;97;108]%N (* Negate.Eval *);
   [80;97;114;101;110;115;46;69;118;97;108]%N (* Parens.Eval *);
   [76;101;110;103;116;104;46;69;118;97;108]%N (* Length.Eval *);
   [69;113;117;97;108;46;69;118;97;108]%N (* Equal.Eval *);
   [80;114;101;102;105;120;46;69;118;97;108]%N (* Prefix.Eval *);
   [83;117;102;102;105;120;46;69;118;97;108]%N (* Suffix.Eval *);
   [82;101;103;101;120;46;69;118;97;108]%N (* Regex.Eval *);
   [67;111;110;116;97;105;110;115;46;69;118;97;108]%N (* Contains.Eval *);
   [73;110;116;101;114;115;101;99;116;105;111;110;46;69;118;97;108]%N (* Intersection.Eval *);
   [85;110;105;111;110;46;69;118;97;108]%N (* Union.Eval *)].

(* /repo/datalog/symbol.go:9: var DEFAULT_SYMBOLS *)
Definition go_DEFAULT_SYMBOLS : list bytes :=
  [[114;101;97;100]%N; [119;114;105;116;101]%N; [114;101;115;111;117;114;99;101]%N; [111;112;101;114;97;116;105;111;110]%N; [114;105;103;104;116]%N; [116;105;109;101]%N; [114;111;108;101]%N; [111;119;110;101;114]%N; [116;101;110;97;110;116]%N; [110;97;109;101;115;112;97;99;101]%N; [117;115;101;114]%N; [116;101;97;109]%N; [115;101;114;118;105;99;101]%N; [97;100;109;105;110]%N; [101;109;97;105;108]%N; [103;114;111;117;112]%N; [109;101;109;98;101;114]%N; [105;112;95;97;100;100;114;101;115;115]%N; [99;108;105;101;110;116]%N; [99;108;105;101;110;116;95;105;112]%N; [100;111;109;97;105;110]%N; [112;97;116;104]%N; [118;101;114;115;105;111;110]%N; [99;108;117;115;116;101;114]%N; [110;111;100;101]%N; [104;111;115;116;110;97;109;101]%N; [110;111;110;99;101]%N; [113;117;101;114;121]%N].

(* /repo/datalog/symbol.go:91: func SymbolTable.Str *)
Definition go_SymbolTable_Str (t_1 : table) (sym_2 : N) : res bytes :=
  if N.ltb sym_2 1024%N then
    if N.ltb (wrap_u64 (i64_sub (len_int go_DEFAULT_SYMBOLS) 1%Z)) sym_2 then
      Ok ([60;105;110;118;97;108;105;100;32;115;121;109;98;111;108;32]%N ++ fmt_d_N sym_2 ++ [62]%N)
    else
      match idx go_DEFAULT_SYMBOLS (wrap_int (Z.of_N sym_2)) with
      | Some elt_3 =>
          Ok elt_3
      | None => Panic site_index
      end
  else
    if N.leb (wrap_u64 (len_int t_1)) (u64_sub sym_2 1024%N) then
      Ok ([60;105;110;118;97;108;105;100;32;115;121;109;98;111;108;32]%N ++ fmt_d_N sym_2 ++ [62]%N)
    else
      match idx t_1 (i64_sub (wrap_int (Z.of_N sym_2)) 1024%Z) with
      | Some elt_4 =>
          Ok elt_4
      | None => Panic site_index
      end.
#[global] Hint Unfold go_SymbolTable_Str : go_fn.

(* /repo/datalog/symbol.go:106: func SymbolTable.Var *)
Definition go_SymbolTable_Var (t_1 : table) (v_2 : N) : res bytes :=
  if Z.ltb (Z.of_N v_2) 1024%Z then
    if Z.ltb (i64_sub (len_int go_DEFAULT_SYMBOLS) 1%Z) (Z.of_N v_2) then
      Ok ([60;105;110;118;97;108;105;100;32;118;97;114;105;97;98;108;101;32]%N ++ fmt_d_N v_2 ++ [62]%N)
    else
      match idx go_DEFAULT_SYMBOLS (Z.of_N v_2) with
      | Some elt_3 =>
          Ok elt_3
      | None => Panic site_index
      end
  else
    if Z.ltb (i64_sub (len_int t_1) 1%Z) (i64_sub (Z.of_N v_2) 1024%Z) then
      Ok ([60;105;110;118;97;108;105;100;32;118;97;114;105;97;98;108;101;32]%N ++ fmt_d_N v_2 ++ [62]%N)
    else
      match idx t_1 (i64_sub (Z.of_N v_2) 1024%Z) with
      | Some elt_4 =>
          Ok elt_4
      | None => Panic site_index
      end.
#[global] Hint Unfold go_SymbolTable_Var : go_fn.

(* /repo/datalog/symbol.go:40: var OFFSET *)
Definition go_OFFSET : Z :=
  1024%Z.

(* /repo/datalog/symbol.go:61: func SymbolTable.Sym *)
Definition go_SymbolTable_Sym (t_1 : table) (s_2 : bytes) : res (option dterm) :=
  match range_loop (R := (res (option dterm))) (fun i_3 v_4 _ =>
      if bytes_eqb v_4 s_2 then
        Done (Ok (Some (DA (DStr (wrap_u64 i_3)))))
      else
        Continue tt) go_DEFAULT_SYMBOLS tt with
  | Continue _ | Break _ =>
      match range_loop (R := (res (option dterm))) (fun i_5 v_6 _ =>
          if bytes_eqb v_6 s_2 then
            Done (Ok (Some (DA (DStr (wrap_u64 (i64_add go_OFFSET i_5))))))
          else
            Continue tt) t_1 tt with
      | Continue _ | Break _ =>
          Ok None
      | Done r_7 => r_7
      end
  | Done r_8 => r_8
  end.
#[global] Hint Unfold go_SymbolTable_Sym : go_fn.

(* /repo/datalog/symbol.go:44: func SymbolTable.Insert *)
Definition go_SymbolTable_Insert (t_1 : table) (s_2 : bytes) : (table * res N) :=
  match range_loop (R := ((table * res N))) (fun i_3 v_4 _ =>
      if bytes_eqb v_4 s_2 then
        Done ((t_1, Ok (wrap_u64 i_3)))
      else
        Continue tt) go_DEFAULT_SYMBOLS tt with
  | Continue _ | Break _ =>
      match range_loop (R := ((table * res N))) (fun i_5 v_6 _ =>
          if bytes_eqb v_6 s_2 then
            Done ((t_1, Ok (wrap_u64 (i64_add go_OFFSET i_5))))
          else
            Continue tt) t_1 tt with
      | Continue _ | Break _ =>
          let t_7 := t_1 ++ [s_2] in
          (t_7, Ok (wrap_u64 (i64_sub (i64_add go_OFFSET (len_int t_7)) 1%Z)))
      | Done r_8 => r_8
      end
  | Done r_9 => r_9
  end.
#[global] Hint Unfold go_SymbolTable_Insert : go_fn.

(* /repo/datalog/symbol.go:165: func SymbolTable.Extend *)
Definition go_SymbolTable_Extend (t_1 : table) (other_2 : table) : (table * res unit) :=
  match range_loop (R := ((table * res unit))) (fun i_3 v_4 t_5 =>
      let '(t_6, r_7) := go_SymbolTable_Insert t_5 v_4 in
      match r_7 with
      | Ok v_10 =>
          Continue t_6
      | Err e_8 =>
          Done ((t_6, Err e_8))
      | Panic p_9 => Done ((t_6, Panic p_9))
      end) other_2 t_1 with
  | Continue t_11 | Break t_11 =>
      (t_11, Ok tt)
  | Done r_12 => r_12
  end.
#[global] Hint Unfold go_SymbolTable_Extend : go_fn.

(* /repo/datalog/symbol.go:129: func SymbolTable.SplitOff *)
Definition go_SymbolTable_SplitOff (t_1 : table) (at_2 : Z) : (table * res table) :=
  if Z.ltb (len_int t_1) at_2 then
    (t_1, Panic site_panic)
  else
    match make_list [] (i64_sub (len_int t_1) at_2) with
    | Some made_3 =>
        match slice t_1 at_2 (len_int t_1) with
        | Some sl_4 =>
            let new_5 := copy_list made_3 sl_4 in
            match slice t_1 0%Z at_2 with
            | Some sl_6 =>
                (sl_6, Ok new_5)
            | None => (t_1, Panic site_slice)
            end
        | None => (t_1, Panic site_slice)
        end
    | None => (t_1, Panic site_make)
    end.
#[global] Hint Unfold go_SymbolTable_SplitOff : go_fn.

(* /repo/datalog/symbol.go:120: func SymbolTable.Clone *)
Definition go_SymbolTable_Clone (t_1 : table) : res table :=
  match make_list [] (len_int t_1) with
  | Some made_2 =>
      let newTable_3 := copy_list made_2 t_1 in
      Ok newTable_3
  | None => Panic site_make
  end.
#[global] Hint Unfold go_SymbolTable_Clone : go_fn.

(* /repo/datalog/symbol.go:142: func SymbolTable.Len *)
Definition go_SymbolTable_Len (t_1 : table) : res Z :=
  Ok (len_int t_1).
#[global] Hint Unfold go_SymbolTable_Len : go_fn.

(* /repo/datalog/expressions.go:643: func Add.Eval *)
Definition go_Add_Eval (left_1 : dterm) (right_2 : dterm) (symbols_3 : table) : (table * res dterm) :=
  match left_1 with
  | DA (DStr a_4) =>
      match right_2 with
      | DA (DStr a_8) =>
          match go_SymbolTable_Str symbols_3 a_4 with
          | Ok v_11 =>
              match go_SymbolTable_Str symbols_3 a_8 with
              | Ok v_14 =>
                  let '(symbols_15, r_16) := go_SymbolTable_Insert symbols_3 (v_11 ++ v_14) in
                  match r_16 with
                  | Ok v_19 =>
                      (symbols_15, Ok (DA (DStr v_19)))
                  | Err e_17 =>
                      (symbols_15, Err e_17)
                  | Panic p_18 => (symbols_15, Panic p_18)
                  end
              | Err e_12 =>
                  (symbols_3, Err e_12)
              | Panic p_13 => (symbols_3, Panic p_13)
              end
          | Err e_9 =>
              (symbols_3, Err e_9)
          | Panic p_10 => (symbols_3, Panic p_10)
          end
      | _ =>
          (symbols_3, Err EIllTyped)
      end
  | _ =>
      match left_1 with
      | DA (DInt a_5) =>
          match right_2 with
          | DA (DInt a_6) =>
              let res_7 := (a_5 + a_6)%Z in
              if negb (in_int64 res_7) then
                (symbols_3, Err EOverflow)
              else
                (symbols_3, Ok (DA (DInt (wrap_i64 res_7))))
          | _ =>
              (symbols_3, Err EIllTyped)
          end
      | _ =>
          (symbols_3, Err EIllTyped)
      end
  end.
#[global] Hint Unfold go_Add_Eval : go_fn.

(* /repo/datalog/expressions.go:682: func Sub.Eval *)
Definition go_Sub_Eval (left_1 : dterm) (right_2 : dterm) (unused_4 : table) : res dterm :=
  match left_1 with
  | DA (DInt a_5) =>
      match right_2 with
      | DA (DInt a_6) =>
          let res_7 := (a_5 - a_6)%Z in
          if negb (in_int64 res_7) then
            Err EOverflow
          else
            Ok (DA (DInt (wrap_i64 res_7)))
      | _ =>
          Err EIllTyped
      end
  | _ =>
      Err EIllTyped
  end.
#[global] Hint Unfold go_Sub_Eval : go_fn.

(* /repo/datalog/expressions.go:710: func Mul.Eval *)
Definition go_Mul_Eval (left_1 : dterm) (right_2 : dterm) (unused_4 : table) : res dterm :=
  match left_1 with
  | DA (DInt a_5) =>
      match right_2 with
      | DA (DInt a_6) =>
          let res_7 := (a_5 * a_6)%Z in
          if negb (in_int64 res_7) then
            Err EOverflow
          else
            Ok (DA (DInt (wrap_i64 res_7)))
      | _ =>
          Err EIllTyped
      end
  | _ =>
      Err EIllTyped
  end.
#[global] Hint Unfold go_Mul_Eval : go_fn.

(* /repo/datalog/expressions.go:739: func Div.Eval *)
Definition go_Div_Eval (left_1 : dterm) (right_2 : dterm) (unused_4 : table) : res dterm :=
  match left_1 with
  | DA (DInt a_5) =>
      match right_2 with
      | DA (DInt a_6) =>
          if Z.eqb a_6 0%Z then
            Err EDivZero
          else
            if andb (Z.eqb a_5 (-9223372036854775808)%Z) (Z.eqb a_6 (-1)%Z) then
              Err EOverflow
            else
              match i64_quo a_5 a_6 with
              | Some q_7 =>
                  Ok (DA (DInt q_7))
              | None => Panic site_div
              end
      | _ =>
          Err EIllTyped
      end
  | _ =>
      Err EIllTyped
  end.
#[global] Hint Unfold go_Div_Eval : go_fn.

(* /repo/datalog/datalog.go:106: func Variable.Type *)
Definition go_Variable_Type (unused_2 : N) : res N :=
  Ok ((0%N (* TermTypeVariable *))).
#[global] Hint Unfold go_Variable_Type : go_fn.

(* /repo/datalog/datalog.go:114: func Integer.Type *)
Definition go_Integer_Type (unused_2 : Z) : res N :=
  Ok ((1%N (* TermTypeInteger *))).
#[global] Hint Unfold go_Integer_Type : go_fn.

(* /repo/datalog/datalog.go:122: func String.Type *)
Definition go_String_Type (unused_2 : N) : res N :=
  Ok ((2%N (* TermTypeString *))).
#[global] Hint Unfold go_String_Type : go_fn.

(* /repo/datalog/datalog.go:130: func Date.Type *)
Definition go_Date_Type (unused_2 : N) : res N :=
  Ok ((3%N (* TermTypeDate *))).
#[global] Hint Unfold go_Date_Type : go_fn.

(* /repo/datalog/datalog.go:138: func Bytes.Type *)
Definition go_Bytes_Type (unused_2 : bytes) : res N :=
  Ok ((4%N (* TermTypeBytes *))).
#[global] Hint Unfold go_Bytes_Type : go_fn.

(* /repo/datalog/datalog.go:146: func Bool.Type *)
Definition go_Bool_Type (unused_2 : bool) : res N :=
  Ok ((5%N (* TermTypeBool *))).
#[global] Hint Unfold go_Bool_Type : go_fn.

(* /repo/datalog/datalog.go:34: func Set.Type *)
Definition go_Set_Type (unused_2 : list datom) : res N :=
  Ok ((6%N (* TermTypeSet *))).
#[global] Hint Unfold go_Set_Type : go_fn.

(* method Type selected by the dynamic type of a Term *)
Definition go_Term_Type (recv : dterm) : res N :=
  match recv with
  | DA (DVar x) => go_Variable_Type x
  | DA (DInt x) => go_Integer_Type x
  | DA (DStr x) => go_String_Type x
  | DA (DDate x) => go_Date_Type x
  | DA (DBytes x) => go_Bytes_Type x
  | DA (DBool x) => go_Bool_Type x
  | DSet x => go_Set_Type x
  end.
#[global] Hint Unfold go_Term_Type : go_fn.

(* /repo/datalog/expressions.go:346: func LessThan.Eval *)
Definition go_LessThan_Eval (left_1 : dterm) (right_2 : dterm) (unused_4 : table) : res dterm :=
  match go_Term_Type left_1 with
  | Ok v_7 =>
      match go_Term_Type right_2 with
      | Ok v_10 =>
          if negb (N.eqb v_7 v_10) then
            Err EIllTyped
          else
            match go_Term_Type left_1 with
            | Ok v_13 =>
                if N.eqb v_13 ((1%N (* TermTypeInteger *))) then
                  match left_1 with
                  | DA (DInt a_14) =>
                      match right_2 with
                      | DA (DInt a_15) =>
                          let out_16 := DA (DBool (Z.ltb a_14 a_15)) in
                          Ok out_16
                      | _ => Panic site_assert
                      end
                  | _ => Panic site_assert
                  end
                else
                  if N.eqb v_13 ((3%N (* TermTypeDate *))) then
                    match left_1 with
                    | DA (DDate a_17) =>
                        match right_2 with
                        | DA (DDate a_18) =>
                            let out_19 := DA (DBool (N.ltb a_17 a_18)) in
                            Ok out_19
                        | _ => Panic site_assert
                        end
                    | _ => Panic site_assert
                    end
                  else
                    match go_Term_Type left_1 with
                    | Ok v_22 =>
                        Err EIllTyped
                    | Err e_20 =>
                        Err e_20
                    | Panic p_21 => Panic p_21
                    end
            | Err e_11 =>
                Err e_11
            | Panic p_12 => Panic p_12
            end
      | Err e_8 =>
          Err e_8
      | Panic p_9 => Panic p_9
      end
  | Err e_5 =>
      Err e_5
  | Panic p_6 => Panic p_6
  end.
#[global] Hint Unfold go_LessThan_Eval : go_fn.

(* /repo/datalog/expressions.go:372: func LessOrEqual.Eval *)
Definition go_LessOrEqual_Eval (left_1 : dterm) (right_2 : dterm) (unused_4 : table) : res dterm :=
  match go_Term_Type left_1 with
  | Ok v_7 =>
      match go_Term_Type right_2 with
      | Ok v_10 =>
          if negb (N.eqb v_7 v_10) then
            Err EIllTyped
          else
            match go_Term_Type left_1 with
            | Ok v_13 =>
                if N.eqb v_13 ((1%N (* TermTypeInteger *))) then
                  match left_1 with
                  | DA (DInt a_14) =>
                      match right_2 with
                      | DA (DInt a_15) =>
                          let out_16 := DA (DBool (Z.leb a_14 a_15)) in
                          Ok out_16
                      | _ => Panic site_assert
                      end
                  | _ => Panic site_assert
                  end
                else
                  if N.eqb v_13 ((3%N (* TermTypeDate *))) then
                    match left_1 with
                    | DA (DDate a_17) =>
                        match right_2 with
                        | DA (DDate a_18) =>
                            let out_19 := DA (DBool (N.leb a_17 a_18)) in
                            Ok out_19
                        | _ => Panic site_assert
                        end
                    | _ => Panic site_assert
                    end
                  else
                    match go_Term_Type left_1 with
                    | Ok v_22 =>
                        Err EIllTyped
                    | Err e_20 =>
                        Err e_20
                    | Panic p_21 => Panic p_21
                    end
            | Err e_11 =>
                Err e_11
            | Panic p_12 => Panic p_12
            end
      | Err e_8 =>
          Err e_8
      | Panic p_9 => Panic p_9
      end
  | Err e_5 =>
      Err e_5
  | Panic p_6 => Panic p_6
  end.
#[global] Hint Unfold go_LessOrEqual_Eval : go_fn.

(* /repo/datalog/expressions.go:398: func GreaterThan.Eval *)
Definition go_GreaterThan_Eval (left_1 : dterm) (right_2 : dterm) (unused_4 : table) : res dterm :=
  match go_Term_Type left_1 with
  | Ok v_7 =>
      match go_Term_Type right_2 with
      | Ok v_10 =>
          if negb (N.eqb v_7 v_10) then
            Err EIllTyped
          else
            match go_Term_Type left_1 with
            | Ok v_13 =>
                if N.eqb v_13 ((1%N (* TermTypeInteger *))) then
                  match left_1 with
                  | DA (DInt a_14) =>
                      match right_2 with
                      | DA (DInt a_15) =>
                          let out_16 := DA (DBool (Z.ltb a_15 a_14)) in
                          Ok out_16
                      | _ => Panic site_assert
                      end
                  | _ => Panic site_assert
                  end
                else
                  if N.eqb v_13 ((3%N (* TermTypeDate *))) then
                    match left_1 with
                    | DA (DDate a_17) =>
                        match right_2 with
                        | DA (DDate a_18) =>
                            let out_19 := DA (DBool (N.ltb a_18 a_17)) in
                            Ok out_19
                        | _ => Panic site_assert
                        end
                    | _ => Panic site_assert
                    end
                  else
                    match go_Term_Type left_1 with
                    | Ok v_22 =>
                        Err EIllTyped
                    | Err e_20 =>
                        Err e_20
                    | Panic p_21 => Panic p_21
                    end
            | Err e_11 =>
                Err e_11
            | Panic p_12 => Panic p_12
            end
      | Err e_8 =>
          Err e_8
      | Panic p_9 => Panic p_9
      end
  | Err e_5 =>
      Err e_5
  | Panic p_6 => Panic p_6
  end.
#[global] Hint Unfold go_GreaterThan_Eval : go_fn.

(* /repo/datalog/expressions.go:424: func GreaterOrEqual.Eval *)
Definition go_GreaterOrEqual_Eval (left_1 : dterm) (right_2 : dterm) (unused_4 : table) : res dterm :=
  match go_Term_Type left_1 with
  | Ok v_7 =>
      match go_Term_Type right_2 with
      | Ok v_10 =>
          if negb (N.eqb v_7 v_10) then
            Err EIllTyped
          else
            match go_Term_Type left_1 with
            | Ok v_13 =>
                if N.eqb v_13 ((1%N (* TermTypeInteger *))) then
                  match left_1 with
                  | DA (DInt a_14) =>
                      match right_2 with
                      | DA (DInt a_15) =>
                          let out_16 := DA (DBool (Z.leb a_15 a_14)) in
                          Ok out_16
                      | _ => Panic site_assert
                      end
                  | _ => Panic site_assert
                  end
                else
                  if N.eqb v_13 ((3%N (* TermTypeDate *))) then
                    match left_1 with
                    | DA (DDate a_17) =>
                        match right_2 with
                        | DA (DDate a_18) =>
                            let out_19 := DA (DBool (N.leb a_18 a_17)) in
                            Ok out_19
                        | _ => Panic site_assert
                        end
                    | _ => Panic site_assert
                    end
                  else
                    match go_Term_Type left_1 with
                    | Ok v_22 =>
                        Err EIllTyped
                    | Err e_20 =>
                        Err e_20
                    | Panic p_21 => Panic p_21
                    end
            | Err e_11 =>
                Err e_11
            | Panic p_12 => Panic p_12
            end
      | Err e_8 =>
          Err e_8
      | Panic p_9 => Panic p_9
      end
  | Err e_5 =>
      Err e_5
  | Panic p_6 => Panic p_6
  end.
#[global] Hint Unfold go_GreaterOrEqual_Eval : go_fn.

(* /repo/datalog/expressions.go:768: func And.Eval *)
Definition go_And_Eval (left_1 : dterm) (right_2 : dterm) (unused_4 : table) : res dterm :=
  match left_1 with
  | DA (DBool a_5) =>
      match right_2 with
      | DA (DBool a_6) =>
          Ok (DA (DBool (andb a_5 a_6)))
      | _ =>
          Err EIllTyped
      end
  | _ =>
      Err EIllTyped
  end.
#[global] Hint Unfold go_And_Eval : go_fn.

(* /repo/datalog/expressions.go:788: func Or.Eval *)
Definition go_Or_Eval (left_1 : dterm) (right_2 : dterm) (unused_4 : table) : res dterm :=
  match left_1 with
  | DA (DBool a_5) =>
      match right_2 with
      | DA (DBool a_6) =>
          Ok (DA (DBool (orb a_5 a_6)))
      | _ =>
          Err EIllTyped
      end
  | _ =>
      Err EIllTyped
  end.
#[global] Hint Unfold go_Or_Eval : go_fn.

(* /repo/datalog/expressions.go:214: func Negate.Eval *)
Definition go_Negate_Eval (value_1 : dterm) (unused_3 : table) : res dterm :=
  match go_Term_Type value_1 with
  | Ok v_6 =>
      if N.eqb v_6 ((5%N (* TermTypeBool *))) then
        match value_1 with
        | DA (DBool a_7) =>
            let out_8 := DA (DBool (negb a_7)) in
            Ok out_8
        | _ => Panic site_assert
        end
      else
        match go_Term_Type value_1 with
        | Ok v_11 =>
            Err EIllTyped
        | Err e_9 =>
            Err e_9
        | Panic p_10 => Panic p_10
        end
  | Err e_4 =>
      Err e_4
  | Panic p_5 => Panic p_5
  end.
#[global] Hint Unfold go_Negate_Eval : go_fn.

(* /repo/datalog/expressions.go:234: func Parens.Eval *)
Definition go_Parens_Eval (value_1 : dterm) (unused_3 : table) : res dterm :=
  Ok value_1.
#[global] Hint Unfold go_Parens_Eval : go_fn.

(* /repo/datalog/expressions.go:245: func Length.Eval *)
Definition go_Length_Eval (value_1 : dterm) (symbols_2 : table) : res dterm :=
  match go_Term_Type value_1 with
  | Ok v_5 =>
      if N.eqb v_5 ((2%N (* TermTypeString *))) then
        match value_1 with
        | DA (DStr a_6) =>
            match go_SymbolTable_Str symbols_2 a_6 with
            | Ok v_9 =>
                let out_10 := DA (DInt (len_int v_9)) in
                Ok out_10
            | Err e_7 =>
                Err e_7
            | Panic p_8 => Panic p_8
            end
        | _ => Panic site_assert
        end
      else
        if N.eqb v_5 ((4%N (* TermTypeBytes *))) then
          match value_1 with
          | DA (DBytes a_11) =>
              let out_12 := DA (DInt (len_int a_11)) in
              Ok out_12
          | _ => Panic site_assert
          end
        else
          if N.eqb v_5 ((6%N (* TermTypeSet *))) then
            match value_1 with
            | DSet a_13 =>
                let out_14 := DA (DInt (len_int a_13)) in
                Ok out_14
            | _ => Panic site_assert
            end
          else
            match go_Term_Type value_1 with
            | Ok v_17 =>
                Err EIllTyped
            | Err e_15 =>
                Err e_15
            | Panic p_16 => Panic p_16
            end
  | Err e_3 =>
      Err e_3
  | Panic p_4 => Panic p_4
  end.
#[global] Hint Unfold go_Length_Eval : go_fn.

(* /repo/datalog/datalog.go:107: func Variable.Equal *)
Definition go_Variable_Equal (v_1 : N) (t_2 : dterm) : res bool :=
  match t_2 with
  | DA (DVar a_3) =>
      Ok (N.eqb v_1 a_3)
  | _ =>
      Ok false
  end.
#[global] Hint Unfold go_Variable_Equal : go_fn.

(* /repo/datalog/datalog.go:115: func Integer.Equal *)
Definition go_Integer_Equal (i_1 : Z) (t_2 : dterm) : res bool :=
  match t_2 with
  | DA (DInt a_3) =>
      Ok (Z.eqb i_1 a_3)
  | _ =>
      Ok false
  end.
#[global] Hint Unfold go_Integer_Equal : go_fn.

(* /repo/datalog/datalog.go:123: func String.Equal *)
Definition go_String_Equal (s_1 : N) (t_2 : dterm) : res bool :=
  match t_2 with
  | DA (DStr a_3) =>
      Ok (N.eqb s_1 a_3)
  | _ =>
      Ok false
  end.
#[global] Hint Unfold go_String_Equal : go_fn.

(* /repo/datalog/datalog.go:131: func Date.Equal *)
Definition go_Date_Equal (d_1 : N) (t_2 : dterm) : res bool :=
  match t_2 with
  | DA (DDate a_3) =>
      Ok (N.eqb d_1 a_3)
  | _ =>
      Ok false
  end.
#[global] Hint Unfold go_Date_Equal : go_fn.

(* /repo/datalog/datalog.go:139: func Bytes.Equal *)
Definition go_Bytes_Equal (b_1 : bytes) (t_2 : dterm) : res bool :=
  match t_2 with
  | DA (DBytes a_3) =>
      Ok (bytes_eqb b_1 a_3)
  | _ =>
      Ok false
  end.
#[global] Hint Unfold go_Bytes_Equal : go_fn.

(* /repo/datalog/datalog.go:147: func Bool.Equal *)
Definition go_Bool_Equal (b_1 : bool) (t_2 : dterm) : res bool :=
  match t_2 with
  | DA (DBool a_3) =>
      Ok (Bool.eqb b_1 a_3)
  | _ =>
      Ok false
  end.
#[global] Hint Unfold go_Bool_Equal : go_fn.

(* method Equal selected by the dynamic type of an element of a Set *)
Definition go_TermAtom_Equal (recv : datom) (a1 : dterm) : res bool :=
  match recv with
  | DVar x => go_Variable_Equal x a1
  | DInt x => go_Integer_Equal x a1
  | DStr x => go_String_Equal x a1
  | DDate x => go_Date_Equal x a1
  | DBytes x => go_Bytes_Equal x a1
  | DBool x => go_Bool_Equal x a1
  end.
#[global] Hint Unfold go_TermAtom_Equal : go_fn.

(* /repo/datalog/datalog.go:58: func Set.contains *)
Definition go_Set_contains (s_1 : list datom) (t_2 : dterm) : res bool :=
  match range_loop (R := (res bool)) (fun i_3 v_4 _ =>
      match go_TermAtom_Equal v_4 t_2 with
      | Ok v_7 =>
          if v_7 then
            Done (Ok true)
          else
            Continue tt
      | Err e_5 =>
          Done (Err e_5)
      | Panic p_6 => Done (Panic p_6)
      end) s_1 tt with
  | Continue _ | Break _ =>
      Ok false
  | Done r_8 => r_8
  end.
#[global] Hint Unfold go_Set_contains : go_fn.

(* /repo/datalog/datalog.go:35: func Set.Equal *)
Definition go_Set_Equal (s_1 : list datom) (t_2 : dterm) : res bool :=
  match t_2 with
  | DSet a_3 =>
      if negb (Z.eqb (len_int a_3) (len_int s_1)) then
        Ok false
      else
        match range_loop (R := (res bool)) (fun i_4 v_5 _ =>
            match go_Set_contains a_3 (DA v_5) with
            | Ok v_8 =>
                if negb v_8 then
                  Done (Ok false)
                else
                  Continue tt
            | Err e_6 =>
                Done (Err e_6)
            | Panic p_7 => Done (Panic p_7)
            end) s_1 tt with
        | Continue _ | Break _ =>
            match range_loop (R := (res bool)) (fun i_9 v_10 _ =>
                match go_Set_contains s_1 (DA v_10) with
                | Ok v_13 =>
                    if negb v_13 then
                      Done (Ok false)
                    else
                      Continue tt
                | Err e_11 =>
                    Done (Err e_11)
                | Panic p_12 => Done (Panic p_12)
                end) a_3 tt with
            | Continue _ | Break _ =>
                Ok true
            | Done r_14 => r_14
            end
        | Done r_15 => r_15
        end
  | _ =>
      Ok false
  end.
#[global] Hint Unfold go_Set_Equal : go_fn.

(* method Equal selected by the dynamic type of a Term *)
Definition go_Term_Equal (recv : dterm) (a1 : dterm) : res bool :=
  match recv with
  | DA (DVar x) => go_Variable_Equal x a1
  | DA (DInt x) => go_Integer_Equal x a1
  | DA (DStr x) => go_String_Equal x a1
  | DA (DDate x) => go_Date_Equal x a1
  | DA (DBytes x) => go_Bytes_Equal x a1
  | DA (DBool x) => go_Bool_Equal x a1
  | DSet x => go_Set_Equal x a1
  end.
#[global] Hint Unfold go_Term_Equal : go_fn.

(* /repo/datalog/expressions.go:450: func Equal.Eval *)
Definition go_Equal_Eval (left_1 : dterm) (right_2 : dterm) (unused_4 : table) : res dterm :=
  match go_Term_Type left_1 with
  | Ok v_7 =>
      match go_Term_Type right_2 with
      | Ok v_10 =>
          if negb (N.eqb v_7 v_10) then
            Err EIllTyped
          else
            match go_Term_Type left_1 with
            | Ok v_13 =>
                if N.eqb v_13 ((1%N (* TermTypeInteger *))) then
                  match go_Term_Equal left_1 right_2 with
                  | Ok v_16 =>
                      Ok (DA (DBool v_16))
                  | Err e_14 =>
                      Err e_14
                  | Panic p_15 => Panic p_15
                  end
                else
                  if N.eqb v_13 ((4%N (* TermTypeBytes *))) then
                    match go_Term_Equal left_1 right_2 with
                    | Ok v_19 =>
                        Ok (DA (DBool v_19))
                    | Err e_17 =>
                        Err e_17
                    | Panic p_18 => Panic p_18
                    end
                  else
                    if N.eqb v_13 ((2%N (* TermTypeString *))) then
                      match go_Term_Equal left_1 right_2 with
                      | Ok v_22 =>
                          Ok (DA (DBool v_22))
                      | Err e_20 =>
                          Err e_20
                      | Panic p_21 => Panic p_21
                      end
                    else
                      if N.eqb v_13 ((3%N (* TermTypeDate *))) then
                        match go_Term_Equal left_1 right_2 with
                        | Ok v_25 =>
                            Ok (DA (DBool v_25))
                        | Err e_23 =>
                            Err e_23
                        | Panic p_24 => Panic p_24
                        end
                      else
                        if N.eqb v_13 ((5%N (* TermTypeBool *))) then
                          match go_Term_Equal left_1 right_2 with
                          | Ok v_28 =>
                              Ok (DA (DBool v_28))
                          | Err e_26 =>
                              Err e_26
                          | Panic p_27 => Panic p_27
                          end
                        else
                          if N.eqb v_13 ((6%N (* TermTypeSet *))) then
                            match go_Term_Equal left_1 right_2 with
                            | Ok v_31 =>
                                Ok (DA (DBool v_31))
                            | Err e_29 =>
                                Err e_29
                            | Panic p_30 => Panic p_30
                            end
                          else
                            match go_Term_Type left_1 with
                            | Ok v_34 =>
                                Err EIllTyped
                            | Err e_32 =>
                                Err e_32
                            | Panic p_33 => Panic p_33
                            end
            | Err e_11 =>
                Err e_11
            | Panic p_12 => Panic p_12
            end
      | Err e_8 =>
          Err e_8
      | Panic p_9 => Panic p_9
      end
  | Err e_5 =>
      Err e_5
  | Panic p_6 => Panic p_6
  end.
#[global] Hint Unfold go_Equal_Eval : go_fn.

(* /repo/datalog/expressions.go:579: func Prefix.Eval *)
Definition go_Prefix_Eval (left_1 : dterm) (right_2 : dterm) (symbols_3 : table) : res dterm :=
  match left_1 with
  | DA (DStr a_4) =>
      match right_2 with
      | DA (DStr a_5) =>
          match go_SymbolTable_Str symbols_3 a_4 with
          | Ok v_8 =>
              match go_SymbolTable_Str symbols_3 a_5 with
              | Ok v_11 =>
                  Ok (DA (DBool (has_prefix v_8 v_11)))
              | Err e_9 =>
                  Err e_9
              | Panic p_10 => Panic p_10
              end
          | Err e_6 =>
              Err e_6
          | Panic p_7 => Panic p_7
          end
      | _ =>
          Err EIllTyped
      end
  | _ =>
      Err EIllTyped
  end.
#[global] Hint Unfold go_Prefix_Eval : go_fn.

(* /repo/datalog/expressions.go:599: func Suffix.Eval *)
Definition go_Suffix_Eval (left_1 : dterm) (right_2 : dterm) (symbols_3 : table) : res dterm :=
  match left_1 with
  | DA (DStr a_4) =>
      match right_2 with
      | DA (DStr a_5) =>
          match go_SymbolTable_Str symbols_3 a_4 with
          | Ok v_8 =>
              match go_SymbolTable_Str symbols_3 a_5 with
              | Ok v_11 =>
                  Ok (DA (DBool (has_suffix v_8 v_11)))
              | Err e_9 =>
                  Err e_9
              | Panic p_10 => Panic p_10
              end
          | Err e_6 =>
              Err e_6
          | Panic p_7 => Panic p_7
          end
      | _ =>
          Err EIllTyped
      end
  | _ =>
      Err EIllTyped
  end.
#[global] Hint Unfold go_Suffix_Eval : go_fn.

(* /repo/datalog/expressions.go:619: func Regex.Eval *)
Definition go_Regex_Eval (rx : bytes -> bytes -> option bool) (left_1 : dterm) (right_2 : dterm) (symbols_3 : table) : res dterm :=
  match left_1 with
  | DA (DStr a_4) =>
      match right_2 with
      | DA (DStr a_5) =>
          match go_SymbolTable_Str symbols_3 a_5 with
          | Ok v_8 =>
              match rx_compile_err rx v_8 with
              | None =>
                  match go_SymbolTable_Str symbols_3 a_4 with
                  | Ok v_12 =>
                      Ok (DA (DBool (rx_match rx v_8 v_12)))
                  | Err e_10 =>
                      Err e_10
                  | Panic p_11 => Panic p_11
                  end
              | Some e_9 =>
                  Err EIllTyped
              end
          | Err e_6 =>
              Err e_6
          | Panic p_7 => Panic p_7
          end
      | _ =>
          Err EIllTyped
      end
  | _ =>
      Err EIllTyped
  end.
#[global] Hint Unfold go_Regex_Eval : go_fn.

(* /repo/datalog/expressions.go:478: func Contains.Eval *)
Definition go_Contains_Eval (left_1 : dterm) (right_2 : dterm) (symbols_3 : table) : res dterm :=
  match left_1 with
  | DA (DStr a_4) =>
      match right_2 with
      | DA (DStr a_125) =>
          match go_SymbolTable_Str symbols_3 a_4 with
          | Ok v_128 =>
              match go_SymbolTable_Str symbols_3 a_125 with
              | Ok v_131 =>
                  Ok (DA (DBool (contains_sub v_128 v_131)))
              | Err e_129 =>
                  Err e_129
              | Panic p_130 => Panic p_130
              end
          | Err e_126 =>
              Err e_126
          | Panic p_127 => Panic p_127
          end
      | _ =>
          Err EIllTyped
      end
  | _ =>
      match go_Term_Type right_2 with
      | Ok v_7 =>
          if N.eqb v_7 ((1%N (* TermTypeInteger *))) then
            match left_1 with
            | DSet a_8 =>
                match right_2 with
                | DSet a_9 =>
                    match range_loop (R := (res dterm)) (fun i_16 v_17 _ =>
                        match range_loop (R := (res dterm)) (fun i_18 v_19 rhsinlhs_20 =>
                            match go_TermAtom_Equal v_19 (DA v_17) with
                            | Ok v_23 =>
                                if v_23 then
                                  Continue true
                                else
                                  Continue rhsinlhs_20
                            | Err e_21 =>
                                Done (Err e_21)
                            | Panic p_22 => Done (Panic p_22)
                            end) a_8 false with
                        | Continue rhsinlhs_24 | Break rhsinlhs_24 =>
                            if negb rhsinlhs_24 then
                              Done (Ok (DA (DBool false)))
                            else
                              Continue tt
                        | Done r_25 => Done r_25
                        end) a_9 tt with
                    | Continue _ | Break _ =>
                        Ok (DA (DBool true))
                    | Done r_26 => r_26
                    end
                | _ =>
                    match range_loop (R := (res dterm)) (fun i_10 v_11 _ =>
                        match go_Term_Equal right_2 (DA v_11) with
                        | Ok v_14 =>
                            if v_14 then
                              Done (Ok (DA (DBool true)))
                            else
                              Continue tt
                        | Err e_12 =>
                            Done (Err e_12)
                        | Panic p_13 => Done (Panic p_13)
                        end) a_8 tt with
                    | Continue _ | Break _ =>
                        Ok (DA (DBool false))
                    | Done r_15 => r_15
                    end
                end
            | _ =>
                Err EIllTyped
            end
          else
            if N.eqb v_7 ((4%N (* TermTypeBytes *))) then
              match left_1 with
              | DSet a_27 =>
                  match right_2 with
                  | DSet a_28 =>
                      match range_loop (R := (res dterm)) (fun i_35 v_36 _ =>
                          match range_loop (R := (res dterm)) (fun i_37 v_38 rhsinlhs_39 =>
                              match go_TermAtom_Equal v_38 (DA v_36) with
                              | Ok v_42 =>
                                  if v_42 then
                                    Continue true
                                  else
                                    Continue rhsinlhs_39
                              | Err e_40 =>
                                  Done (Err e_40)
                              | Panic p_41 => Done (Panic p_41)
                              end) a_27 false with
                          | Continue rhsinlhs_43 | Break rhsinlhs_43 =>
                              if negb rhsinlhs_43 then
                                Done (Ok (DA (DBool false)))
                              else
                                Continue tt
                          | Done r_44 => Done r_44
                          end) a_28 tt with
                      | Continue _ | Break _ =>
                          Ok (DA (DBool true))
                      | Done r_45 => r_45
                      end
                  | _ =>
                      match range_loop (R := (res dterm)) (fun i_29 v_30 _ =>
                          match go_Term_Equal right_2 (DA v_30) with
                          | Ok v_33 =>
                              if v_33 then
                                Done (Ok (DA (DBool true)))
                              else
                                Continue tt
                          | Err e_31 =>
                              Done (Err e_31)
                          | Panic p_32 => Done (Panic p_32)
                          end) a_27 tt with
                      | Continue _ | Break _ =>
                          Ok (DA (DBool false))
                      | Done r_34 => r_34
                      end
                  end
              | _ =>
                  Err EIllTyped
              end
            else
              if N.eqb v_7 ((2%N (* TermTypeString *))) then
                match left_1 with
                | DSet a_46 =>
                    match right_2 with
                    | DSet a_47 =>
                        match range_loop (R := (res dterm)) (fun i_54 v_55 _ =>
                            match range_loop (R := (res dterm)) (fun i_56 v_57 rhsinlhs_58 =>
                                match go_TermAtom_Equal v_57 (DA v_55) with
                                | Ok v_61 =>
                                    if v_61 then
                                      Continue true
                                    else
                                      Continue rhsinlhs_58
                                | Err e_59 =>
                                    Done (Err e_59)
                                | Panic p_60 => Done (Panic p_60)
                                end) a_46 false with
                            | Continue rhsinlhs_62 | Break rhsinlhs_62 =>
                                if negb rhsinlhs_62 then
                                  Done (Ok (DA (DBool false)))
                                else
                                  Continue tt
                            | Done r_63 => Done r_63
                            end) a_47 tt with
                        | Continue _ | Break _ =>
                            Ok (DA (DBool true))
                        | Done r_64 => r_64
                        end
                    | _ =>
                        match range_loop (R := (res dterm)) (fun i_48 v_49 _ =>
                            match go_Term_Equal right_2 (DA v_49) with
                            | Ok v_52 =>
                                if v_52 then
                                  Done (Ok (DA (DBool true)))
                                else
                                  Continue tt
                            | Err e_50 =>
                                Done (Err e_50)
                            | Panic p_51 => Done (Panic p_51)
                            end) a_46 tt with
                        | Continue _ | Break _ =>
                            Ok (DA (DBool false))
                        | Done r_53 => r_53
                        end
                    end
                | _ =>
                    Err EIllTyped
                end
              else
                if N.eqb v_7 ((3%N (* TermTypeDate *))) then
                  match left_1 with
                  | DSet a_65 =>
                      match right_2 with
                      | DSet a_66 =>
                          match range_loop (R := (res dterm)) (fun i_73 v_74 _ =>
                              match range_loop (R := (res dterm)) (fun i_75 v_76 rhsinlhs_77 =>
                                  match go_TermAtom_Equal v_76 (DA v_74) with
                                  | Ok v_80 =>
                                      if v_80 then
                                        Continue true
                                      else
                                        Continue rhsinlhs_77
                                  | Err e_78 =>
                                      Done (Err e_78)
                                  | Panic p_79 => Done (Panic p_79)
                                  end) a_65 false with
                              | Continue rhsinlhs_81 | Break rhsinlhs_81 =>
                                  if negb rhsinlhs_81 then
                                    Done (Ok (DA (DBool false)))
                                  else
                                    Continue tt
                              | Done r_82 => Done r_82
                              end) a_66 tt with
                          | Continue _ | Break _ =>
                              Ok (DA (DBool true))
                          | Done r_83 => r_83
                          end
                      | _ =>
                          match range_loop (R := (res dterm)) (fun i_67 v_68 _ =>
                              match go_Term_Equal right_2 (DA v_68) with
                              | Ok v_71 =>
                                  if v_71 then
                                    Done (Ok (DA (DBool true)))
                                  else
                                    Continue tt
                              | Err e_69 =>
                                  Done (Err e_69)
                              | Panic p_70 => Done (Panic p_70)
                              end) a_65 tt with
                          | Continue _ | Break _ =>
                              Ok (DA (DBool false))
                          | Done r_72 => r_72
                          end
                      end
                  | _ =>
                      Err EIllTyped
                  end
                else
                  if N.eqb v_7 ((5%N (* TermTypeBool *))) then
                    match left_1 with
                    | DSet a_84 =>
                        match right_2 with
                        | DSet a_85 =>
                            match range_loop (R := (res dterm)) (fun i_92 v_93 _ =>
                                match range_loop (R := (res dterm)) (fun i_94 v_95 rhsinlhs_96 =>
                                    match go_TermAtom_Equal v_95 (DA v_93) with
                                    | Ok v_99 =>
                                        if v_99 then
                                          Continue true
                                        else
                                          Continue rhsinlhs_96
                                    | Err e_97 =>
                                        Done (Err e_97)
                                    | Panic p_98 => Done (Panic p_98)
                                    end) a_84 false with
                                | Continue rhsinlhs_100 | Break rhsinlhs_100 =>
                                    if negb rhsinlhs_100 then
                                      Done (Ok (DA (DBool false)))
                                    else
                                      Continue tt
                                | Done r_101 => Done r_101
                                end) a_85 tt with
                            | Continue _ | Break _ =>
                                Ok (DA (DBool true))
                            | Done r_102 => r_102
                            end
                        | _ =>
                            match range_loop (R := (res dterm)) (fun i_86 v_87 _ =>
                                match go_Term_Equal right_2 (DA v_87) with
                                | Ok v_90 =>
                                    if v_90 then
                                      Done (Ok (DA (DBool true)))
                                    else
                                      Continue tt
                                | Err e_88 =>
                                    Done (Err e_88)
                                | Panic p_89 => Done (Panic p_89)
                                end) a_84 tt with
                            | Continue _ | Break _ =>
                                Ok (DA (DBool false))
                            | Done r_91 => r_91
                            end
                        end
                    | _ =>
                        Err EIllTyped
                    end
                  else
                    if N.eqb v_7 ((6%N (* TermTypeSet *))) then
                      match left_1 with
                      | DSet a_103 =>
                          match right_2 with
                          | DSet a_104 =>
                              match range_loop (R := (res dterm)) (fun i_111 v_112 _ =>
                                  match range_loop (R := (res dterm)) (fun i_113 v_114 rhsinlhs_115 =>
                                      match go_TermAtom_Equal v_114 (DA v_112) with
                                      | Ok v_118 =>
                                          if v_118 then
                                            Continue true
                                          else
                                            Continue rhsinlhs_115
                                      | Err e_116 =>
                                          Done (Err e_116)
                                      | Panic p_117 => Done (Panic p_117)
                                      end) a_103 false with
                                  | Continue rhsinlhs_119 | Break rhsinlhs_119 =>
                                      if negb rhsinlhs_119 then
                                        Done (Ok (DA (DBool false)))
                                      else
                                        Continue tt
                                  | Done r_120 => Done r_120
                                  end) a_104 tt with
                              | Continue _ | Break _ =>
                                  Ok (DA (DBool true))
                              | Done r_121 => r_121
                              end
                          | _ =>
                              match range_loop (R := (res dterm)) (fun i_105 v_106 _ =>
                                  match go_Term_Equal right_2 (DA v_106) with
                                  | Ok v_109 =>
                                      if v_109 then
                                        Done (Ok (DA (DBool true)))
                                      else
                                        Continue tt
                                  | Err e_107 =>
                                      Done (Err e_107)
                                  | Panic p_108 => Done (Panic p_108)
                                  end) a_103 tt with
                              | Continue _ | Break _ =>
                                  Ok (DA (DBool false))
                              | Done r_110 => r_110
                              end
                          end
                      | _ =>
                          Err EIllTyped
                      end
                    else
                      match go_Term_Type right_2 with
                      | Ok v_124 =>
                          Err EIllTyped
                      | Err e_122 =>
                          Err e_122
                      | Panic p_123 => Panic p_123
                      end
      | Err e_5 =>
          Err e_5
      | Panic p_6 => Panic p_6
      end
  end.
#[global] Hint Unfold go_Contains_Eval : go_fn.

(* /repo/datalog/datalog.go:77: func Set.Intersect *)
Definition go_Set_Intersect (s_1 : list datom) (t_2 : list datom) : res (list datom) :=
  match range_loop (R := (res (list datom))) (fun i_3 v_4 result_5 =>
      match go_Set_contains t_2 (DA v_4) with
      | Ok v_8 =>
          if v_8 then
            match go_Set_contains result_5 (DA v_4) with
            | Ok v_14 =>
                if negb v_14 then
                  let result_15 := result_5 ++ [v_4] in
                  Continue result_15
                else
                  Continue result_5
            | Err e_12 =>
                Done (Err e_12)
            | Panic p_13 => Done (Panic p_13)
            end
          else
            Continue result_5
      | Err e_6 =>
          Done (Err e_6)
      | Panic p_7 => Done (Panic p_7)
      end) s_1 [] with
  | Continue result_16 | Break result_16 =>
      Ok result_16
  | Done r_17 => r_17
  end.
#[global] Hint Unfold go_Set_Intersect : go_fn.

(* /repo/datalog/expressions.go:538: func Intersection.Eval *)
Definition go_Intersection_Eval (left_1 : dterm) (right_2 : dterm) (unused_4 : table) : res dterm :=
  match left_1 with
  | DSet a_5 =>
      match right_2 with
      | DSet a_6 =>
          match go_Set_Intersect a_5 a_6 with
          | Ok v_9 =>
              Ok (DSet v_9)
          | Err e_7 =>
              Err e_7
          | Panic p_8 => Panic p_8
          end
      | _ =>
          Err EIllTyped
      end
  | _ =>
      Err EIllTyped
  end.
#[global] Hint Unfold go_Intersection_Eval : go_fn.

(* /repo/datalog/datalog.go:87: func Set.Union *)
Definition go_Set_Union (s_1 : list datom) (t_2 : list datom) : res (list datom) :=
  match range_loop (R := (res (list datom))) (fun i_3 v_4 result_5 =>
      match go_Set_contains result_5 (DA v_4) with
      | Ok v_8 =>
          if negb v_8 then
            let result_9 := result_5 ++ [v_4] in
            Continue result_9
          else
            Continue result_5
      | Err e_6 =>
          Done (Err e_6)
      | Panic p_7 => Done (Panic p_7)
      end) s_1 [] with
  | Continue result_10 | Break result_10 =>
      match range_loop (R := (res (list datom))) (fun i_11 v_12 result_13 =>
          match go_Set_contains result_13 (DA v_12) with
          | Ok v_16 =>
              if negb v_16 then
                let result_17 := result_13 ++ [v_12] in
                Continue result_17
              else
                Continue result_13
          | Err e_14 =>
              Done (Err e_14)
          | Panic p_15 => Done (Panic p_15)
          end) t_2 result_10 with
      | Continue result_18 | Break result_18 =>
          Ok result_18
      | Done r_19 => r_19
      end
  | Done r_20 => r_20
  end.
#[global] Hint Unfold go_Set_Union : go_fn.

(* /repo/datalog/expressions.go:558: func Union.Eval *)
Definition go_Union_Eval (left_1 : dterm) (right_2 : dterm) (unused_4 : table) : res dterm :=
  match left_1 with
  | DSet a_5 =>
      match right_2 with
      | DSet a_6 =>
          match go_Set_Union a_5 a_6 with
          | Ok v_9 =>
              Ok (DSet v_9)
          | Err e_7 =>
              Err e_7
          | Panic p_8 => Panic p_8
          end
      | _ =>
          Err EIllTyped
      end
  | _ =>
      Err EIllTyped
  end.
#[global] Hint Unfold go_Union_Eval : go_fn.

