(* Snapshot.v — authorizer snapshots (authorizer.go SerializePolicies / LoadPolicies,
   C18) over an authorizer held as the Go struct holds it: the world's facts and
   rules at the D level (symbol indexes into the authorizer's own table), the
   checks and policies at builder (S) level, the dirty flag.

   AddFact / AddRule intern at once into v.symbols; AddCheck / AddPolicy only
   store.  SerializePolicies interns the checks and the policies' queries NOW
   (the table grows), takes the table AFTER that growth, and writes the world as
   it is.  LoadPolicies replaces the table by base ++ saved symbols, adds the saved
   facts and rules RAW to the world (no re-indexing), and resolves the saved
   checks and policies back to builder level through the new table. *)
From BV Require Import Base Term DTerm Symbols Expr Datalog Authz Wire Token.
From BV Require Generated.
From Coq Require Import String.

Record dauth := {
  da_facts : list dpred;        (* world.facts (FactSet, insertion order) *)
  da_rules : list drule;        (* world.rules *)
  da_syms : table;              (* v.symbols *)
  da_base : table;              (* v.baseSymbols = defaultSymbolTable.Clone(): no extra symbol *)
  da_checks : list check;
  da_policies : list policy;
  da_dirty : bool;
  da_limits : limits }.

Definition dfresh (lim : limits) : dauth :=
  {| da_facts := []; da_rules := []; da_syms := []; da_base := []; da_checks := []; da_policies := [];
     da_dirty := false; da_limits := lim |}.

(* FactSet.Insert at D level *)
Definition dinsert_fact (fs : list dpred) (d : dpred) : list dpred :=
  if dfact_in d fs then fs else fs ++ [d].

Definition d_add_fact (a : dauth) (f : pred) : dauth :=
  let '(t, d) := intern_pred (da_syms a) f in
  {| da_facts := dinsert_fact (da_facts a) d; da_rules := da_rules a; da_syms := t; da_base := da_base a;
     da_checks := da_checks a; da_policies := da_policies a; da_dirty := da_dirty a; da_limits := da_limits a |}.
Definition d_add_rule (a : dauth) (r : rule) : dauth :=
  let '(t, d) := intern_rule (da_syms a) r in
  {| da_facts := da_facts a; da_rules := da_rules a ++ [d]; da_syms := t; da_base := da_base a;
     da_checks := da_checks a; da_policies := da_policies a; da_dirty := da_dirty a; da_limits := da_limits a |}.
Definition d_add_check (a : dauth) (c : check) : dauth :=
  {| da_facts := da_facts a; da_rules := da_rules a; da_syms := da_syms a; da_base := da_base a;
     da_checks := da_checks a ++ [c]; da_policies := da_policies a; da_dirty := da_dirty a; da_limits := da_limits a |}.
Definition d_add_policy (a : dauth) (p : policy) : dauth :=
  {| da_facts := da_facts a; da_rules := da_rules a; da_syms := da_syms a; da_base := da_base a;
     da_checks := da_checks a; da_policies := da_policies a ++ [p]; da_dirty := da_dirty a; da_limits := da_limits a |}.

(* the S-level authorizer this one stands for: the world read through the table *)
Definition sem (a : dauth) : astate :=
  {| a_facts := map (resolve_pred (da_syms a)) (da_facts a);
     a_rules := map (resolve_rule (da_syms a)) (da_rules a);
     a_checks := da_checks a; a_policies := da_policies a;
     a_dirty := da_dirty a; a_limits := da_limits a |}.

(* ---------- policy kinds: the two switches, over the generated enum ---------- *)
Definition kind_allow : option N := pb_const_number Generated.pb_policy_kinds "pb.Policy_Allow".
Definition kind_deny : option N := pb_const_number Generated.pb_policy_kinds "pb.Policy_Deny".
Definition pkind_to_pb (k : pkind) : option N :=
  match k with Allow => kind_allow | Deny => kind_deny end.
(* switch *pbPolicy.Kind { case pb.Policy_Allow: ...; case pb.Policy_Deny: ...; default: error } *)
Definition pb_to_pkind (n : N) : option pkind :=
  if match kind_allow with Some a => n =? a | None => false end then Some Allow
  else if match kind_deny with Some d => n =? d | None => false end then Some Deny
  else None.

(* ---------- SerializePolicies ---------- *)
Fixpoint intern_checks (t : table) (cs : list check) : table * list dcheck :=
  match cs with
  | [] => (t, [])
  | c :: cs' => let '(t1, d) := intern_check t c in
                let '(t2, ds) := intern_checks t1 cs' in (t2, d :: ds)
  end.
Definition intern_policy (t : table) (p : policy) : table * (pkind * list drule) :=
  let '(t', qs) := intern_rules t (pol_queries p) in (t', (pol_kind p, qs)).
Fixpoint intern_policies (t : table) (ps : list policy) : table * list (pkind * list drule) :=
  match ps with
  | [] => (t, [])
  | p :: ps' => let '(t1, d) := intern_policy t p in
                let '(t2, ds) := intern_policies t1 ps' in (t2, d :: ds)
  end.

Definition policy_to_pb (p : pkind * list drule) : res (N * list drule) :=
  match pkind_to_pb (fst p) with Some k => Ok (k, snd p) | None => Err EConvert end.

(* what is written: world as it is, checks then policies interned in order, table last *)
Definition snapshot_of (a : dauth) : res policies :=
  let '(t1, dchecks) := intern_checks (da_syms a) (da_checks a) in
  let '(t2, dpols) := intern_policies t1 (da_policies a) in
  do pols <- mapM policy_to_pb dpols;
  Ok {| ap_symbols := t2; ap_version := Some Generated.max_schema_version;
        ap_facts := da_facts a; ap_rules := da_rules a; ap_checks := dchecks; ap_policies := pols |}.

Definition save (a : dauth) : res bytes :=
  if da_dirty a then Err EDirty else
  do p <- snapshot_of a; enc_policies p.

(* check.convert(v.symbols) writes into the authorizer's own table: after a
   successful save the table has grown by the checks' and policies' symbols (after
   a failed one, by a prefix of that growth); nothing else changes *)
Definition save_state (a : dauth) : dauth :=
  if da_dirty a then a else
  let '(t1, _) := intern_checks (da_syms a) (da_checks a) in
  let '(t2, _) := intern_policies t1 (da_policies a) in
  {| da_facts := da_facts a; da_rules := da_rules a; da_syms := t2; da_base := da_base a;
     da_checks := da_checks a; da_policies := da_policies a; da_dirty := da_dirty a; da_limits := da_limits a |}.

(* ---------- LoadPolicies ---------- *)
Definition load_policy (t : table) (p : ppolicy) : res policy :=
  match ppo_kind p with
  | None => Panic 3                       (* *pbPolicy.Kind on a nil pointer *)
  | Some k =>
      match pb_to_pkind k with
      | None => Err EConvert              (* "unsupported proto policy kind" *)
      | Some kind =>
          do qs <- mapM conv_rule (ppo_queries p);
          Ok {| pol_kind := kind; pol_queries := map (resolve_rule t) qs |}
      end
  end.

Definition load (a : dauth) (bs : bytes) : res dauth :=
  do pa <- parse_policies bs;
  let v := match pa_version pa with Some v => v | None => 0 end in     (* GetVersion() *)
  if negb (v =? 3) then Err EVersion else
  let syms := sym_extend (da_base a) (pa_symbols pa) in
  do facts <- mapM conv_fact (pa_facts pa);
  do rules <- mapM conv_rule (pa_rules pa);
  do checks <- mapM conv_check (pa_checks pa);
  do pols <- mapM (load_policy syms) (pa_policies pa);
  Ok {| da_facts := fold_left dinsert_fact facts (da_facts a);
        da_rules := da_rules a ++ rules;
        da_syms := syms; da_base := da_base a;
        da_checks := map (resolve_check syms) checks;
        da_policies := pols;
        da_dirty := da_dirty a; da_limits := da_limits a |}.
(* On an error LoadPolicies returns in the middle: the table is already replaced
   and the facts and rules converted so far are already in the world.  [load]
   reports the error only. *)

(* ---------- evaluation, as far as snapshots are concerned ----------
   Authorize and Query run the S-level model on [sem a]; the resulting world is
   put back at the D level by interning it (the real code keeps indexes all along;
   which indexes the new strings get is not observable: saving is refused). *)
Definition d_reintern (a : dauth) (s : astate) : dauth :=
  let '(t1, fs) := intern_preds (da_syms a) (a_facts s) in
  let '(t2, rs) := intern_rules t1 (a_rules s) in
  {| da_facts := fs; da_rules := rs; da_syms := t2; da_base := da_base a;
     da_checks := a_checks s; da_policies := a_policies s; da_dirty := a_dirty s; da_limits := a_limits s |}.

Section Eval.
  Variable rx : bytes -> bytes -> option bool.
  Variable tok : list block.

  Definition d_authorize (a : dauth) : dauth * verdict :=
    let '(s, v) := authorize rx tok (sem a) in (d_reintern a s, v).
  Definition d_query (a : dauth) (q : rule) : dauth * res (list pred) :=
    let '(s, r) := query rx (sem a) q in (d_reintern a s, r).
  Definition d_reset (a : dauth) : dauth :=
    {| da_facts := []; da_rules := []; da_syms := da_base a; da_base := da_base a; da_checks := [];
       da_policies := []; da_dirty := false; da_limits := da_limits a |}.

  Inductive dhop :=
  | DAddFact (f : pred) | DAddRule (r : rule) | DAddCheck (c : check) | DAddPolicy (p : policy)
  | DAuthorize | DQuery (q : rule) | DReset | DSave.

  Definition dhstep (a : dauth) (o : dhop) : dauth :=
    match o with
    | DAddFact f => d_add_fact a f
    | DAddRule r => d_add_rule a r
    | DAddCheck c => d_add_check a c
    | DAddPolicy p => d_add_policy a p
    | DAuthorize => fst (d_authorize a)
    | DQuery q => fst (d_query a q)
    | DReset => d_reset a
    | DSave => save_state a
    end.
  Definition dhrun (a : dauth) (ops : list dhop) : dauth := fold_left dhstep ops a.
End Eval.
