(* Base.v — shared vocabulary of the biscuit-go model.
   Bytes are N in 0..255, strings are byte lists (Go's len/HasPrefix/Contains
   are byte-level).  Every modelled Go operation returns [res]: a value, a
   classified error, or an explicit Panic outcome. *)
From Coq Require Export List NArith ZArith Bool Lia.
Export ListNotations.
Open Scope N_scope.

Definition bytes := list N.

(* error classes, one small enum for the whole model *)
Inductive err :=
| EEntropy            (* random source failed / ran dry *)
| EInvalidKeySize
| EInvalidSigSize
| EInvalidSignature
| EInvalidLastSig     (* "biscuit: invalid last signature" *)
| ENoProof            (* "biscuit: cannot find proof" *)
| EUnsupportedAlg
| ESealed
| ENoPublicKey
| ESymbolOverlap
| EWire               (* protobuf decoding failed *)
| EVersion            (* unsupported block schema version *)
| EConvert            (* proto <-> datalog conversion refused *)
| EDivZero
| EOverflow
| EIllTyped           (* ill-typed operands / malformed operator sequence *)
| EUnknownVar
| ERegex
| EMaxFacts
| EMaxIterations
| EInvalidRule
| EDirty
| EDuplicateFact
| EParse
| EMissingSymbols     (* a block uses a symbol index that no block has declared *)
| EOther.

Inductive res (A : Type) :=
| Ok (a : A)
| Err (e : err)
| Panic (site : N).
Arguments Ok {A} a.
Arguments Err {A} e.
Arguments Panic {A} site.

Definition bind {A B} (r : res A) (f : A -> res B) : res B :=
  match r with Ok a => f a | Err e => Err e | Panic s => Panic s end.
Notation "'do' x <- r ; k" := (bind r (fun x => k))
  (at level 200, x name, r at level 100, k at level 200).

Definition is_ok {A} (r : res A) : bool := match r with Ok _ => true | _ => false end.
Definition is_panic {A} (r : res A) : bool := match r with Panic _ => true | _ => false end.

Definition err_eqb (a b : err) : bool :=
  match a, b with
  | EEntropy, EEntropy | EInvalidKeySize, EInvalidKeySize | EInvalidSigSize, EInvalidSigSize
  | EInvalidSignature, EInvalidSignature | EInvalidLastSig, EInvalidLastSig | ENoProof, ENoProof
  | EUnsupportedAlg, EUnsupportedAlg | ESealed, ESealed | ENoPublicKey, ENoPublicKey
  | ESymbolOverlap, ESymbolOverlap | EWire, EWire | EVersion, EVersion | EConvert, EConvert
  | EDivZero, EDivZero | EOverflow, EOverflow | EIllTyped, EIllTyped | EUnknownVar, EUnknownVar
  | ERegex, ERegex | EMaxFacts, EMaxFacts | EMaxIterations, EMaxIterations
  | EInvalidRule, EInvalidRule | EDirty, EDirty | EDuplicateFact, EDuplicateFact
  | EParse, EParse | EMissingSymbols, EMissingSymbols | EOther, EOther => true
  | _, _ => false
  end.

(* byte-list equality *)
Fixpoint bytes_eqb (a b : bytes) : bool :=
  match a, b with
  | [], [] => true
  | x :: a', y :: b' => N.eqb x y && bytes_eqb a' b'
  | _, _ => false
  end.

Lemma bytes_eqb_eq a b : bytes_eqb a b = true <-> a = b.
Proof.
  revert b; induction a as [|x a IH]; intros [|y b]; simpl; split; intro H;
    try discriminate; try reflexivity.
  - apply andb_true_iff in H as [H1 H2]. apply N.eqb_eq in H1. apply IH in H2. congruence.
  - inversion H; subst. rewrite N.eqb_refl. simpl. apply IH. reflexivity.
Qed.

Lemma bytes_eqb_refl a : bytes_eqb a a = true.
Proof. apply bytes_eqb_eq. reflexivity. Qed.

(* little-endian 32-bit encoding, as binary.LittleEndian.PutUint32 *)
Definition le32 (n : N) : bytes :=
  [ n mod 256; (n / 256) mod 256; (n / 65536) mod 256; (n / 16777216) mod 256 ].

Lemma le32_length n : length (le32 n) = 4%nat.
Proof. reflexivity. Qed.

(* generic list helpers *)
Fixpoint list_eqb {A} (eqb : A -> A -> bool) (a b : list A) : bool :=
  match a, b with
  | [], [] => true
  | x :: a', y :: b' => eqb x y && list_eqb eqb a' b'
  | _, _ => false
  end.

Definition option_eqb {A} (eqb : A -> A -> bool) (a b : option A) : bool :=
  match a, b with
  | None, None => true
  | Some x, Some y => eqb x y
  | _, _ => false
  end.

Fixpoint index_of {A} (eqb : A -> A -> bool) (x : A) (l : list A) (i : N) : option N :=
  match l with
  | [] => None
  | y :: l' => if eqb x y then Some i else index_of eqb x l' (i + 1)
  end.

Fixpoint nthN {A} (l : list A) (i : N) : option A :=
  match l with
  | [] => None
  | x :: l' => if N.eqb i 0 then Some x else nthN l' (i - 1)
  end.

Fixpoint lenN {A} (l : list A) : N :=
  match l with [] => 0 | _ :: l' => 1 + lenN l' end.

Lemma lenN_length {A} (l : list A) : lenN l = N.of_nat (length l).
Proof. induction l as [|x l IH]; [reflexivity|]. cbn [lenN length]. rewrite IH. lia. Qed.

(* indexes of mismatching cases, for the correspondence files *)
Fixpoint mismatches_from {A} (ok : A -> bool) (l : list A) (i : N) : list N :=
  match l with
  | [] => []
  | c :: l' => if ok c then mismatches_from ok l' (i + 1) else i :: mismatches_from ok l' (i + 1)
  end.
Definition mismatches {A} (ok : A -> bool) (l : list A) : list N := mismatches_from ok l 0.
