(* Corr.v — executable glue for the correspondence check: oracle tables that
   instantiate the Section variables standing for external libraries, the
   observation types the harness prints, and one [.._ok] predicate per case
   family comparing the model's prediction with what the implementation did. *)
From BV Require Import Base Chain.

(* ---------- oracle tables (computed by the harness with crypto/ed25519) ---------- *)
Fixpoint opub (t : list (bytes * bytes)) (s : bytes) : bytes :=
  match t with
  | [] => []        (* a miss yields a value that cannot agree with the implementation *)
  | (s', p) :: t' => if bytes_eqb s s' then p else opub t' s
  end.
Fixpoint osign (t : list (bytes * bytes * bytes)) (s m : bytes) : bytes :=
  match t with
  | [] => []
  | (s', m', g) :: t' => if bytes_eqb s s' && bytes_eqb m m' then g else osign t' s m
  end.
Fixpoint overify (t : list (bytes * bytes * bytes * bool)) (k m g : bytes) : bool :=
  match t with
  | [] => false
  | (k', m', g', r) :: t' =>
      if bytes_eqb k k' && bytes_eqb m m' && bytes_eqb g g' then r else overify t' k m g
  end.
(* did the model ask for a triple the harness did not provide? *)
Fixpoint overify_known (t : list (bytes * bytes * bytes * bool)) (k m g : bytes) : bool :=
  match t with
  | [] => false
  | (k', m', g', _) :: t' =>
      (bytes_eqb k k' && bytes_eqb m m' && bytes_eqb g g') || overify_known t' k m g
  end.

(* ---------- observations ---------- *)
Inductive obs (A : Type) := OOk (a : A) | OErr (e : err) | OPanic.
Arguments OOk {A} a.
Arguments OErr {A} e.
Arguments OPanic {A}.

Definition obs_match {A} (eqb : A -> A -> bool) (r : res A) (o : obs A) : bool :=
  match r, o with
  | Ok a, OOk b => eqb a b
  | Err e, OErr e' => err_eqb e e'
  | Panic _, OPanic => true
  | _, _ => false
  end.

(* ---------- chain operations (C01, C09, C16, C17, C20) ---------- *)
Inductive chain_op :=
| OpBuild (root_seed : bytes) (rid : option N) (blk : bytes)
| OpAppend (parent : container) (blk : bytes)
| OpSeal (parent : container).

Record chain_case := {
  cc_op : chain_op;
  cc_src : bytes;                  (* the bytes the random source delivers before failing *)
  cc_obs : obs container }.

Definition chain_run pubt signt (c : chain_case) : res container :=
  let pub := opub pubt in
  let sign := osign signt in
  match cc_op c with
  | OpBuild rs rid blk => do r <- build pub sign rs rid blk (cc_src c); Ok (fst r)
  | OpAppend p blk => do r <- append pub sign p blk (cc_src c); Ok (fst r)
  | OpSeal p => seal sign p
  end.

Definition chain_ok pubt signt (c : chain_case) : bool :=
  obs_match container_eqb (chain_run pubt signt c) (cc_obs c).

(* verification cases: a container (possibly mutated), a key source, the class observed *)
Record verify_case := {
  vc_keys : keysource;
  vc_cont : container;
  vc_obs : obs unit }.

Definition verify_ok pubt vert (c : verify_case) : bool :=
  obs_match (fun _ _ => true)
    (do _ <- container_sizes (vc_cont c);
     authorizer_for (opub pubt) (overify vert) (vc_keys c) (vc_cont c))
    (vc_obs c).

(* ---------- expressions (C06) ---------- *)
From BV Require Import Term Expr.

Fixpoint orx (t : list (bytes * bytes * option bool)) (pat subj : bytes) : option bool :=
  match t with
  | [] => None
  | (p, s, r) :: t' => if bytes_eqb p pat && bytes_eqb s subj then r else orx t' pat subj
  end.

Definition to_obs {A} (r : res A) : obs A :=
  match r with Ok a => OOk a | Err e => OErr e | Panic _ => OPanic end.
Definition obs_eqb {A} (eqb : A -> A -> bool) (a b : obs A) : bool :=
  match a, b with
  | OOk x, OOk y => eqb x y
  | OErr e, OErr f => err_eqb e f
  | OPanic, OPanic => true
  | _, _ => false
  end.
Notation eI := (OErr EIllTyped).
Notation bT := (OOk (TA (ABool true))).
Notation bF := (OOk (TA (ABool false))).

Definition bin_row_ok rx (panel : list term) (row : binop * N * list (obs term)) : bool :=
  let '(o, i, obsl) := row in
  match nthN panel i with
  | Some l => list_eqb (obs_eqb term_seqb) (map (fun r => to_obs (eval_binary rx o l r)) panel) obsl
  | None => false
  end.
Definition un_row_ok (rx : bytes -> bytes -> option bool) (panel : list term) (row : unop * list (obs term)) : bool :=
  let '(u, obsl) := row in
  list_eqb (obs_eqb term_seqb) (map (fun v => to_obs (eval_unary u v)) panel) obsl.

Record expr_case := { ec_ops : expr; ec_bind : bindings; ec_obs : obs term }.
Definition expr_ok rx (c : expr_case) : bool :=
  obs_eqb term_seqb (to_obs (eval rx (ec_ops c) (ec_bind c))) (ec_obs c).

(* ---------- Datalog programs (C05, C11a) ---------- *)
From BV Require Import Datalog.

Record dl_case := {
  dc_facts : list pred; dc_rules : list rule; dc_limits : limits; dc_queries : list rule;
  dc_obs_facts : list pred; dc_obs_err : option err; dc_obs_queries : list (list pred) }.

Definition dl_ok rx (c : dl_case) : bool :=
  let '(fs, e) := run rx (dc_limits c) (dc_rules c) (fold_left insert_fact (dc_facts c) []) in
  list_eqb pred_seqb fs (dc_obs_facts c) && option_eqb err_eqb e (dc_obs_err c) &&
  list_eqb (list_eqb pred_seqb) (map (fun q => query_rule rx q fs) (dc_queries c)) (dc_obs_queries c).

(* ---------- authorizer histories (C02, C03, C04, C11, C12, C13) ---------- *)
From BV Require Import Authz.

Inductive aobs :=
| AONone
| AOVerdict (v : verdict) (world : list pred)   (* verdict and the world's facts afterwards, in order *)
| AOQuery (r : obs (list pred)).

Fixpoint atrace_full rx (tok : list block) (ops : list aop) (a : astate) : list aobs :=
  match ops with
  | [] => []
  | o :: ops' =>
      let a' := astep rx tok a o in
      (match o with
       | OAuthorize => AOVerdict (snd (authorize rx tok a)) (a_facts a')
       | OQuery q => AOQuery (to_obs (snd (query rx a q)))
       | _ => AONone
       end) :: atrace_full rx tok ops' a'
  end.

Definition aobs_eqb (a b : aobs) : bool :=
  match a, b with
  | AONone, AONone => true
  | AOVerdict v w, AOVerdict v' w' => verdict_eqb v v' && list_eqb pred_seqb w w'
  | AOQuery r, AOQuery r' => obs_eqb (list_eqb pred_seqb) r r'
  | _, _ => false
  end.

Record authz_case := {
  az_token : list block; az_limits : limits; az_ops : list aop; az_obs : list aobs }.

Definition authz_ok rx (c : authz_case) : bool :=
  list_eqb aobs_eqb (atrace_full rx (az_token c) (az_ops c) (fresh (az_limits c))) (az_obs c).

(* ---------- token histories (C07, C08) ---------- *)
From BV Require Import DTerm Symbols Wire Token History.

Definition token_eqb (a b : token) : bool :=
  dblock_seqb (tk_authority a) (tk_authority b) && list_eqb dblock_seqb (tk_blocks a) (tk_blocks b) &&
  list_eqb bytes_eqb (tk_symbols a) (tk_symbols b) && container_eqb (tk_container a) (tk_container b).

Definition hout_eqb (a b : hout) : bool :=
  match a, b with
  | HDone, HDone | HPanicked, HPanicked | HBad, HBad => true
  | HFail e, HFail f => err_eqb e f
  | HIndex i, HIndex j => option_eqb Nat.eqb i j
  | _, _ => false
  end.

Record hist_case := {
  hc_seed : bytes; hc_ops : list hop; hc_outs : list hout;
  hc_tokens : list token; hc_blocks : list dblock; hc_bytes : list bytes }.

Definition hist_ok pubt signt (c : hist_case) : bool :=
  let '(s, outs) := hrun (opub pubt) (osign signt) (hc_seed c) hinit (hc_ops c) in
  list_eqb hout_eqb outs (hc_outs c) &&
  list_eqb token_eqb (hs_tokens s) (hc_tokens c) &&
  list_eqb dblock_seqb (hs_blocks s) (hc_blocks c) &&
  list_eqb bytes_eqb (map tk_serialize (hs_tokens s)) (hc_bytes c).

(* which part disagrees, for diagnosis *)
Definition hist_diag pubt signt (c : hist_case) : list bool :=
  let '(s, outs) := hrun (opub pubt) (osign signt) (hc_seed c) hinit (hc_ops c) in
  [list_eqb hout_eqb outs (hc_outs c);
   list_eqb token_eqb (hs_tokens s) (hc_tokens c);
   list_eqb dblock_seqb (hs_blocks s) (hc_blocks c);
   list_eqb bytes_eqb (map tk_serialize (hs_tokens s)) (hc_bytes c)].

(* ---------- the whole pipeline on untrusted bytes (C10) ---------- *)
Inductive pstage := POk | PErr (e : err) | PSkip.
Definition pstage_eqb (a b : pstage) : bool :=
  match a, b with
  | POk, POk | PSkip, PSkip => true
  | PErr e, PErr f => err_eqb e f
  | _, _ => false
  end.
Definition stage_of {A} (r : res A) : pstage :=
  match r with Ok _ => POk | Err e => PErr e | Panic _ => PErr EOther end.

Record pipe_case := {
  pc_bytes : bytes; pc_root : bytes;
  pc_unmarshal : pstage; pc_verify : pstage;
  pc_verdict : option verdict; pc_world : list pred; pc_query : option (obs (list pred));
  (* what Go's regexp answered for the (pattern, subject) pairs this token can evaluate *)
  pc_rx : list (bytes * bytes * option bool) }.

Definition default_limits : limits :=
  {| max_facts := Generated.default_max_facts; max_iterations := Generated.default_max_iterations |}.

Definition pipe_ok pubt vert (panel : list aop) (c : pipe_case) : bool :=
  match tk_unmarshal (pc_bytes c) with
  | Ok t =>
      pstage_eqb POk (pc_unmarshal c) &&
      (match tk_verify (opub pubt) (overify vert) (KSingular (pc_root c)) t with
       | Ok _ =>
           pstage_eqb POk (pc_verify c) &&
           (let tr := atrace_full (orx (pc_rx c)) (resolve_token t) panel
                        (fresh {| max_facts := 1000; max_iterations := 100 |}) in
            let vs := filter (fun o => match o with AOVerdict _ _ => true | _ => false end) tr in
            let qs := filter (fun o => match o with AOQuery _ => true | _ => false end) tr in
            (match vs, pc_verdict c with
             | AOVerdict v w :: _, Some v' => verdict_eqb v v' && list_eqb pred_seqb w (pc_world c)
             | _, None => true   (* evaluation outcome not compared for this case (see the harness) *)
             | _, _ => false
             end) &&
            (match qs, pc_query c with
             | AOQuery r :: _, Some r' => obs_eqb (list_eqb pred_seqb) r r'
             | _, None => true
             | _, _ => false
             end))
       | r => pstage_eqb (stage_of r) (pc_verify c)
       end)
  | r => pstage_eqb (stage_of r) (pc_unmarshal c)
  end.
