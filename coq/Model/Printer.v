(* Printer.v — the Datalog printers, over S-level values (Term.v), as the Go
   code prints D-level values resolved through a symbol table:
   datalog/symbol.go SymbolDebugger.Predicate / Rule / CheckQuery / Check,
   datalog/expressions.go Expression.Print (a string stack machine driven by
   the format strings of UnaryOp.Print / BinaryOp.Print — taken from
   Generated.dl_unary_print / dl_binary_print), datalog/datalog.go String()
   methods (Set.String sorts the printed elements), types.go Block.Code and
   Block.String.

   A string or variable that is an element of a set is printed by its symbol
   INDEX ("#1024", "$7"): the printers take [sidx : bytes -> N], the index of a
   name in the symbol table in use. *)
From BV Require Import Base Term Lexer Parser.
From BV Require Generated.
From Coq Require Import String Ascii.

(* ---------- small string utilities ---------- *)
Fixpoint join (sep : bytes) (l : list bytes) : bytes :=
  match l with
  | [] => []
  | [x] => x
  | x :: l' => x ++ sep ++ join sep l'
  end.

(* bytewise a <= b, the order of sort.Strings *)
Fixpoint bytes_leb (a b : bytes) : bool :=
  match a, b with
  | [], _ => true
  | _ :: _, [] => false
  | x :: a', y :: b' => if x <? y then true else if y <? x then false else bytes_leb a' b'
  end.
Fixpoint insert_sorted (x : bytes) (l : list bytes) : list bytes :=
  match l with
  | [] => [x]
  | y :: l' => if bytes_leb x y then x :: l else y :: insert_sorted x l'
  end.
Definition sort_strings (l : list bytes) : list bytes := fold_right insert_sorted [] l.

Definition hex_digit (n : N) : N := if n <? 10 then 48 + n else 87 + n.
(* hex.EncodeToString *)
Fixpoint hex_encode (b : bytes) : bytes :=
  match b with
  | [] => []
  | c :: b' => hex_digit (c / 16) :: hex_digit (c mod 16) :: hex_encode b'
  end.

Definition S_comma_sp : bytes := [44; 32].
Definition S_true : bytes := Eval compute in bs "true".
Definition S_false : bytes := Eval compute in bs "false".
Definition S_hex : bytes := Eval compute in bs "hex:".
Definition S_arrow : bytes := Eval compute in bs " <- ".
Definition S_check_if : bytes := Eval compute in bs "check if ".
Definition S_or : bytes := Eval compute in bs " or ".
Definition S_semi_nl : bytes := [59; 10].
Definition S_semi : bytes := [59].

(* uint64 -> int64 *)
Definition to_int64 (n : N) : Z :=
  let z := Z.of_N n in if (z <? 9223372036854775808)%Z then z else (z - two64)%Z.

(* ---------- format strings ---------- *)
Definition unop_name (u : unop) : string :=
  match u with UNegate => "UnaryNegate" | UParens => "UnaryParens" | ULength => "UnaryLength" end.
Definition binop_name (b : binop) : string :=
  match b with
  | BLessThan => "BinaryLessThan" | BLessOrEqual => "BinaryLessOrEqual"
  | BGreaterThan => "BinaryGreaterThan" | BGreaterOrEqual => "BinaryGreaterOrEqual"
  | BEqual => "BinaryEqual" | BContains => "BinaryContains" | BPrefix => "BinaryPrefix"
  | BSuffix => "BinarySuffix" | BRegex => "BinaryRegex" | BAdd => "BinaryAdd" | BSub => "BinarySub"
  | BMul => "BinaryMul" | BDiv => "BinaryDiv" | BAnd => "BinaryAnd" | BOr => "BinaryOr"
  | BIntersection => "BinaryIntersection" | BUnion => "BinaryUnion"
  end.

Fixpoint assoc_fmt (tbl : list (string * string)) (name : string) : option bytes :=
  match tbl with
  | [] => None
  | (k, v) :: tbl' => if String.eqb k name then Some (bs v) else assoc_fmt tbl' name
  end.

(* the default arms of the Print switches *)
Definition fmt_unknown1 : bytes := Eval compute in bs "unknown(%s)".
Definition fmt_unknown2 : bytes := Eval compute in bs "unknown(%s, %s)".

Definition unop_fmt (u : unop) : bytes :=
  match assoc_fmt Generated.dl_unary_print (unop_name u) with Some f => f | None => fmt_unknown1 end.
Definition binop_fmt (b : binop) : bytes :=
  match assoc_fmt Generated.dl_binary_print (binop_name b) with Some f => f | None => fmt_unknown2 end.

(* the tables, computed once from Generated *)
Definition fmt_negate : bytes := Eval vm_compute in unop_fmt UNegate.
Definition fmt_parens : bytes := Eval vm_compute in unop_fmt UParens.
Definition fmt_length : bytes := Eval vm_compute in unop_fmt ULength.
Definition unop_fmt_c (u : unop) : bytes :=
  match u with UNegate => fmt_negate | UParens => fmt_parens | ULength => fmt_length end.
Definition binop_fmt_tbl : list bytes := Eval vm_compute in
  List.map binop_fmt [BLessThan; BLessOrEqual; BGreaterThan; BGreaterOrEqual; BEqual; BContains;
                 BPrefix; BSuffix; BRegex; BAdd; BSub; BMul; BDiv; BAnd; BOr; BIntersection; BUnion].
Definition binop_index (b : binop) : nat :=
  match b with
  | BLessThan => 0 | BLessOrEqual => 1 | BGreaterThan => 2 | BGreaterOrEqual => 3 | BEqual => 4
  | BContains => 5 | BPrefix => 6 | BSuffix => 7 | BRegex => 8 | BAdd => 9 | BSub => 10
  | BMul => 11 | BDiv => 12 | BAnd => 13 | BOr => 14 | BIntersection => 15 | BUnion => 16
  end%nat.
Definition binop_fmt_c (b : binop) : bytes := nth (binop_index b) binop_fmt_tbl fmt_unknown2.

(* fmt.Sprintf with %s verbs only *)
Fixpoint apply_fmt (f : bytes) (args : list bytes) : bytes :=
  match f with
  | 37 :: ((115 :: f') as f1) =>
      match args with
      | a :: args' => a ++ apply_fmt f' args'
      | [] => 37 :: apply_fmt f1 args
      end
  | c :: f' => c :: apply_fmt f' args
  | [] => []
  end.

Definition print_unop (u : unop) (v : bytes) : bytes := apply_fmt (unop_fmt_c u) [v].
Definition print_binop (b : binop) (l r : bytes) : bytes := apply_fmt (binop_fmt_c b) [l; r].

(* ---------- error strings of Expression.Print ---------- *)
Definition E_overflow : bytes := Eval compute in bs "<invalid expression: stack overflow>".
Definition E_unary_pop : bytes :=
  Eval compute in bs "<invalid expression: unary operation failed to pop value>".
Definition E_bin_right : bytes :=
  Eval compute in bs "<invalid expression: binary operation failed to pop right value>".
Definition E_bin_left : bytes :=
  Eval compute in bs "<invalid expression: binary operation failed to pop left value>".
Definition E_result : bytes := Eval compute in bs "<invalid expression: invalid resulting stack>".

Section Print.
  Variable sidx : bytes -> N.

  (* Term.String() of datalog.go *)
  Definition atom_string (a : atom) : bytes :=
    match a with
    | AVar v => 36 :: dec_of_N (sidx v)
    | AInt z => dec_of_Z z
    | AStr s => 35 :: dec_of_N (sidx s)
    | ADate d => fmt_rfc3339 (to_int64 d)
    | ABytes b => S_hex ++ hex_encode b
    | ABool b => if b then S_true else S_false
    end.
  Definition term_string (t : term) : bytes :=
    match t with
    | TA a => atom_string a
    | TSet l => 91 :: join S_comma_sp (sort_strings (List.map atom_string l)) ++ [93]
    end.
  (* a term at the top level of a predicate or an expression: strings and
     variables are resolved and printed by content *)
  Definition print_term (t : term) : bytes :=
    match t with
    | TA (AStr s) => 34 :: s ++ [34]
    | TA (AVar v) => 36 :: v
    | _ => term_string t
    end.

  (* SymbolDebugger.Predicate *)
  Definition print_pred (p : pred) : bytes :=
    p_name p ++ [40] ++ join S_comma_sp (List.map print_term (p_terms p)) ++ [41].

  (* Expression.Print: [st] is the string stack (top first), [n] its size *)
  Fixpoint print_ops (e : expr) (st : list bytes) (n : N) : bytes :=
    match e with
    | [] => match st with [v] => v | _ => E_result end
    | OVal t :: e' =>
        if Generated.max_stack <=? n then E_overflow else print_ops e' (print_term t :: st) (n + 1)
    | OUn u :: e' =>
        match st with
        | v :: st' =>
            if Generated.max_stack <=? n - 1 then E_overflow
            else print_ops e' (print_unop u v :: st') n
        | [] => E_unary_pop
        end
    | OBin b :: e' =>
        match st with
        | r :: l :: st' =>
            if Generated.max_stack <=? n - 2 then E_overflow
            else print_ops e' (print_binop b l r :: st') (n - 1)
        | [_] => E_bin_left
        | [] => E_bin_right
        end
    end.
  Definition print_expr (e : expr) : bytes := print_ops e [] 0.

  (* the common part of SymbolDebugger.Rule / CheckQuery *)
  Definition print_body (r : rule) : bytes :=
    let preds := List.map print_pred (r_body r) in
    let exprs := List.map print_expr (r_exprs r) in
    join S_comma_sp preds
    ++ (match preds, exprs with _ :: _, _ :: _ => S_comma_sp | _, _ => [] end)
    ++ join S_comma_sp exprs.
  Definition print_rule (r : rule) : bytes := print_pred (r_head r) ++ S_arrow ++ print_body r.
  Definition print_check_query (r : rule) : bytes := print_body r.
  Definition print_check (c : check) : bytes :=
    S_check_if ++ join S_or (List.map print_check_query c).

  (* the three sections Block.Code prints *)
  Record printed := { pr_facts : list bytes; pr_rules : list bytes; pr_checks : list bytes }.
  Definition print_block (b : block) : printed :=
    {| pr_facts := List.map print_pred (b_facts b);
       pr_rules := List.map print_rule (b_rules b);
       pr_checks := List.map print_check (b_checks b) |}.

  Definition S_block_open : bytes := [66; 108; 111; 99; 107; 32; 123; 10; 9; 9].   (* "Block {\n\t\t" *)
  Definition S_nl_tt : bytes := [10; 9; 9].
  Definition S_block_close : bytes := [10; 9; 125].                                (* "\n\t}" *)
  (* Block.Code *)
  Definition block_code (b : block) : bytes :=
    let p := print_block b in
    S_block_open ++ join S_semi_nl (pr_facts p) ++ S_nl_tt ++ join S_semi_nl (pr_rules p)
      ++ S_nl_tt ++ join S_semi_nl (pr_checks p) ++ S_block_close.

  (* strconv.Quote on the model's domain (printable ASCII and \t \n \r) *)
  Fixpoint go_quote_body (s : bytes) : bytes :=
    match s with
    | [] => []
    | c :: s' =>
        (if c =? 34 then [92; 34] else if c =? 92 then [92; 92] else if c =? 10 then [92; 110]
         else if c =? 9 then [92; 116] else if c =? 13 then [92; 114] else [c]) ++ go_quote_body s'
    end.
  Definition go_quote (s : bytes) : bytes := 34 :: go_quote_body s ++ [34].
  (* %v of a []string *)
  Definition go_list (l : list bytes) : bytes := 91 :: join [32] l ++ [93].

  (* Block.String, given the block's own symbols, context and version *)
  Definition block_string (syms : list bytes) (ctx : bytes) (version : N) (b : block) : bytes :=
    let p := print_block b in
    S_block_open ++ bs "symbols: " ++ go_list (List.map go_quote syms)
      ++ S_nl_tt ++ bs "context: " ++ go_quote ctx
      ++ S_nl_tt ++ bs "facts: " ++ go_list (pr_facts p)
      ++ S_nl_tt ++ bs "rules: " ++ go_list (pr_rules p)
      ++ S_nl_tt ++ bs "checks: [" ++ join S_comma_sp (pr_checks p) ++ [93]
      ++ S_nl_tt ++ bs "version: " ++ dec_of_N version ++ S_block_close.
End Print.

(* the printed facts, rules and checks as one source text for Parser.parse_block *)
Definition reassemble (p : printed) : bytes :=
  List.concat (List.map (fun s => s ++ S_semi) (pr_facts p ++ pr_rules p ++ pr_checks p)).
