(* Term.v — Datalog terms, predicates, rules at the "S level": string terms and
   variable/predicate names carry their *contents* (byte strings), not symbol
   indexes.  The symbol-index ("D level") representation lives in Symbols.v /
   Convert.v and is related to this one by resolution through a table.

   Two-level terms (DESIGN.md A.5): atoms, and sets of atoms.  Sets are lists:
   a set literal is kept as written (repetitions included, not sorted); the
   set operators return each element once. *)
From BV Require Import Base.

Inductive atom :=
| AVar (v : bytes)
| AInt (z : Z)
| AStr (s : bytes)
| ADate (d : N)
| ABytes (b : bytes)
| ABool (b : bool).

Inductive term :=
| TA (a : atom)
| TSet (l : list atom).

(* datalog.TermType numbering is generated; here only the partition matters *)
Inductive ttype := TyVar | TyInt | TyStr | TyDate | TyBytes | TyBool | TySet.

Definition atom_type (a : atom) : ttype :=
  match a with
  | AVar _ => TyVar | AInt _ => TyInt | AStr _ => TyStr | ADate _ => TyDate
  | ABytes _ => TyBytes | ABool _ => TyBool
  end.
Definition term_type (t : term) : ttype :=
  match t with TA a => atom_type a | TSet _ => TySet end.

Definition ttype_eqb (a b : ttype) : bool :=
  match a, b with
  | TyVar, TyVar | TyInt, TyInt | TyStr, TyStr | TyDate, TyDate
  | TyBytes, TyBytes | TyBool, TyBool | TySet, TySet => true
  | _, _ => false
  end.

(* Term.Equal for the atom types: same dynamic type and same value *)
Definition atom_eqb (a b : atom) : bool :=
  match a, b with
  | AVar x, AVar y => bytes_eqb x y
  | AInt x, AInt y => Z.eqb x y
  | AStr x, AStr y => bytes_eqb x y
  | ADate x, ADate y => N.eqb x y
  | ABytes x, ABytes y => bytes_eqb x y
  | ABool x, ABool y => Bool.eqb x y
  | _, _ => false
  end.

Definition set_contains (s : list atom) (a : atom) : bool := existsb (fun x => atom_eqb x a) s.

(* Set.Equal: same length, every element of the receiver occurs in the argument
   and every element of the argument occurs in the receiver.  With both
   inclusions it is an equivalence relation on lists, also when elements repeat
   ([1, 1] and [1, 2] are different in both directions; [1, 1] and [1] differ by
   their length) — proofs in Proofs/DatalogProofs.v *)
Definition set_equal (s c : list atom) : bool :=
  Nat.eqb (length c) (length s) && forallb (set_contains c) s && forallb (set_contains s) c.

Definition term_eqb (a b : term) : bool :=
  match a, b with
  | TA x, TA y => atom_eqb x y
  | TSet x, TSet y => set_equal x y
  | _, _ => false
  end.

(* Set.Intersect / Set.Union: the result is built by appending, and an element
   is appended only if the result does not contain it yet — each element once,
   in the order of first occurrence, whatever the repetitions in the operands *)
Definition set_add (acc : list atom) (a : atom) : list atom :=
  if set_contains acc a then acc else acc ++ [a].
Definition set_intersect (s t : list atom) : list atom :=
  fold_left (fun acc a => if set_contains t a then set_add acc a else acc) s [].
Definition set_union (s t : list atom) : list atom :=
  fold_left set_add t (fold_left set_add s []).

Record pred := { p_name : bytes; p_terms : list term }.

Inductive unop := UNegate | UParens | ULength.
Inductive binop :=
| BLessThan | BLessOrEqual | BGreaterThan | BGreaterOrEqual | BEqual | BContains
| BPrefix | BSuffix | BRegex | BAdd | BSub | BMul | BDiv | BAnd | BOr
| BIntersection | BUnion.

Inductive op := OVal (t : term) | OUn (u : unop) | OBin (b : binop).
Definition expr := list op.

Record rule := { r_head : pred; r_body : list pred; r_exprs : list expr }.
Definition check := list rule.          (* alternative queries *)
Inductive pkind := Allow | Deny.
Record policy := { pol_kind : pkind; pol_queries : list rule }.

Record block := { b_facts : list pred; b_rules : list rule; b_checks : list check }.

(* Predicate.Equal: same name, same arity, terms pairwise Equal *)
Definition pred_eqb (p q : pred) : bool :=
  bytes_eqb (p_name p) (p_name q) && list_eqb term_eqb (p_terms p) (p_terms q).

Definition is_var (t : term) : bool := match t with TA (AVar _) => true | _ => false end.

(* Predicate.Match: same name and arity; a variable on either side matches anything *)
Fixpoint terms_match (a b : list term) : bool :=
  match a, b with
  | [], [] => true
  | x :: a', y :: b' => (is_var x || is_var y || term_eqb x y) && terms_match a' b'
  | _, _ => false
  end.
Definition pred_match (f p : pred) : bool :=
  bytes_eqb (p_name f) (p_name p) && terms_match (p_terms f) (p_terms p).

(* FactSet.Insert: append unless an Equal fact is present *)
Definition fact_in (f : pred) (fs : list pred) : bool := existsb (fun g => pred_eqb g f) fs.
Definition insert_fact (fs : list pred) (f : pred) : list pred :=
  if fact_in f fs then fs else fs ++ [f].
Definition insert_all (fs nf : list pred) : list pred := fold_left insert_fact nf fs.

(* structural equality (for comparing observations, not Go's Equal) *)
Definition atom_seqb := atom_eqb.
Definition term_seqb (a b : term) : bool :=
  match a, b with
  | TA x, TA y => atom_eqb x y
  | TSet x, TSet y => list_eqb atom_eqb x y
  | _, _ => false
  end.
Definition pred_seqb (p q : pred) : bool :=
  bytes_eqb (p_name p) (p_name q) && list_eqb term_seqb (p_terms p) (p_terms q).
