(* Parser.v — the Datalog text parser of parser/grammar.go + parser/parser.go.

   Grammar-shaped trees mirror the participle structs (Expression / Expr1 ..
   Expr6 / ExprTerm / OpExpr7, Term, Predicate, RuleElement, CheckQuery, Check,
   Policy, Rule, BlockElement, Block, Authorizer).  The parser is a recursive
   descent over the token list on explicit fuel that follows participle's node
   semantics (nodes.go, context.go) for the node tree participle builds from
   the struct tags:
     - a literal matches a token by its TEXT only (any token kind), a token
       reference (@Ident, @String, Dot ...) by its KIND only;
     - sequence: the first element not matching is "no match" (PNone), a later
       element not matching is an error at the current position;
     - group ? / * : an iteration that fails after consuming at most
       [lookahead] = 1 token is dropped and the loop ends at the iteration's
       start; a failure further in is the error of the whole parse;
     - disjunction: an alternative failing after at most one token lets the next
       alternatives run; if none matches the error is reported at the start of
       the disjunction; a failure further in is final.
   [PErr at_] carries the token list remaining at the failure position so that
   these "how far did the branch get" tests can be evaluated ([deep]).

   Then [to_ops] (the postfix emission of the ToExpr methods) and the
   conversion to builder-level values (S-level types of Term.v), with the Go
   error cases.  Errors are [Err EParse]; [Err EOther] = outside the model
   (nested sets: Term.v has two-level terms). *)
From BV Require Import Base Term Lexer.
From Coq Require Import String.

(* ================= grammar-shaped trees ================= *)

(* Term: Parameter | Variable | Bytes | String | Date | Integer | Bool | Set *)
Inductive gterm :=
| GParam (name : bytes)          (* {name}: the text between the braces *)
| GVar (name : bytes)            (* $name: the text after the dollar *)
| GBytes (hex : bytes)           (* HexString: the token text after "hex:" *)
| GStr (s : bytes)
| GDate (s : bytes)              (* the DateTime token text, converted in ToBiscuit *)
| GInt (z : Z)                   (* *int64: converted by participle (strconv.ParseInt base 0) *)
| GBool (b : bool)
| GSet (x : gterm) (xs : gterms) (* "[" @@ ("," @@)* "]" *)
with gterms := GNil | GCons (x : gterm) (xs : gterms).

Fixpoint gapp (a b : gterms) : gterms :=
  match a with GNil => b | GCons x a' => GCons x (gapp a' b) end.

Inductive cmp_op := CLe | CGe | CLt | CGt | CEq.
Inductive add_op := AAdd | ASub.
Inductive mul_op := MMul | MDiv.
Inductive method := MMatches | MStartsWith | MEndsWith | MContains | MUnion | MIntersection | MLength.

Inductive Expression := MkExpression (l : Expr1) (r : OpExpr1s)            (* @@ @@* *)
with OpExpr1s := O1Nil | O1Cons (e : Expr1) (r : OpExpr1s)                 (* "||" Expr1 *)
with Expr1 := MkExpr1 (l : Expr2) (r : OpExpr2s)
with OpExpr2s := O2Nil | O2Cons (e : Expr2) (r : OpExpr2s)                 (* "&&" Expr2 *)
with Expr2 := MkExpr2 (l : Expr3) (r : OpExpr3o)                           (* @@ @@? *)
with OpExpr3o := O3None | O3Some (o : cmp_op) (e : Expr3)
with Expr3 := MkExpr3 (l : Expr4) (r : OpExpr4s)
with OpExpr4s := O4Nil | O4Cons (o : add_op) (e : Expr4) (r : OpExpr4s)
with Expr4 := MkExpr4 (l : Expr5) (r : OpExpr5s)
with OpExpr5s := O5Nil | O5Cons (o : mul_op) (e : Expr5) (r : OpExpr5s)
with Expr5 := MkExpr5 (neg : bool) (e : Expr6)                             (* "!"? Expr6 *)
with Expr6 := MkExpr6 (l : ExprTerm) (r : OpExpr7s)
with OpExpr7s := O7Nil | O7Cons (m : method) (a : OptExpression) (r : OpExpr7s) (* Dot name "(" @@? ")" *)
with OptExpression := ENone | ESome (e : Expression)
with ExprTerm := ETTerm (t : gterm) | ETParen (e : OptExpression).         (* Term | "(" @@? ")" *)

Record Predicate := MkPredicate { pr_name : bytes; pr_ids : gterms }.
Inductive RuleElement := REPred (p : Predicate) | REExpr (e : Expression).
(* @@ ("," @@)* *)
Record CheckQuery := MkCheckQuery { cq_first : RuleElement; cq_more : list RuleElement }.
(* "check if" @@ ("or" @@)* *)
Record Check := MkCheck { ck_first : CheckQuery; ck_more : list CheckQuery }.
Inductive Policy :=
| PAllow (q : CheckQuery) (qs : list CheckQuery)
| PDeny (q : CheckQuery) (qs : list CheckQuery).
(* Comment* Predicate "<-" RuleElement ("," RuleElement)* ; comments: raw token texts *)
Record Rule := MkRule { ru_comments : list bytes; ru_head : Predicate;
                        ru_first : RuleElement; ru_more : list RuleElement }.
Inductive BlockElement :=
| BECheck (c : Check)
| BEPred (p : Predicate) (body : option (RuleElement * list RuleElement)).
Record Block := MkBlock { bl_comments : list bytes; bl_body : list BlockElement }.
Inductive AuthorizerElement := AEPolicy (p : Policy) | AEBlock (e : BlockElement).
Record Authorizer := MkAuthorizer { au_comments : list bytes; au_body : list AuthorizerElement }.

(* ================= literals ================= *)
Definition L_lparen : bytes := [40].
Definition L_rparen : bytes := [41].
Definition L_comma : bytes := [44].
Definition L_semi : bytes := [59].
Definition L_lbrack : bytes := [91].
Definition L_rbrack : bytes := [93].
Definition L_bang : bytes := [33].
Definition L_minus : bytes := [45].
Definition L_arrow : bytes := [60; 45].
Definition L_or : bytes := [111; 114].
Definition L_oror : bytes := [124; 124].
Definition L_andand : bytes := [38; 38].
Definition L_check_if : bytes := Eval compute in bs "check if"%string.
Definition L_allow_if : bytes := Eval compute in bs "allow if"%string.
Definition L_deny_if : bytes := Eval compute in bs "deny if"%string.
Definition L_true : bytes := Eval compute in bs "true"%string.
Definition L_false : bytes := Eval compute in bs "false"%string.
Definition L_query : bytes := Eval compute in bs "query"%string.

Definition cmp_text (o : cmp_op) : bytes :=
  match o with CLe => [60; 61] | CGe => [62; 61] | CLt => [60] | CGt => [62] | CEq => [61; 61] end.
Definition add_text (o : add_op) : bytes := match o with AAdd => [43] | ASub => [45] end.
Definition mul_text (o : mul_op) : bytes := match o with MMul => [42] | MDiv => [47] end.
Definition M_matches : bytes := Eval compute in bs "matches"%string.
Definition M_starts_with : bytes := Eval compute in bs "starts_with"%string.
Definition M_ends_with : bytes := Eval compute in bs "ends_with"%string.
Definition M_contains : bytes := Eval compute in bs "contains"%string.
Definition M_union : bytes := Eval compute in bs "union"%string.
Definition M_intersection : bytes := Eval compute in bs "intersection"%string.
Definition M_length : bytes := Eval compute in bs "length"%string.
Definition method_text (m : method) : bytes :=
  match m with
  | MMatches => M_matches
  | MStartsWith => M_starts_with
  | MEndsWith => M_ends_with
  | MContains => M_contains
  | MUnion => M_union
  | MIntersection => M_intersection
  | MLength => M_length
  end.

Definition is_lit (t : token) (s : bytes) : bool := bytes_eqb (tx t) s.

(* ordered as in the struct tags *)
Definition cmp_of_text (s : bytes) : option cmp_op :=
  if bytes_eqb s (cmp_text CLe) then Some CLe
  else if bytes_eqb s (cmp_text CGe) then Some CGe
  else if bytes_eqb s (cmp_text CLt) then Some CLt
  else if bytes_eqb s (cmp_text CGt) then Some CGt
  else if bytes_eqb s (cmp_text CEq) then Some CEq
  else None.
Definition add_of_text (s : bytes) : option add_op :=
  if bytes_eqb s (add_text AAdd) then Some AAdd
  else if bytes_eqb s (add_text ASub) then Some ASub else None.
Definition mul_of_text (s : bytes) : option mul_op :=
  if bytes_eqb s (mul_text MMul) then Some MMul
  else if bytes_eqb s (mul_text MDiv) then Some MDiv else None.
Definition method_of_text (s : bytes) : option method :=
  if bytes_eqb s (method_text MMatches) then Some MMatches
  else if bytes_eqb s (method_text MStartsWith) then Some MStartsWith
  else if bytes_eqb s (method_text MEndsWith) then Some MEndsWith
  else if bytes_eqb s (method_text MContains) then Some MContains
  else if bytes_eqb s (method_text MUnion) then Some MUnion
  else if bytes_eqb s (method_text MIntersection) then Some MIntersection
  else if bytes_eqb s (method_text MLength) then Some MLength
  else None.

(* ================= parse results ================= *)
Inductive pres (A : Type) :=
| POk (a : A) (rest : list token)
| PNone                         (* no match, nothing consumed *)
| PErr (at_ : list token)       (* error; the tokens remaining at the failure position *)
| PFuel.                        (* out of fuel (never with the fuel of [fuel_for]) *)
Arguments POk {A} a rest.
Arguments PNone {A}.
Arguments PErr {A} at_.
Arguments PFuel {A}.

(* length a <= length b *)
Fixpoint shorter_eq {A} (a b : list A) : bool :=
  match a, b with
  | [], _ => true
  | _ :: _, [] => false
  | _ :: a', _ :: b' => shorter_eq a' b'
  end.
(* context.go Stop: the failing branch consumed more than [lookahead] = 1 token *)
Definition deep (start at_ : list token) : bool :=
  match start with
  | _ :: _ :: s2 => shorter_eq at_ s2
  | _ => false
  end.
(* position reported by a disjunction whose last candidate failed at [at_] *)
Definition disj_err (start at_ : list token) : list token := if deep start at_ then at_ else start.

Definition pmap {A B} (f : A -> B) (r : pres A) : pres B :=
  match r with POk a s => POk (f a) s | PNone => PNone | PErr p => PErr p | PFuel => PFuel end.

(* a non-head element of a sequence: no match is an error at the current position *)
Definition seq_tail {A} (at_ : list token) (r : pres A) : pres A :=
  match r with PNone => PErr at_ | _ => r end.

(* one iteration [r] of a ?/* group started at [u]: continue with [k], or leave the
   loop with [brk] (no match, or an error within the lookahead), or fail *)
Definition grp {A B} (u : list token) (r : pres A) (brk : pres B) (k : A -> list token -> pres B) : pres B :=
  match r with
  | POk a s => k a s
  | PNone => brk
  | PErr p => if deep u p then PErr p else brk
  | PFuel => PFuel
  end.

(* expect the literal [lit] at the head of [s] (as a non-head sequence element) *)
Definition expect {A} (lit : bytes) (s : list token) (k : list token -> pres A) : pres A :=
  match s with
  | t :: s' => if is_lit t lit then k s' else PErr s
  | [] => PErr s
  end.

(* ================= leaf conversions done by participle ================= *)
Fixpoint num_of (base : N) (s : bytes) (acc : N) : option N :=
  match s with
  | [] => Some acc
  | c :: s' =>
      if is_digit c && (c - 48 <? base) then num_of base s' (acc * base + (c - 48)) else None
  end.
(* strings.Trim(text, "{}") *)
Fixpoint drop_while (p : N -> bool) (s : bytes) : bytes :=
  match s with
  | c :: s' => if p c then drop_while p s' else s
  | [] => []
  end.
Definition is_brace (c : N) : bool := (c =? 123) || (c =? 125).
Definition param_name (s : bytes) : bytes :=
  rev (drop_while is_brace (rev (drop_while is_brace s))).

(* participle.Map(f, "Int") in DefaultParserOptions (pinned: [lexer_map_pin]): the value of
   every Int token is rewritten before the grammar sees it, leading zeros are stripped and a
   single "0" is kept when the text is all zeros.  No grammar literal is a digit string (and
   "hex:" is not a prefix of one), so the only place where the value of an Int token matters is
   its conversion: the mapper is applied there. *)
Definition lexer_map_pin : list (string * string) :=
  [("Int", "func(t lexer.Token) (lexer.Token, error) { if v := strings.TrimLeft(t.Value, ""0""); v != """" { t.Value = v } else { t.Value = ""0"" } return t, nil }")]%string.
Definition strip_zeros (s : bytes) : bytes :=
  match drop_while (fun c => c =? 48) s with
  | [] => [48]
  | v => v
  end.

(* strconv.ParseInt(text, 0, 64) on a digit string: a leading 0 means octal *)
Definition int_magnitude (s : bytes) : option N :=
  match s with
  | [] => None
  | 48 :: s' => num_of 8 s' 0
  | _ => num_of 10 s 0
  end.
(* the mapped value never has a leading zero except "0" itself, so the base-0 conversion is
   a base-10 conversion of the digits as written (Proofs: [int_magnitude_decimal]) *)
Definition parse_int (s : bytes) : option Z :=
  match int_magnitude (strip_zeros s) with
  | Some n => if n <? 9223372036854775808 then Some (Z.of_N n) else None
  | None => None
  end.
(* the Integer alternative of Term is @("-":Operator? Int): participle joins the captured
   token values, so the text converted is "-" ++ (mapped) digits.  strconv.ParseInt strips the
   sign before it looks at the base prefix, and accepts the magnitude 2^63 for a negative number *)
Definition parse_neg_int (s : bytes) : option Z :=
  match int_magnitude (strip_zeros s) with
  | Some n => if n <=? 9223372036854775808 then Some (- Z.of_N n)%Z else None
  | None => None
  end.

Fixpoint has_prefix (s p : bytes) : bool :=
  match p, s with
  | [], _ => true
  | y :: p', x :: s' => N.eqb x y && has_prefix s' p'
  | _ :: _, [] => false
  end.

(* ================= Term ================= *)
(* Parameter | Variable | Bytes | String | Date | Integer | Bool | Set.
   The head of the Integer alternative, ("-":Operator)?, is an optional group: it always
   matches, so when no Int token follows the alternative fails with an error (within the
   lookahead) instead of "no match", the remaining alternatives are tried, and a Term that
   matches no alternative reports that error at its own start: [PErr ts], never [PNone]. *)
Fixpoint parse_term (f : nat) (ts : list token) {struct f} : pres gterm :=
  match f with
  | O => PFuel
  | S f' =>
      match ts with
      | [] => PErr ts
      | t :: r =>
          if kind_eqb (tk t) KParameter then POk (GParam (param_name (tx t))) r
          else if kind_eqb (tk t) KVariable then POk (GVar (tl (tx t))) r
          else if has_prefix (tx t) lit_hex then POk (GBytes (skipn 4 (tx t))) r
          else if kind_eqb (tk t) KString then POk (GStr (tx t)) r
          else if kind_eqb (tk t) KDateTime then POk (GDate (tx t)) r
          else if kind_eqb (tk t) KInt then
            match parse_int (tx t) with
            | Some z => POk (GInt z) r
            | None => PErr r                 (* the capture fails when the struct is applied *)
            end
          else if is_lit t L_minus && kind_eqb (tk t) KOperator then
            (* the sign of the Integer alternative; neither Bool nor Set starts with it *)
            match r with
            | n :: r2 =>
                if kind_eqb (tk n) KInt then
                  match parse_neg_int (tx n) with
                  | Some z => POk (GInt z) r2
                  | None => PErr r2
                  end
                else PErr ts
            | [] => PErr ts
            end
          else if kind_eqb (tk t) KBool then POk (GBool (bytes_eqb (tx t) L_true)) r
          else if is_lit t L_lbrack then
            match parse_term f' r with
            | POk x r1 =>
                match comma_terms f' r1 with
                | POk xs r2 =>
                    match r2 with
                    | c :: r3 => if is_lit c L_rbrack then POk (GSet x xs) r3
                                 else PErr (disj_err ts r2)
                    | [] => PErr (disj_err ts r2)
                    end
                | PNone => PErr (disj_err ts r1)
                | PErr p => PErr (disj_err ts p)
                | PFuel => PFuel
                end
            | PNone => PErr (disj_err ts r)
            | PErr p => PErr (disj_err ts p)
            | PFuel => PFuel
            end
          else PErr ts
      end
  end
(* ("," Term)* *)
with comma_terms (f : nat) (u : list token) {struct f} : pres gterms :=
  match f with
  | O => PFuel
  | S f' =>
      match u with
      | c :: u' =>
          if is_lit c L_comma then
            grp u (seq_tail u' (parse_term f' u')) (POk GNil u)
                (fun y u2 => pmap (GCons y) (comma_terms f' u2))
          else POk GNil u
      | [] => POk GNil u
      end
  end.

(* (Term ("," Term)* )* *)
Fixpoint pred_ids (f : nat) (s : list token) {struct f} : pres gterms :=
  match f with
  | O => PFuel
  | S f' =>
      let one :=
        match parse_term f' s with
        | POk x s1 => pmap (GCons x) (comma_terms f' s1)
        | PNone => PNone
        | PErr p => PErr p
        | PFuel => PFuel
        end in
      grp s one (POk GNil s) (fun xs s2 => pmap (gapp xs) (pred_ids f' s2))
  end.

(* @Ident "(" (Term ("," Term)* )* ")" *)
Definition parse_predicate (f : nat) (ts : list token) : pres Predicate :=
  match ts with
  | t :: r =>
      if kind_eqb (tk t) KIdent then
        expect L_lparen r (fun r1 =>
          match pred_ids f r1 with
          | POk ids r2 => expect L_rparen r2 (fun r3 => POk (MkPredicate (tx t) ids) r3)
          | PNone => PErr r1
          | PErr p => PErr p
          | PFuel => PFuel
          end)
      else PNone
  | [] => PNone
  end.

(* ================= expressions ================= *)
Definition close_paren {A} (mk : A) (errpos : list token -> list token) (s : list token) : pres A :=
  match s with
  | t :: s' => if is_lit t L_rparen then POk mk s' else PErr (errpos s)
  | [] => PErr (errpos s)
  end.

Fixpoint parse_expression (f : nat) (ts : list token) {struct f} : pres Expression :=
  match f with
  | O => PFuel
  | S f' =>
      match parse_expr1 f' ts with
      | POk l s => pmap (MkExpression l) (loop1 f' s)
      | PNone => PNone
      | PErr p => PErr p
      | PFuel => PFuel
      end
  end
with loop1 (f : nat) (u : list token) {struct f} : pres OpExpr1s :=
  match f with
  | O => PFuel
  | S f' =>
      match u with
      | o :: u' =>
          if is_lit o L_oror then
            grp u (seq_tail u' (parse_expr1 f' u')) (POk O1Nil u)
                (fun e s => pmap (O1Cons e) (loop1 f' s))
          else POk O1Nil u
      | [] => POk O1Nil u
      end
  end
with parse_expr1 (f : nat) (ts : list token) {struct f} : pres Expr1 :=
  match f with
  | O => PFuel
  | S f' =>
      match parse_expr2 f' ts with
      | POk l s => pmap (MkExpr1 l) (loop2 f' s)
      | PNone => PNone
      | PErr p => PErr p
      | PFuel => PFuel
      end
  end
with loop2 (f : nat) (u : list token) {struct f} : pres OpExpr2s :=
  match f with
  | O => PFuel
  | S f' =>
      match u with
      | o :: u' =>
          if is_lit o L_andand then
            grp u (seq_tail u' (parse_expr2 f' u')) (POk O2Nil u)
                (fun e s => pmap (O2Cons e) (loop2 f' s))
          else POk O2Nil u
      | [] => POk O2Nil u
      end
  end
with parse_expr2 (f : nat) (ts : list token) {struct f} : pres Expr2 :=
  match f with
  | O => PFuel
  | S f' =>
      match parse_expr3 f' ts with
      | POk l s =>
          (* @@? : at most one comparison *)
          match s with
          | o :: s' =>
              match cmp_of_text (tx o) with
              | Some c =>
                  grp s (seq_tail s' (parse_expr3 f' s')) (POk (MkExpr2 l O3None) s)
                      (fun e s2 => POk (MkExpr2 l (O3Some c e)) s2)
              | None => POk (MkExpr2 l O3None) s
              end
          | [] => POk (MkExpr2 l O3None) s
          end
      | PNone => PNone
      | PErr p => PErr p
      | PFuel => PFuel
      end
  end
with parse_expr3 (f : nat) (ts : list token) {struct f} : pres Expr3 :=
  match f with
  | O => PFuel
  | S f' =>
      match parse_expr4 f' ts with
      | POk l s => pmap (MkExpr3 l) (loop4 f' s)
      | PNone => PNone
      | PErr p => PErr p
      | PFuel => PFuel
      end
  end
with loop4 (f : nat) (u : list token) {struct f} : pres OpExpr4s :=
  match f with
  | O => PFuel
  | S f' =>
      match u with
      | o :: u' =>
          match add_of_text (tx o) with
          | Some a =>
              grp u (seq_tail u' (parse_expr4 f' u')) (POk O4Nil u)
                  (fun e s => pmap (O4Cons a e) (loop4 f' s))
          | None => POk O4Nil u
          end
      | [] => POk O4Nil u
      end
  end
with parse_expr4 (f : nat) (ts : list token) {struct f} : pres Expr4 :=
  match f with
  | O => PFuel
  | S f' =>
      match parse_expr5 f' ts with
      | POk l s => pmap (MkExpr4 l) (loop5 f' s)
      | PNone => PNone
      | PErr p => PErr p
      | PFuel => PFuel
      end
  end
with loop5 (f : nat) (u : list token) {struct f} : pres OpExpr5s :=
  match f with
  | O => PFuel
  | S f' =>
      match u with
      | o :: u' =>
          match mul_of_text (tx o) with
          | Some m =>
              grp u (seq_tail u' (parse_expr5 f' u')) (POk O5Nil u)
                  (fun e s => pmap (O5Cons m e) (loop5 f' s))
          | None => POk O5Nil u
          end
      | [] => POk O5Nil u
      end
  end
(* ("!":Punct)? Expr6 : the literal is matched only on a token of lexer type Punct (a String
   token whose unquoted value is "!" is not the operator); the optional group always matches,
   so a missing Expr6 is an error *)
with parse_expr5 (f : nat) (ts : list token) {struct f} : pres Expr5 :=
  match f with
  | O => PFuel
  | S f' =>
      match ts with
      | o :: r =>
          if is_lit o L_bang && kind_eqb (tk o) KPunct then pmap (MkExpr5 true) (seq_tail r (parse_expr6 f' r))
          else pmap (MkExpr5 false) (seq_tail ts (parse_expr6 f' ts))
      | [] => pmap (MkExpr5 false) (seq_tail ts (parse_expr6 f' ts))
      end
  end
with parse_expr6 (f : nat) (ts : list token) {struct f} : pres Expr6 :=
  match f with
  | O => PFuel
  | S f' =>
      match parse_exprterm f' ts with
      | POk l s => pmap (MkExpr6 l) (loop7 f' s)
      | PNone => PNone
      | PErr p => PErr p
      | PFuel => PFuel
      end
  end
(* ( Dot name "(" Expression? ")" )* *)
with loop7 (f : nat) (u : list token) {struct f} : pres OpExpr7s :=
  match f with
  | O => PFuel
  | S f' =>
      match u with
      | d :: u1 =>
          if kind_eqb (tk d) KDot then
            let one : pres (method * OptExpression) :=
              match u1 with
              | m :: u2 =>
                  match method_of_text (tx m) with
                  | Some mm =>
                      expect L_lparen u2 (fun u3 =>
                        grp u3 (parse_expression f' u3)
                            (close_paren (mm, ENone) (fun s => s) u3)
                            (fun e s => close_paren (mm, ESome e) (fun s => s) s))
                  | None => PErr u1
                  end
              | [] => PErr u1
              end in
            grp u one (POk O7Nil u)
                (fun ma s => pmap (O7Cons (fst ma) (snd ma)) (loop7 f' s))
          else POk O7Nil u
      | [] => POk O7Nil u
      end
  end
(* Term | "(" Expression? ")" *)
with parse_exprterm (f : nat) (ts : list token) {struct f} : pres ExprTerm :=
  match f with
  | O => PFuel
  | S f' =>
      let alt2 (dflt : pres ExprTerm) : pres ExprTerm :=
        match ts with
        | lp :: s1 =>
            if is_lit lp L_lparen then
              grp s1 (parse_expression f' s1)
                  (close_paren (ETParen ENone) (disj_err ts) s1)
                  (fun e s => close_paren (ETParen (ESome e)) (disj_err ts) s)
            else dflt
        | [] => dflt
        end in
      match parse_term f' ts with
      | POk t s => POk (ETTerm t) s
      | PNone => alt2 PNone
      | PErr p => if deep ts p then PErr p else alt2 (PErr ts)
      | PFuel => PFuel
      end
  end.

Definition parse_expr := parse_expression.

(* ================= rule elements and above ================= *)
(* Predicate | Expression *)
Definition parse_rule_element (f : nat) (ts : list token) : pres RuleElement :=
  let alt2 (dflt : pres RuleElement) : pres RuleElement :=
    match parse_expression f ts with
    | POk e s => POk (REExpr e) s
    | PNone => dflt
    | PErr p => PErr (disj_err ts p)
    | PFuel => PFuel
    end in
  match parse_predicate f ts with
  | POk p s => POk (REPred p) s
  | PNone => alt2 PNone
  | PErr p => if deep ts p then PErr p else alt2 (PErr ts)
  | PFuel => PFuel
  end.

(* ( sep p )* *)
Fixpoint sep_loop {A} (p : list token -> pres A) (sep : bytes) (n : nat) (u : list token)
  : pres (list A) :=
  match n with
  | O => PFuel
  | S n' =>
      match u with
      | c :: u' =>
          if is_lit c sep then
            grp u (seq_tail u' (p u')) (POk [] u)
                (fun x s => pmap (cons x) (sep_loop p sep n' s))
          else POk [] u
      | [] => POk [] u
      end
  end.

(* p ( sep p )* as a sequence *)
Definition sep_list1 {A} (p : list token -> pres A) (sep : bytes) (n : nat) (ts : list token)
  : pres (A * list A) :=
  match p ts with
  | POk x s => pmap (fun xs => (x, xs)) (sep_loop p sep n s)
  | PNone => PNone
  | PErr q => PErr q
  | PFuel => PFuel
  end.

Definition parse_check_query (f : nat) (ts : list token) : pres CheckQuery :=
  pmap (fun xy => MkCheckQuery (fst xy) (snd xy)) (sep_list1 (parse_rule_element f) L_comma f ts).

(* kw CheckQuery ("or" CheckQuery)* *)
Definition parse_queries (kw : bytes) (f : nat) (ts : list token) : pres (CheckQuery * list CheckQuery) :=
  match ts with
  | t :: r =>
      if is_lit t kw then seq_tail r (sep_list1 (parse_check_query f) L_or f r)
      else PNone
  | [] => PNone
  end.

Definition parse_check_g (f : nat) (ts : list token) : pres Check :=
  pmap (fun xy => MkCheck (fst xy) (snd xy)) (parse_queries L_check_if f ts).

(* a disjunction of struct alternatives: [r1] else [r2] *)
Definition alt {A} (ts : list token) (r1 : pres A) (r2 : pres A -> pres A) : pres A :=
  match r1 with
  | POk a s => POk a s
  | PNone => r2 PNone
  | PErr p => if deep ts p then PErr p else r2 (PErr ts)
  | PFuel => PFuel
  end.
Definition last_alt {A} (ts : list token) (r : pres A) (dflt : pres A) : pres A :=
  match r with
  | POk a s => POk a s
  | PNone => dflt
  | PErr p => PErr (disj_err ts p)
  | PFuel => PFuel
  end.

Definition parse_policy_g (f : nat) (ts : list token) : pres Policy :=
  alt ts (pmap (fun xy => PAllow (fst xy) (snd xy)) (parse_queries L_allow_if f ts))
      (last_alt ts (pmap (fun xy => PDeny (fst xy) (snd xy)) (parse_queries L_deny_if f ts))).

(* @Comment* *)
Fixpoint comments (ts : list token) : list bytes * list token :=
  match ts with
  | t :: r => if kind_eqb (tk t) KComment then let '(c, r') := comments r in (tx t :: c, r')
              else ([], ts)
  | [] => ([], [])
  end.

(* Comment* Predicate "<-" RuleElement ("," RuleElement)* *)
Definition parse_rule_g (f : nat) (ts : list token) : pres Rule :=
  let '(cs, r0) := comments ts in
  match seq_tail r0 (parse_predicate f r0) with
  | POk h r1 =>
      expect L_arrow r1 (fun r2 =>
        pmap (fun xy => MkRule cs h (fst xy) (snd xy))
             (seq_tail r2 (sep_list1 (parse_rule_element f) L_comma f r2)))
  | PNone => PNone
  | PErr p => PErr p
  | PFuel => PFuel
  end.

(* Check | Predicate ("<-" RuleElement ("," RuleElement)* )? *)
Definition parse_block_element (f : nat) (ts : list token) : pres BlockElement :=
  alt ts (pmap BECheck (parse_check_g f ts))
      (last_alt ts
         match parse_predicate f ts with
         | POk h r1 =>
             let body : pres (RuleElement * list RuleElement) :=
               match r1 with
               | a :: r2 => if is_lit a L_arrow
                            then seq_tail r2 (sep_list1 (parse_rule_element f) L_comma f r2)
                            else PNone
               | [] => PNone
               end in
             grp r1 body (POk (BEPred h None) r1) (fun b s => POk (BEPred h (Some b)) s)
         | PNone => PNone
         | PErr p => PErr p
         | PFuel => PFuel
         end).

(* ( p ";" )* *)
Fixpoint semi_loop {A} (p : list token -> pres A) (n : nat) (u : list token) : pres (list A) :=
  match n with
  | O => PFuel
  | S n' =>
      let one : pres A :=
        match p u with
        | POk x s => expect L_semi s (fun s' => POk x s')
        | PNone => PNone
        | PErr q => PErr q
        | PFuel => PFuel
        end in
      grp u one (POk [] u) (fun x s => pmap (cons x) (semi_loop p n' s))
  end.

Definition parse_block_g (f : nat) (ts : list token) : pres Block :=
  let '(cs, r0) := comments ts in
  pmap (MkBlock cs) (semi_loop (parse_block_element f) f r0).

Definition parse_authorizer_element (f : nat) (ts : list token) : pres AuthorizerElement :=
  alt ts (pmap AEPolicy (parse_policy_g f ts))
      (last_alt ts (pmap AEBlock (parse_block_element f ts))).

Definition parse_authorizer_g (f : nat) (ts : list token) : pres Authorizer :=
  let '(cs, r0) := comments ts in
  pmap (MkAuthorizer cs) (semi_loop (parse_authorizer_element f) f r0).

(* ================= postfix emission (the ToExpr methods) ================= *)
Inductive gop := GVal (t : gterm) | GUn (u : unop) | GBin (b : binop).

Definition cmp_binop (o : cmp_op) : binop :=
  match o with CLe => BLessOrEqual | CGe => BGreaterOrEqual | CLt => BLessThan
             | CGt => BGreaterThan | CEq => BEqual end.
Definition add_binop (o : add_op) : binop := match o with AAdd => BAdd | ASub => BSub end.
Definition mul_binop (o : mul_op) : binop := match o with MMul => BMul | MDiv => BDiv end.
Definition method_op (m : method) : gop :=
  match m with
  | MMatches => GBin BRegex | MStartsWith => GBin BPrefix | MEndsWith => GBin BSuffix
  | MContains => GBin BContains | MUnion => GBin BUnion | MIntersection => GBin BIntersection
  | MLength => GUn ULength
  end.

Fixpoint to_ops (e : Expression) : list gop :=
  match e with MkExpression l r => ops_e1 l ++ ops_o1 r end
with ops_o1 (r : OpExpr1s) : list gop :=
  match r with O1Nil => [] | O1Cons e r' => ops_e1 e ++ [GBin BOr] ++ ops_o1 r' end
with ops_e1 (e : Expr1) : list gop :=
  match e with MkExpr1 l r => ops_e2 l ++ ops_o2 r end
with ops_o2 (r : OpExpr2s) : list gop :=
  match r with O2Nil => [] | O2Cons e r' => ops_e2 e ++ [GBin BAnd] ++ ops_o2 r' end
with ops_e2 (e : Expr2) : list gop :=
  match e with MkExpr2 l r => ops_e3 l ++ ops_o3 r end
with ops_o3 (r : OpExpr3o) : list gop :=
  match r with O3None => [] | O3Some o e => ops_e3 e ++ [GBin (cmp_binop o)] end
with ops_e3 (e : Expr3) : list gop :=
  match e with MkExpr3 l r => ops_e4 l ++ ops_o4 r end
with ops_o4 (r : OpExpr4s) : list gop :=
  match r with O4Nil => [] | O4Cons o e r' => ops_e4 e ++ [GBin (add_binop o)] ++ ops_o4 r' end
with ops_e4 (e : Expr4) : list gop :=
  match e with MkExpr4 l r => ops_e5 l ++ ops_o5 r end
with ops_o5 (r : OpExpr5s) : list gop :=
  match r with O5Nil => [] | O5Cons o e r' => ops_e5 e ++ [GBin (mul_binop o)] ++ ops_o5 r' end
with ops_e5 (e : Expr5) : list gop :=
  match e with MkExpr5 neg e6 => ops_e6 e6 ++ (if neg then [GUn UNegate] else []) end
with ops_e6 (e : Expr6) : list gop :=
  match e with MkExpr6 l r => ops_et l ++ ops_o7 r end
with ops_o7 (r : OpExpr7s) : list gop :=
  match r with O7Nil => [] | O7Cons m a r' => ops_oe a ++ [method_op m] ++ ops_o7 r' end
with ops_oe (a : OptExpression) : list gop :=
  match a with ENone => [] | ESome e => to_ops e end
with ops_et (t : ExprTerm) : list gop :=
  match t with
  | ETTerm t => [GVal t]
  | ETParen ENone => []                       (* "()" : neither field is set, nothing is emitted *)
  | ETParen (ESome e) => to_ops e ++ [GUn UParens]
  end.

(* ================= dates ================= *)
Definition is_leap (y : Z) : bool :=
  ((y mod 4 =? 0) && negb (y mod 100 =? 0) || (y mod 400 =? 0))%Z.
Definition days_in_month (y m : Z) : Z :=
  (if (m =? 2) then (if is_leap y then 29 else 28)
   else if (m =? 4) || (m =? 6) || (m =? 9) || (m =? 11) then 30 else 31)%Z.

(* days since 1970-01-01 of the proleptic Gregorian date y-m-d *)
Definition days_from_civil (y m d : Z) : Z :=
  (let y' := if m <=? 2 then y - 1 else y in
   let era := y' / 400 in
   let yoe := y' - era * 400 in
   let mp := if m >? 2 then m - 3 else m + 9 in
   let doy := (153 * mp + 2) / 5 + d - 1 in
   let doe := yoe * 365 + yoe / 4 - yoe / 100 + doy in
   era * 146097 + doe - 719468)%Z.

Definition civil_from_days (z0 : Z) : Z * Z * Z :=
  (let z := z0 + 719468 in
   let era := z / 146097 in
   let doe := z - era * 146097 in
   let yoe := (doe - doe / 1460 + doe / 36524 - doe / 146096) / 365 in
   let y := yoe + era * 400 in
   let doy := doe - (365 * yoe + yoe / 4 - yoe / 100) in
   let mp := (5 * doy + 2) / 153 in
   let d := doy - (153 * mp + 2) / 5 + 1 in
   let m := if mp <? 10 then mp + 3 else mp - 9 in
   ((if m <=? 2 then y + 1 else y), m, d))%Z.

Definition dig (c : N) : Z := Z.of_N (c - 48).
Definition num2 (a b : N) : Z := (dig a * 10 + dig b)%Z.

(* time.Parse(time.RFC3339, text).Unix() for a text of DateTime-token shape:
   dddd-dd-ddTdd:dd:dd, optional .d+, then Z or (+|-)dd:dd; None when Go reports an error *)
Definition parse_rfc3339 (s : bytes) : option Z :=
  match s with
  | y1 :: y2 :: y3 :: y4 :: 45 :: m1 :: m2 :: 45 :: d1 :: d2 :: 84 ::
    h1 :: h2 :: 58 :: i1 :: i2 :: 58 :: s1 :: s2 :: r =>
      if is_digit y1 && is_digit y2 && is_digit y3 && is_digit y4 && is_digit m1 && is_digit m2
         && is_digit d1 && is_digit d2 && is_digit h1 && is_digit h2 && is_digit i1 && is_digit i2
         && is_digit s1 && is_digit s2
      then
        let y := (num2 y1 y2 * 100 + num2 y3 y4)%Z in
        let mo := num2 m1 m2 in
        let d := num2 d1 d2 in
        let h := num2 h1 h2 in
        let mi := num2 i1 i2 in
        let se := num2 s1 s2 in
        let r1 := match r with
                  | 46 :: r0 => match span1 is_digit r0 with Some (_, r') => r' | None => r end
                  | _ => r
                  end in
        let zone : option Z :=
          match r1 with
          | [90] => Some 0%Z
          | [sg; a; b; 58; c; e] =>
              if ((sg =? 45) || (sg =? 43)) && is_digit a && is_digit b && is_digit c && is_digit e
              then
                let hr := num2 a b in
                let mm := num2 c e in
                if ((hr <=? 24) && (mm <=? 60))%Z
                then Some (if (sg =? 45)%N then - ((hr * 60 + mm) * 60) else (hr * 60 + mm) * 60)%Z
                else None
              else None
          | _ => None
          end in
        match zone with
        | Some off =>
            if ((1 <=? mo) && (mo <=? 12) && (1 <=? d) && (d <=? days_in_month y mo)
                && (h <=? 23) && (mi <=? 59) && (se <=? 59))%Z
            then Some (days_from_civil y mo d * 86400 + h * 3600 + mi * 60 + se - off)%Z
            else None
        | None => None
        end
      else None
  | _ => None
  end.

(* decimal digits of a non-negative number, most significant first *)
Fixpoint dec_digits (fuel : nat) (n : N) (acc : bytes) : bytes :=
  match fuel with
  | O => acc
  | S f => let d := 48 + n mod 10 in
           if n <? 10 then d :: acc else dec_digits f (n / 10) (d :: acc)
  end.
Definition dec_of_N (n : N) : bytes := dec_digits (S (N.size_nat n)) n [].
Definition dec_of_Z (z : Z) : bytes :=
  if (z <? 0)%Z then 45 :: dec_of_N (Z.to_N (- z)) else dec_of_N (Z.to_N z).

Definition pad2 (z : Z) : bytes :=
  let n := Z.to_N z in [48 + (n / 10) mod 10; 48 + n mod 10].
Definition pad4 (z : Z) : bytes :=
  let n := Z.to_N z in
  if n <? 10000 then [48 + (n / 1000) mod 10; 48 + (n / 100) mod 10; 48 + (n / 10) mod 10; 48 + n mod 10]
  else dec_of_N n.

(* time.Unix(d, 0).UTC().Format(time.RFC3339) *)
Definition fmt_rfc3339 (d : Z) : bytes :=
  let days := (d / 86400)%Z in
  let rem := (d mod 86400)%Z in
  let '(y, m, dd) := civil_from_days days in
  let ys := if (y <? 0)%Z then 45 :: pad4 (- y) else pad4 y in
  ys ++ [45] ++ pad2 m ++ [45] ++ pad2 dd ++ [84] ++ pad2 (rem / 3600)%Z ++ [58]
     ++ pad2 ((rem / 60) mod 60)%Z ++ [58] ++ pad2 (rem mod 60)%Z ++ [90].

(* ================= hex ================= *)
Definition hex_val (c : N) : option N :=
  if is_digit c then Some (c - 48)
  else if (97 <=? c) && (c <=? 102) then Some (c - 87)
  else if (65 <=? c) && (c <=? 70) then Some (c - 55)
  else None.
(* encoding/hex DecodeString *)
Fixpoint hex_decode (s : bytes) : option bytes :=
  match s with
  | [] => Some []
  | a :: b :: r =>
      match hex_val a, hex_val b, hex_decode r with
      | Some x, Some y, Some m => Some (x * 16 + y :: m)
      | _, _, _ => None
      end
  | [_] => None
  end.

(* ================= conversion to builder-level values ================= *)
Definition params := list (bytes * term).
Fixpoint lookup_param (ps : params) (n : bytes) : option term :=
  match ps with
  | [] => None
  | (k, t) :: ps' => if bytes_eqb k n then Some t else lookup_param ps' n
  end.

Definition two64 : Z := 18446744073709551616%Z.

(* an element of a set literal *)
Definition set_elem (v : term) : res atom :=
  match v with
  | TA (AVar _) => Err EParse           (* ErrVariableInSet *)
  | TA a => Ok a
  | TSet _ => Err EOther                (* nested set: outside the two-level term model *)
  end.

(* Term.ToBiscuit *)
Fixpoint term_to_biscuit (ps : params) (t : gterm) : res term :=
  match t with
  | GInt z => Ok (TA (AInt z))
  | GStr s => Ok (TA (AStr s))
  | GVar v => Ok (TA (AVar v))
  | GDate s =>
      match parse_rfc3339 s with
      | Some z => Ok (TA (ADate (Z.to_N (z mod two64))))
      | None => Err EParse
      end
  | GBytes h =>
      match hex_decode h with
      | Some b => Ok (TA (ABytes b))
      | None => Err EParse
      end
  | GBool b => Ok (TA (ABool b))
  | GSet x xs =>
      do v <- term_to_biscuit ps x; do a <- set_elem v;
      do r <- set_atoms ps xs; Ok (TSet (a :: r))
  | GParam n =>
      match lookup_param ps n with
      | Some v => Ok v
      | None => Err EParse
      end
  end
with set_atoms (ps : params) (l : gterms) : res (list atom) :=
  match l with
  | GNil => Ok []
  | GCons x xs =>
      do v <- term_to_biscuit ps x; do a <- set_elem v;
      do r <- set_atoms ps xs; Ok (a :: r)
  end.

Fixpoint terms_to_biscuit (ps : params) (l : gterms) : res (list term) :=
  match l with
  | GNil => Ok []
  | GCons x xs => do v <- term_to_biscuit ps x; do r <- terms_to_biscuit ps xs; Ok (v :: r)
  end.

Definition pred_to_biscuit (ps : params) (p : Predicate) : res pred :=
  do ts <- terms_to_biscuit ps (pr_ids p); Ok {| p_name := pr_name p; p_terms := ts |}.

(* ToExpr then checkExprTerms: an unconvertible term is ErrInvalidExpressionTerm *)
Fixpoint conv_ops (ps : params) (l : list gop) : res expr :=
  match l with
  | [] => Ok []
  | o :: l' =>
      do x <- match o with
              | GVal t => match term_to_biscuit ps t with
                          | Ok v => Ok (OVal v)
                          | Err EOther => Err EOther
                          | Err _ => Err EParse
                          | Panic n => Panic n
                          end
              | GUn u => Ok (OUn u)
              | GBin b => Ok (OBin b)
              end;
      do r <- conv_ops ps l'; Ok (x :: r)
  end.
Definition expr_to_biscuit (ps : params) (e : Expression) : res expr := conv_ops ps (to_ops e).

(* the body loop of Rule.ToBiscuit / CheckQuery.ToBiscuit *)
Fixpoint body_to_biscuit (ps : params) (l : list RuleElement) : res (list pred * list expr) :=
  match l with
  | [] => Ok ([], [])
  | REPred p :: l' =>
      do q <- pred_to_biscuit ps p; do r <- body_to_biscuit ps l'; Ok (q :: fst r, snd r)
  | REExpr e :: l' =>
      do x <- expr_to_biscuit ps e; do r <- body_to_biscuit ps l'; Ok (fst r, x :: snd r)
  end.

Definition query_head : pred := {| p_name := L_query; p_terms := [] |}.

Definition query_to_biscuit (ps : params) (q : CheckQuery) : res rule :=
  do b <- body_to_biscuit ps (cq_first q :: cq_more q);
  Ok {| r_head := query_head; r_body := fst b; r_exprs := snd b |}.

Fixpoint queries_to_biscuit (ps : params) (l : list CheckQuery) : res (list rule) :=
  match l with
  | [] => Ok []
  | q :: l' => do r <- query_to_biscuit ps q; do rs <- queries_to_biscuit ps l'; Ok (r :: rs)
  end.

Definition check_to_biscuit (ps : params) (c : Check) : res check :=
  queries_to_biscuit ps (ck_first c :: ck_more c).

Definition policy_to_biscuit (ps : params) (p : Policy) : res policy :=
  match p with
  | PAllow q qs => do l <- queries_to_biscuit ps (q :: qs); Ok {| pol_kind := Allow; pol_queries := l |}
  | PDeny q qs => do l <- queries_to_biscuit ps (q :: qs); Ok {| pol_kind := Deny; pol_queries := l |}
  end.

(* Rule.ToBiscuit: body first, then the head *)
Definition rule_parts_to_biscuit (ps : params) (h : Predicate) (body : list RuleElement) : res rule :=
  do b <- body_to_biscuit ps body;
  do hd <- pred_to_biscuit ps h;
  Ok {| r_head := hd; r_body := fst b; r_exprs := snd b |}.

Definition rule_to_biscuit (ps : params) (r : Rule) : res rule :=
  rule_parts_to_biscuit ps (ru_head r) (ru_first r :: ru_more r).

Definition add_fact (b : block) (f : pred) : block :=
  {| b_facts := b_facts b ++ [f]; b_rules := b_rules b; b_checks := b_checks b |}.
Definition add_rule (b : block) (r : rule) : block :=
  {| b_facts := b_facts b; b_rules := b_rules b ++ [r]; b_checks := b_checks b |}.
Definition add_check (b : block) (c : check) : block :=
  {| b_facts := b_facts b; b_rules := b_rules b; b_checks := b_checks b ++ [c] |}.
Definition empty_block : block := {| b_facts := []; b_rules := []; b_checks := [] |}.

Definition block_element_to_biscuit (ps : params) (b : block) (e : BlockElement) : res block :=
  match e with
  | BECheck c => do x <- check_to_biscuit ps c; Ok (add_check b x)
  | BEPred h (Some body) => do x <- rule_parts_to_biscuit ps h (fst body :: snd body); Ok (add_rule b x)
  | BEPred h None => do x <- pred_to_biscuit ps h; Ok (add_fact b x)
  end.

Fixpoint block_elements_to_biscuit (ps : params) (b : block) (l : list BlockElement) : res block :=
  match l with
  | [] => Ok b
  | e :: l' => do b' <- block_element_to_biscuit ps b e; block_elements_to_biscuit ps b' l'
  end.

Definition block_to_biscuit (ps : params) (g : Block) : res block :=
  block_elements_to_biscuit ps empty_block (bl_body g).

Fixpoint authorizer_elements_to_biscuit (ps : params) (b : block) (pols : list policy)
  (l : list AuthorizerElement) : res (block * list policy) :=
  match l with
  | [] => Ok (b, pols)
  | AEBlock e :: l' =>
      do b' <- block_element_to_biscuit ps b e; authorizer_elements_to_biscuit ps b' pols l'
  | AEPolicy p :: l' =>
      do x <- policy_to_biscuit ps p; authorizer_elements_to_biscuit ps b (pols ++ [x]) l'
  end.

Definition authorizer_to_biscuit (ps : params) (g : Authorizer) : res (block * list policy) :=
  authorizer_elements_to_biscuit ps empty_block [] (au_body g).

(* ================= the parser.Parser methods ================= *)
Definition fuel_for (ts : list token) : nat := 16 * List.length ts + 32.

(* ParseString: the struct must match and all tokens must be consumed *)
Definition run {A} (p : nat -> list token -> pres A) (ts : list token) : res A :=
  match p (fuel_for ts) ts with
  | POk a [] => Ok a
  | POk _ (_ :: _) => Err EParse
  | PNone => Err EParse
  | PErr _ => Err EParse
  | PFuel => Err EOther
  end.

Definition parse_fact (s : bytes) (ps : params) : res pred :=
  do ts <- lex s;
  do g <- run parse_predicate ts;
  do p <- pred_to_biscuit ps g;
  if existsb is_var (p_terms p) then Err EParse else Ok p.

Definition parse_rule (s : bytes) (ps : params) : res rule :=
  do ts <- lex s; do g <- run parse_rule_g ts; rule_to_biscuit ps g.

Definition parse_check (s : bytes) (ps : params) : res check :=
  do ts <- lex s; do g <- run parse_check_g ts; check_to_biscuit ps g.

Definition parse_policy (s : bytes) (ps : params) : res policy :=
  do ts <- lex s; do g <- run parse_policy_g ts; policy_to_biscuit ps g.

Definition parse_block (s : bytes) (ps : params) : res block :=
  do ts <- lex s; do g <- run parse_block_g ts; block_to_biscuit ps g.

Definition parse_authorizer (s : bytes) (ps : params) : res (block * list policy) :=
  do ts <- lex s; do g <- run parse_authorizer_g ts; authorizer_to_biscuit ps g.
