(* Odometer.v — the literal index machine of [combine] (datalog/datalog.go:490-641).

   Go state: [current : int], [indexes : []int] (one index into the fact list
   per body predicate).  The producer goroutine runs

     for {                                              (* main loop *)
       for {                                            (* inner loop: next_match *)
         if facts[indexes[current]].Match(predicates[current]) {
           if current == len(predicates)-1 { break } else { current += 1 }
         } else if !advanceIndexes(&current,&indexes,facts) { return }
       }
       ... extract and check variables, expressions, send ...   (* a visited tuple *)
       if !advanceIndexes(&current,&indexes,facts) { return }
     }

   Everything after "extract and check variables" (binding consistency,
   expressions, the channel send, the early returns) is modelled in Datalog.v
   by [consume] over the stream of visited tuples; this file models only which
   tuples are visited and in which order, on explicit fuel.

   The machine is generic in the fact type [A], the predicate type [P] and the
   match test; it is instantiated to [pred]/[pred]/[pred_match] at the end.
   [None] as a result means: out of fuel, or an index was out of range (a Go
   panic) — never a normal outcome. *)
From BV Require Import Base Term Expr Datalog.
From Coq Require Import Arith.
Local Open Scope nat_scope.

(* indexes[i] = v *)
Fixpoint set_nth (i v : nat) (l : list nat) : list nat :=
  match l, i with
  | [], _ => []
  | _ :: l', 0 => v :: l'
  | x :: l', S i' => x :: set_nth i' v l'
  end.

(* advanceIndexes (datalog.go:624-641).  The Go loop variable [i] starts at
   [*current]; on a carry the code resets indexes[i], decrements *current and
   goes to i-1; it breaks after the first successful increment and returns
   false when position 0 overflows (leaving indexes[0] as it was).
   [indexes[i] < len(facts)-1] on Go ints is [S indexes[i] < nf] on nat. *)
Fixpoint advance_loop (i cur : nat) (idx : list nat) (nf : nat) : option (nat * list nat) :=
  if S (nth i idx 0) <? nf then Some (cur, set_nth i (S (nth i idx 0)) idx)
  else match i with
       | S i' => advance_loop i' (cur - 1) (set_nth i 0 idx) nf
       | 0 => None
       end.

Definition advance (cur : nat) (idx : list nat) (nf : nat) : option (nat * list nat) :=
  advance_loop cur cur idx nf.

Section Odo.
  Context {A P : Type}.
  Variable mt : A -> P -> bool.          (* fact.Match(predicate) *)

  (* the declarative enumeration, same text as Datalog.combos *)
  Fixpoint combos_g (ps : list P) (facts : list A) : list (list A) :=
    match ps with
    | [] => [[]]
    | p :: ps' =>
        flat_map (fun f => map (cons f) (combos_g ps' facts))
                 (filter (fun f => mt f p) facts)
    end.

  (* the tuple read at "extract and check variables": facts[indexes[i]] for every i *)
  Fixpoint tuple_of (facts : list A) (idx : list nat) : option (list A) :=
    match idx with
    | [] => Some []
    | i :: idx' =>
        match nth_error facts i, tuple_of facts idx' with
        | Some a, Some t => Some (a :: t)
        | _, _ => None
        end
    end.

  Variable ps : list P.
  Variable facts : list A.

  (* result of the inner loop *)
  Inductive nm_result :=
  | NMFuel                                         (* out of fuel *)
  | NMOob                                          (* index out of range: Go would panic *)
  | NMDone                                         (* advanceIndexes returned false: producer returns *)
  | NMFound (fuel_left cur : nat) (idx : list nat) (* complete match: break *).

  (* the inner [for] loop, datalog.go:522-537 *)
  Fixpoint next_match_g (fuel cur : nat) (idx : list nat) : nm_result :=
    match fuel with
    | 0 => NMFuel
    | S f =>
        match nth_error ps cur, nth_error idx cur with
        | Some p, Some ix =>
            match nth_error facts ix with
            | Some fa =>
                if mt fa p then
                  if cur =? length ps - 1 then NMFound f cur idx
                  else next_match_g f (S cur) idx
                else
                  match advance cur idx (length facts) with
                  | None => NMDone
                  | Some (c, i) => next_match_g f c i
                  end
            | None => NMOob
            end
        | _, _ => NMOob
        end
    end.

  (* the main loop for len(predicates) > 0 && len(facts) > 0: the list of
     visited tuples.  One unit of fuel per inner-loop iteration; the visit and
     the advanceIndexes call after it are part of the iteration that found the
     match.  [odo_run_next_match] (OdometerProofs.v) shows this is exactly
     "run next_match, visit, advance, repeat with the fuel left". *)
  Fixpoint odo_run_g (fuel cur : nat) (idx : list nat) : option (list (list A)) :=
    match fuel with
    | 0 => None
    | S f =>
        match nth_error ps cur, nth_error idx cur with
        | Some p, Some ix =>
            match nth_error facts ix with
            | Some fa =>
                if mt fa p then
                  if cur =? length ps - 1 then
                    match tuple_of facts idx with
                    | Some t =>
                        match advance cur idx (length facts) with
                        | None => Some [t]
                        | Some (c, i) => option_map (cons t) (odo_run_g f c i)
                        end
                    | None => None
                    end
                  else odo_run_g f (S cur) idx
                else
                  match advance cur idx (length facts) with
                  | None => Some []
                  | Some (c, i) => odo_run_g f c i
                  end
            | None => None
            end
        | _, _ => None
        end
    end.

  (* combine's visited tuples, with the two special cases of the Go code:
     no predicates -> the main loop body runs once (one empty tuple) and
     returns at "len(predicates) == 0"; predicates but no facts -> return
     before the main loop. *)
  Definition odo_tuples_g (fuel : nat) : option (list (list A)) :=
    match ps, facts with
    | [], _ => Some [[]]
    | _ :: _, [] => Some []
    | _ :: _, _ :: _ => odo_run_g fuel 0 (repeat 0 (length ps))
    end.

  (* level_cost m = fuel that suffices for a sub-search over m predicates:
     each of the n facts costs one iteration plus, if it matches, the search
     one level down. *)
  Fixpoint level_cost (m : nat) : nat :=
    match m with
    | 0 => 0
    | S m' => length facts * S (level_cost m')
    end.

  Definition enough_fuel_g : nat := level_cost (length ps).
End Odo.

(* instantiation to the S-level model *)
Definition next_match (ps facts : list pred) := next_match_g pred_match ps facts.
Definition odo_run (ps facts : list pred) := odo_run_g pred_match ps facts.
Definition odo_tuples (fuel : nat) (ps facts : list pred) : option (list (list pred)) :=
  odo_tuples_g pred_match ps facts fuel.
Definition combine_odo := odo_tuples.
Definition enough_fuel (ps facts : list pred) : nat := enough_fuel_g (P:=pred) ps facts.

(* executable agreement check for the correspondence harness *)
Definition tuples_eqb (a b : list (list pred)) : bool := list_eqb (list_eqb pred_seqb) a b.
Definition odo_agrees (fuel : nat) (ps facts : list pred) : bool :=
  match odo_tuples fuel ps facts with
  | Some l => tuples_eqb l (combos ps facts)
  | None => false
  end.
