(* Corr2.v — correspondence glue for the parser and printer (C14, C15). *)
From BV Require Import Base Term Lexer Parser.

Definition op_seqb (a b : op) : bool :=
  match a, b with
  | OVal x, OVal y => term_seqb x y
  | OUn UNegate, OUn UNegate | OUn UParens, OUn UParens | OUn ULength, OUn ULength => true
  | OBin x, OBin y =>
      match x, y with
      | BLessThan, BLessThan | BLessOrEqual, BLessOrEqual | BGreaterThan, BGreaterThan
      | BGreaterOrEqual, BGreaterOrEqual | BEqual, BEqual | BContains, BContains | BPrefix, BPrefix
      | BSuffix, BSuffix | BRegex, BRegex | BAdd, BAdd | BSub, BSub | BMul, BMul | BDiv, BDiv
      | BAnd, BAnd | BOr, BOr | BIntersection, BIntersection | BUnion, BUnion => true
      | _, _ => false
      end
  | _, _ => false
  end.
Definition rule_seqb (a b : rule) : bool :=
  pred_seqb (r_head a) (r_head b) && list_eqb pred_seqb (r_body a) (r_body b) &&
  list_eqb (list_eqb op_seqb) (r_exprs a) (r_exprs b).
Definition check_seqb (a b : check) : bool := list_eqb rule_seqb a b.
Definition policy_seqb (a b : policy) : bool :=
  (match pol_kind a, pol_kind b with Allow, Allow | Deny, Deny => true | _, _ => false end) &&
  list_eqb rule_seqb (pol_queries a) (pol_queries b).
Definition block_seqb (a b : block) : bool :=
  list_eqb pred_seqb (b_facts a) (b_facts b) && list_eqb rule_seqb (b_rules a) (b_rules b) &&
  list_eqb check_seqb (b_checks a) (b_checks b).

Inductive pkind_x := PFact | PRule | PCheck | PPolicy | PBlock.
Inductive pobs :=
| PXFact (p : pred) | PXRule (r : rule) | PXCheck (c : check) | PXPolicy (p : policy) | PXBlock (b : block)
| PXErr.

Record parse_case := { px_kind : pkind_x; px_text : bytes; px_params : params; px_obs : pobs }.

Definition is_err {A} (r : res A) : bool := match r with Err EParse => true | _ => false end.

Definition parse_ok (c : parse_case) : bool :=
  match px_kind c, px_obs c with
  | PFact, PXFact p => match parse_fact (px_text c) (px_params c) with Ok q => pred_seqb q p | _ => false end
  | PRule, PXRule r => match parse_rule (px_text c) (px_params c) with Ok q => rule_seqb q r | _ => false end
  | PCheck, PXCheck k => match parse_check (px_text c) (px_params c) with Ok q => check_seqb q k | _ => false end
  | PPolicy, PXPolicy p => match parse_policy (px_text c) (px_params c) with Ok q => policy_seqb q p | _ => false end
  | PBlock, PXBlock b => match parse_block (px_text c) (px_params c) with Ok q => block_seqb q b | _ => false end
  | PFact, PXErr => is_err (parse_fact (px_text c) (px_params c))
  | PRule, PXErr => is_err (parse_rule (px_text c) (px_params c))
  | PCheck, PXErr => is_err (parse_check (px_text c) (px_params c))
  | PPolicy, PXErr => is_err (parse_policy (px_text c) (px_params c))
  | PBlock, PXErr => is_err (parse_block (px_text c) (px_params c))
  | _, _ => false
  end.

(* ---------- printing (C15) ---------- *)
From BV Require Import Printer.

Record print_case := { pr_block : block; pr_code : bytes }.

(* the model prints the same text byte for byte, and its parser maps the
   printed sections back to the block *)
Definition print_ok (c : print_case) : bool :=
  bytes_eqb (block_code (fun _ => 0) (pr_block c)) (pr_code c) &&
  match parse_block (reassemble (print_block (fun _ => 0) (pr_block c))) [] with
  | Ok b => block_seqb b (pr_block c)
  | _ => false
  end.

(* ---------- authorizer snapshots (C18) ---------- *)
From BV Require Import Authz Datalog Snapshot.

Record snap_case := { sn_ops : list aop; sn_bytes : bytes }.

Definition d_apply (a : dauth) (o : aop) : dauth :=
  match o with
  | OAddFact f => d_add_fact a f
  | OAddRule r => d_add_rule a r
  | OAddCheck c => d_add_check a c
  | OAddPolicy p => d_add_policy a p
  | _ => a
  end.

(* the model's SerializePolicies produces the very bytes the implementation
   produced, and loading them into a fresh authorizer gives the same S-level state *)
Definition snap_ok (c : snap_case) : bool :=
  let lim := {| max_facts := 1000; max_iterations := 100 |} in
  let a := fold_left d_apply (sn_ops c) (dfresh lim) in
  match save a with
  | Ok bs =>
      bytes_eqb bs (sn_bytes c) &&
      match load (dfresh lim) bs with
      | Ok a' =>
          list_eqb pred_seqb (a_facts (sem a')) (a_facts (sem a)) &&
          list_eqb rule_seqb (a_rules (sem a')) (a_rules (sem a)) &&
          list_eqb check_seqb (a_checks (sem a')) (a_checks (sem a)) &&
          list_eqb policy_seqb (a_policies (sem a')) (a_policies (sem a))
      | _ => false
      end
  | _ => false
  end.
