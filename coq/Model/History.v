(* History.v — the history machine: operation sequences over a growing family of
   builders, block builders, blocks and tokens that share ancestors (C07, C08).
   Objects are referred to by their index in creation order; nothing is ever
   removed, so every object stays observable. *)
From BV Require Import Base Term DTerm Symbols Chain Wire Token.

Record hstate := {
  hs_builders : list builder;
  hs_bbuilders : list bbuilder;
  hs_blocks : list dblock;
  hs_tokens : list token }.
Definition hinit : hstate := {| hs_builders := []; hs_bbuilders := []; hs_blocks := []; hs_tokens := [] |}.

Inductive hop :=
| HNewBuilder (base : table) (rid : option N)
| HBuAddFact (i : nat) (f : pred)
| HBuAddRule (i : nat) (r : rule)
| HBuAddCheck (i : nat) (c : check)
| HBuSetContext (i : nat) (s : bytes)
| HBuBuild (i : nat) (src : source)
| HCreateBlock (t : nat)
| HBbAddFact (j : nat) (f : pred)
| HBbAddRule (j : nat) (r : rule)
| HBbAddCheck (j : nat) (c : check)
| HBbSetContext (j : nat) (s : bytes)
| HBbBuild (j : nat)
| HAppend (t : nat) (b : nat) (src : source)
| HSeal (t : nat)
| HReload (t : nat)
| HGetBlockID (t : nat) (f : pred).

Inductive hout :=
| HDone                      (* operation succeeded (a new object may have been created) *)
| HFail (e : err)
| HPanicked
| HIndex (i : option nat)    (* GetBlockID *)
| HBad.                      (* the history refers to an object that does not exist *)

Fixpoint set_nth {A} (l : list A) (i : nat) (x : A) : list A :=
  match l, i with
  | [], _ => []
  | _ :: l', O => x :: l'
  | y :: l', S i' => y :: set_nth l' i' x
  end.

Definition of_res {A} (r : res A) : hout :=
  match r with Ok _ => HDone | Err e => HFail e | Panic _ => HPanicked end.

Section Hist.
  Variable pub : bytes -> bytes.
  Variable sign : bytes -> bytes -> bytes.
  Variable root_seed : bytes.

  Definition with_builders s l := {| hs_builders := l; hs_bbuilders := hs_bbuilders s; hs_blocks := hs_blocks s; hs_tokens := hs_tokens s |}.
  Definition with_bbuilders s l := {| hs_builders := hs_builders s; hs_bbuilders := l; hs_blocks := hs_blocks s; hs_tokens := hs_tokens s |}.
  Definition add_block s b := {| hs_builders := hs_builders s; hs_bbuilders := hs_bbuilders s; hs_blocks := hs_blocks s ++ [b]; hs_tokens := hs_tokens s |}.
  Definition add_token s t := {| hs_builders := hs_builders s; hs_bbuilders := hs_bbuilders s; hs_blocks := hs_blocks s; hs_tokens := hs_tokens s ++ [t] |}.

  Definition hstep (s : hstate) (o : hop) : hstate * hout :=
    match o with
    | HNewBuilder base rid => (with_builders s (hs_builders s ++ [new_builder base rid]), HDone)
    | HBuAddFact i f =>
        match nth_error (hs_builders s) i with
        | Some b => let '(b', r) := bu_add_fact b f in (with_builders s (set_nth (hs_builders s) i b'), of_res r)
        | None => (s, HBad)
        end
    | HBuAddRule i r =>
        match nth_error (hs_builders s) i with
        | Some b => (with_builders s (set_nth (hs_builders s) i (bu_add_rule b r)), HDone)
        | None => (s, HBad)
        end
    | HBuAddCheck i c =>
        match nth_error (hs_builders s) i with
        | Some b => (with_builders s (set_nth (hs_builders s) i (bu_add_check b c)), HDone)
        | None => (s, HBad)
        end
    | HBuSetContext i c =>
        match nth_error (hs_builders s) i with
        | Some b => (with_builders s (set_nth (hs_builders s) i (bu_set_context b c)), HDone)
        | None => (s, HBad)
        end
    | HBuBuild i src =>
        match nth_error (hs_builders s) i with
        | Some b =>
            match bu_build pub sign root_seed b src with
            | Ok (t, _) => (add_token s t, HDone)
            | Err e => (s, HFail e)
            | Panic _ => (s, HPanicked)
            end
        | None => (s, HBad)
        end
    | HCreateBlock t =>
        match nth_error (hs_tokens s) t with
        | Some tk => (with_bbuilders s (hs_bbuilders s ++ [create_block tk]), HDone)
        | None => (s, HBad)
        end
    | HBbAddFact j f =>
        match nth_error (hs_bbuilders s) j with
        | Some b => let '(b', r) := bb_add_fact b f in (with_bbuilders s (set_nth (hs_bbuilders s) j b'), of_res r)
        | None => (s, HBad)
        end
    | HBbAddRule j r =>
        match nth_error (hs_bbuilders s) j with
        | Some b => (with_bbuilders s (set_nth (hs_bbuilders s) j (bb_add_rule b r)), HDone)
        | None => (s, HBad)
        end
    | HBbAddCheck j c =>
        match nth_error (hs_bbuilders s) j with
        | Some b => (with_bbuilders s (set_nth (hs_bbuilders s) j (bb_add_check b c)), HDone)
        | None => (s, HBad)
        end
    | HBbSetContext j c =>
        match nth_error (hs_bbuilders s) j with
        | Some b => (with_bbuilders s (set_nth (hs_bbuilders s) j (bb_set_context b c)), HDone)
        | None => (s, HBad)
        end
    | HBbBuild j =>
        match nth_error (hs_bbuilders s) j with
        | Some b =>
            match bb_build b with
            | Ok (blk, b') => (add_block (with_bbuilders s (set_nth (hs_bbuilders s) j b')) blk, HDone)
            | Err e => (s, HFail e)
            | Panic _ => (s, HPanicked)
            end
        | None => (s, HBad)
        end
    | HAppend t b src =>
        match nth_error (hs_tokens s) t, nth_error (hs_blocks s) b with
        | Some tk, Some blk =>
            match tk_append pub sign tk blk src with
            | Ok (t', _) => (add_token s t', HDone)
            | Err e => (s, HFail e)
            | Panic _ => (s, HPanicked)
            end
        | _, _ => (s, HBad)
        end
    | HSeal t =>
        match nth_error (hs_tokens s) t with
        | Some tk =>
            match tk_seal sign tk with
            | Ok t' => (add_token s t', HDone)
            | Err e => (s, HFail e)
            | Panic _ => (s, HPanicked)
            end
        | None => (s, HBad)
        end
    | HReload t =>
        match nth_error (hs_tokens s) t with
        | Some tk =>
            match tk_unmarshal (tk_serialize tk) with
            | Ok t' => (add_token s t', HDone)
            | Err e => (s, HFail e)
            | Panic _ => (s, HPanicked)
            end
        | None => (s, HBad)
        end
    | HGetBlockID t f =>
        match nth_error (hs_tokens s) t with
        | Some tk => (s, HIndex (get_block_id tk f))
        | None => (s, HBad)
        end
    end.

  Fixpoint hrun (s : hstate) (ops : list hop) : hstate * list hout :=
    match ops with
    | [] => (s, [])
    | o :: ops' => let '(s1, out) := hstep s o in
                   let '(s2, outs) := hrun s1 ops' in (s2, out :: outs)
    end.
End Hist.
