(* DEval.v — the INDEX level ("D level") of evaluation: what authorizer.go and the
   datalog package actually compute on.

   The S-level files (Term/Expr/Datalog/Authz) evaluate over string contents.
   The Go code evaluates over indexes into the AUTHORIZER's symbol table
   (v.symbols): strings, variable names and predicate names are uint64/uint32
   indexes; Term.Equal on strings is index equality; the string operators go
   through SymbolTable.Str; Add on two strings INSERTS the concatenation into
   the table (the only way the table grows during evaluation); the authorizer's
   add operations and the loading of token content intern strings into the same
   table (token content goes table-of-the-token -> strings -> table-of-the-
   authorizer, authorizer.go Authorize); Query results and PrintWorld go back
   through that table.

   This file mirrors the S-level definitions one by one with the table threaded
   through.  Proofs/DEvalProofs.v proves that resolving the D level through the
   table gives exactly the S level.

   SymbolTable.Insert = [sym_insert], Str = [sym_str], Sym = [sym_find]
   (Model/Symbols.v). *)
From BV Require Import Base Term Expr Datalog Authz DTerm Symbols Wire Token.
From BV Require Generated.

(* ------------------------------------------------------------------ *)
(** * Terms: types, Equal, Set operations, Match, FactSet.Insert *)

Definition datom_type (a : datom) : ttype :=
  match a with
  | DVar _ => TyVar | DInt _ => TyInt | DStr _ => TyStr | DDate _ => TyDate
  | DBytes _ => TyBytes | DBool _ => TyBool
  end.
Definition dterm_type (x : dterm) : ttype :=
  match x with DA a => datom_type a | DSet _ => TySet end.

(* Set.contains / Intersect / Union (datalog.go), on index-level elements:
   String.Equal is [s == c] on the indexes.  Set.Equal is [dset_equal] and
   Predicate.Equal is [dpred_geqb] (Model/Token.v). *)
Definition dset_contains (s : list datom) (a : datom) : bool := existsb (fun x => datom_eqb x a) s.
Definition dset_add (acc : list datom) (a : datom) : list datom :=
  if dset_contains acc a then acc else acc ++ [a].
Definition dset_intersect (s t : list datom) : list datom :=
  fold_left (fun acc a => if dset_contains t a then dset_add acc a else acc) s [].
Definition dset_union (s t : list datom) : list datom :=
  fold_left dset_add t (fold_left dset_add s []).

Definition dis_var (t : dterm) : bool := match t with DA (DVar _) => true | _ => false end.

(* Predicate.Match *)
Fixpoint dterms_match (a b : list dterm) : bool :=
  match a, b with
  | [], [] => true
  | x :: a', y :: b' => (dis_var x || dis_var y || dterm_geqb x y) && dterms_match a' b'
  | _, _ => false
  end.
Definition dpred_match (f p : dpred) : bool :=
  N.eqb (dp_name f) (dp_name p) && dterms_match (dp_terms f) (dp_terms p).

(* FactSet.Insert / InsertAll *)
Definition dinsert_fact (fs : list dpred) (f : dpred) : list dpred :=
  if dfact_in f fs then fs else fs ++ [f].
Definition dinsert_all (fs nf : list dpred) : list dpred := fold_left dinsert_fact nf fs.

(* ------------------------------------------------------------------ *)
(** * Expressions (datalog/expressions.go) over index-level values *)

(* map[Variable]*Term: the key is the variable's index *)
Definition dbindings := list (N * dterm).
Fixpoint dlookup (b : dbindings) (v : N) : option dterm :=
  match b with
  | [] => None
  | (k, t) :: b' => if N.eqb k v then Some t else dlookup b' v
  end.

Section DEval.
  Variable rx : bytes -> bytes -> option bool.

  Definition dchecked (z : Z) : res dterm :=
    if in_int64 z then Ok (DA (DInt z)) else Err EOverflow.

  (* Length on a String goes through symbols.Str *)
  Definition eval_unary_D (t : table) (u : unop) (v : dterm) : res dterm :=
    match u, v with
    | UNegate, DA (DBool b) => Ok (DA (DBool (negb b)))
    | UNegate, _ => Err EIllTyped
    | UParens, _ => Ok v
    | ULength, DA (DStr s) => Ok (DA (DInt (Z.of_nat (length (sym_str t s)))))
    | ULength, DA (DBytes s) => Ok (DA (DInt (Z.of_nat (length s))))
    | ULength, DSet s => Ok (DA (DInt (Z.of_nat (length s))))
    | ULength, _ => Err EIllTyped
    end.

  Definition dcmp_op (fi : Z -> Z -> bool) (fd : N -> N -> bool) (l r : dterm) : res dterm :=
    match l, r with
    | DA (DInt a), DA (DInt b) => Ok (DA (DBool (fi a b)))
    | DA (DDate a), DA (DDate b) => Ok (DA (DBool (fd a b)))
    | _, _ => Err EIllTyped
    end.

  (* Prefix / Suffix: symbols.Str on both sides *)
  Definition dstr_op (t : table) (f : bytes -> bytes -> bool) (l r : dterm) : res dterm :=
    match l, r with
    | DA (DStr a), DA (DStr b) => Ok (DA (DBool (f (sym_str t a) (sym_str t b))))
    | _, _ => Err EIllTyped
    end.

  Definition dint_op (f : Z -> Z -> res dterm) (l r : dterm) : res dterm :=
    match l, r with
    | DA (DInt a), DA (DInt b) => f a b
    | _, _ => Err EIllTyped
    end.

  (* BinaryOp.Eval.  Every operator leaves the table alone except Add on two
     strings: [symbols.Insert(symbols.Str(l) + symbols.Str(r))]. *)
  Definition eval_binary_D (t : table) (o : binop) (l r : dterm) : table * res dterm :=
    match o with
    | BLessThan => (t, dcmp_op Z.ltb N.ltb l r)
    | BLessOrEqual => (t, dcmp_op Z.leb N.leb l r)
    | BGreaterThan => (t, dcmp_op Z.gtb (fun a b => N.ltb b a) l r)
    | BGreaterOrEqual => (t, dcmp_op Z.geb (fun a b => N.leb b a) l r)
    | BEqual =>
        (t, if negb (ttype_eqb (dterm_type l) (dterm_type r)) then Err EIllTyped else
            match dterm_type l with
            | TyVar => Err EIllTyped
            | _ => Ok (DA (DBool (dterm_geqb l r)))      (* left.Equal(right): indexes *)
            end)
    | BContains =>
        (t, match l with
            | DA (DStr a) =>
                match r with
                | DA (DStr b) => Ok (DA (DBool (contains_sub (sym_str t a) (sym_str t b))))
                | _ => Err EIllTyped
                end
            | _ =>
                match dterm_type r with
                | TyVar => Err EIllTyped
                | _ =>
                    match l with
                    | DSet s =>
                        match r with
                        | DSet rs => Ok (DA (DBool (forallb (fun e => existsb (fun x => datom_eqb x e) s) rs)))
                        | DA a => Ok (DA (DBool (existsb (fun x => datom_eqb a x) s)))
                        end
                    | _ => Err EIllTyped
                    end
                end
            end)
    | BPrefix => (t, dstr_op t has_prefix l r)
    | BSuffix => (t, dstr_op t has_suffix l r)
    | BRegex =>
        (t, match l, r with
            | DA (DStr a), DA (DStr p) =>
                match rx (sym_str t p) (sym_str t a) with Some b => Ok (DA (DBool b)) | None => Err ERegex end
            | _, _ => Err EIllTyped
            end)
    | BAdd =>
        match l with
        | DA (DStr a) =>
            match r with
            | DA (DStr b) =>
                let '(t', i) := sym_insert t (sym_str t a ++ sym_str t b) in (t', Ok (DA (DStr i)))
            | _ => (t, Err EIllTyped)
            end
        | _ => (t, dint_op (fun a b => dchecked (a + b)%Z) l r)
        end
    | BSub => (t, dint_op (fun a b => dchecked (a - b)%Z) l r)
    | BMul => (t, dint_op (fun a b => dchecked (a * b)%Z) l r)
    | BDiv => (t, dint_op (fun a b => if Z.eqb b 0 then Err EDivZero else dchecked (Z.quot a b)) l r)
    | BAnd =>
        (t, match l, r with
            | DA (DBool a), DA (DBool b) => Ok (DA (DBool (a && b)))
            | _, _ => Err EIllTyped
            end)
    | BOr =>
        (t, match l, r with
            | DA (DBool a), DA (DBool b) => Ok (DA (DBool (a || b)))
            | _, _ => Err EIllTyped
            end)
    | BIntersection =>
        (t, match l, r with
            | DSet a, DSet b => Ok (DSet (dset_intersect a b))
            | _, _ => Err EIllTyped
            end)
    | BUnion =>
        (t, match l, r with
            | DSet a, DSet b => Ok (DSet (dset_union a b))
            | _, _ => Err EIllTyped
            end)
    end.

  Definition push_D (st : list dterm) (v : dterm) : res (list dterm) :=
    if (max_stack <=? length st)%nat then Err EIllTyped else Ok (v :: st).

  (* one operation; the table comes back, possibly extended, also on an error *)
  Definition step_D (t : table) (b : dbindings) (st : list dterm) (o : dop) : table * res (list dterm) :=
    match o with
    | DOVal (DA (DVar v)) =>
        (t, match dlookup b v with
            | Some x => push_D st x
            | None => Err EUnknownVar
            end)
    | DOVal x => (t, push_D st x)
    | DOUn u =>
        (t, match st with
            | v :: st' => do r <- eval_unary_D t u v; push_D st' r
            | [] => Err EIllTyped
            end)
    | DOBin o =>
        match st with
        | r :: l :: st' =>
            let '(t', x) := eval_binary_D t o l r in
            (t', do v <- x; push_D st' v)
        | _ => (t, Err EIllTyped)
        end
    end.

  Fixpoint run_ops_D (t : table) (b : dbindings) (st : list dterm) (e : dexpr) : table * res (list dterm) :=
    match e with
    | [] => (t, Ok st)
    | o :: e' =>
        match step_D t b st o with
        | (t', Ok st') => run_ops_D t' b st' e'
        | (t', Err x) => (t', Err x)
        | (t', Panic n) => (t', Panic n)
        end
    end.

  (* Expression.Evaluate(values, symbols) *)
  Definition eval_D (t : table) (e : dexpr) (b : dbindings) : table * res dterm :=
    match run_ops_D t b [] e with
    | (t', Ok [v]) => (t', Ok v)
    | (t', Ok _) => (t', Err EIllTyped)
    | (t', Err x) => (t', Err x)
    | (t', Panic n) => (t', Panic n)
    end.

  (* ------------------------------------------------------------------ *)
  (** * Rule application and World.Run (datalog/datalog.go) *)

  (* MatchedVariables.Insert: keys are variable indexes, values compared with Equal *)
  Fixpoint bind_terms_D (pt ft : list dterm) (b : dbindings) : option dbindings :=
    match pt, ft with
    | [], _ => Some b
    | _, [] => Some b
    | DA (DVar k) :: pt', v :: ft' =>
        match dlookup b k with
        | None => bind_terms_D pt' ft' (b ++ [(k, v)])
        | Some ex => if dterm_geqb v ex then bind_terms_D pt' ft' b else None
        end
    | _ :: pt', _ :: ft' => bind_terms_D pt' ft' b
    end.

  Fixpoint bind_all_D (ps : list dpred) (fs : list dpred) (b : dbindings) : option dbindings :=
    match ps, fs with
    | p :: ps', f :: fs' =>
        match bind_terms_D (dp_terms p) (dp_terms f) b with
        | Some b' => bind_all_D ps' fs' b'
        | None => None
        end
    | _, _ => Some b
    end.

  Fixpoint combos_D (ps : list dpred) (facts : list dpred) : list (list dpred) :=
    match ps with
    | [] => [[]]
    | p :: ps' =>
        flat_map (fun f => map (cons f) (combos_D ps' facts))
                 (filter (fun f => dpred_match f p) facts)
    end.

  (* the expressions of one candidate, left to right, with the table threaded *)
  Fixpoint eval_exprs_D (t : table) (es : list dexpr) (b : dbindings) : table * res bool :=
    match es with
    | [] => (t, Ok true)
    | e :: es' =>
        match eval_D t e b with
        | (t', Ok v) => if dterm_geqb v (DA (DBool true)) then eval_exprs_D t' es' b else (t', Ok false)
        | (t', Err x) => (t', Err x)
        | (t', Panic n) => (t', Panic n)
        end
    end.

  Fixpoint inst_terms_D (ts : list dterm) (b : dbindings) : option (list dterm) :=
    match ts with
    | [] => Some []
    | DA (DVar k) :: ts' =>
        match dlookup b k, inst_terms_D ts' b with
        | Some v, Some r => Some (v :: r)
        | _, _ => None
        end
    | x :: ts' =>
        match inst_terms_D ts' b with
        | Some r => Some (x :: r)
        | None => None
        end
    end.

  Definition inst_head_D (h : dpred) (b : dbindings) : option dpred :=
    match inst_terms_D (dp_terms h) b with
    | Some ts => Some {| dp_name := dp_name h; dp_terms := ts |}
    | None => None
    end.

  Fixpoint consume_D (t : table) (r : drule) (cs : list (list dpred)) (acc : list dpred)
    : table * (list dpred * option err) :=
    match cs with
    | [] => (t, (acc, None))
    | c :: cs' =>
        match bind_all_D (dr_body r) c [] with
        | None => consume_D t r cs' acc
        | Some b =>
            match eval_exprs_D t (dr_exprs r) b with
            | (t', Err e) => (t', (acc, Some e))
            | (t', Panic _) => (t', (acc, Some EOther))
            | (t', Ok false) => consume_D t' r cs' acc
            | (t', Ok true) =>
                match inst_head_D (dr_head r) b with
                | None => (t', (acc, Some EInvalidRule))
                | Some f => consume_D t' r cs' (dinsert_fact acc f)
                end
            end
        end
    end.

  (* Rule.Apply(facts, newFacts, syms) *)
  Definition apply_rule_D (t : table) (r : drule) (facts : list dpred) (acc : list dpred)
    : table * (list dpred * option err) :=
    consume_D t r (combos_D (dr_body r) facts) acc.

  (* World.QueryRule(rule, syms) *)
  Definition query_rule_D (t : table) (r : drule) (facts : list dpred) : table * list dpred :=
    let '(t', (fs, _)) := apply_rule_D t r facts [] in (t', fs).

  Fixpoint apply_rules_D (t : table) (rs : list drule) (facts : list dpred) (acc : list dpred)
    : table * (list dpred * option err) :=
    match rs with
    | [] => (t, (acc, None))
    | r :: rs' =>
        match apply_rule_D t r facts acc with
        | (t', (acc', None)) => apply_rules_D t' rs' facts acc'
        | (t', (acc', Some e)) => (t', (acc', Some e))
        end
    end.

  (* World.Run(syms): same limits, same order of the tests as [run_loop] *)
  Fixpoint run_loop_D (fuel : nat) (mf : N) (t : table) (rs : list drule) (facts : list dpred)
    : table * (list dpred * option err) :=
    match fuel with
    | O => (t, (facts, Some EMaxIterations))
    | S fuel' =>
        match apply_rules_D t rs facts [] with
        | (t', (_, Some e)) => (t', (facts, Some e))
        | (t', (nf, None)) =>
            let facts' := dinsert_all facts nf in
            if (mf <=? lenN facts')%N then (t', (facts', Some EMaxFacts))
            else if Nat.eqb (length facts') (length facts) then (t', (facts', None))
            else run_loop_D fuel' mf t' rs facts'
        end
    end.

  Definition run_D (lim : limits) (t : table) (rs : list drule) (facts : list dpred)
    : table * (list dpred * option err) :=
    run_loop_D (N.to_nat (max_iterations lim)) (max_facts lim) t rs facts.

  (* ------------------------------------------------------------------ *)
  (** * The authorizer (authorizer.go) *)

  (* world.facts / world.rules hold indexes into [d_syms] (v.symbols); checks and
     policies are kept at builder level (strings) and converted when used *)
  Record dstate := {
    d_syms : table;
    d_facts : list dpred;
    d_rules : list drule;
    d_checks : list check;
    d_policies : list policy;
    d_dirty : bool;
    d_limits : limits }.

  (* NewVerifier: baseSymbols = defaultSymbolTable.Clone() = the empty table *)
  Definition fresh_D (lim : limits) : dstate :=
    {| d_syms := []; d_facts := []; d_rules := []; d_checks := []; d_policies := [];
       d_dirty := false; d_limits := lim |}.

  (* AddFact: v.world.AddFact(fact.convert(v.symbols)) *)
  Definition add_fact_D (s : dstate) (f : pred) : dstate :=
    let '(t, d) := intern_pred (d_syms s) f in
    {| d_syms := t; d_facts := dinsert_fact (d_facts s) d; d_rules := d_rules s; d_checks := d_checks s;
       d_policies := d_policies s; d_dirty := d_dirty s; d_limits := d_limits s |}.
  Definition add_rule_D (s : dstate) (r : rule) : dstate :=
    let '(t, d) := intern_rule (d_syms s) r in
    {| d_syms := t; d_facts := d_facts s; d_rules := d_rules s ++ [d]; d_checks := d_checks s;
       d_policies := d_policies s; d_dirty := d_dirty s; d_limits := d_limits s |}.
  Definition add_check_D (s : dstate) (c : check) : dstate :=
    {| d_syms := d_syms s; d_facts := d_facts s; d_rules := d_rules s; d_checks := d_checks s ++ [c];
       d_policies := d_policies s; d_dirty := d_dirty s; d_limits := d_limits s |}.
  Definition add_policy_D (s : dstate) (p : policy) : dstate :=
    {| d_syms := d_syms s; d_facts := d_facts s; d_rules := d_rules s; d_checks := d_checks s;
       d_policies := d_policies s ++ [p]; d_dirty := d_dirty s; d_limits := d_limits s |}.
  (* Reset: world = baseWorld.Clone(); symbols = baseSymbols.Clone() *)
  Definition reset_D (s : dstate) : dstate := fresh_D (d_limits s).

  (* a run of AddFact(f.convert(symbols)): convert, insert, next *)
  Fixpoint add_facts_D (t : table) (facts : list dpred) (fs : list pred) : table * list dpred :=
    match fs with
    | [] => (t, facts)
    | f :: fs' => let '(t1, d) := intern_pred t f in add_facts_D t1 (dinsert_fact facts d) fs'
    end.

  (* the queries of a converted check, in order, until one has a result (break) *)
  Fixpoint check_holds_D (t : table) (facts : list dpred) (c : dcheck) : table * bool :=
    match c with
    | [] => (t, false)
    | q :: c' =>
        let '(t1, fs) := query_rule_D t q facts in
        if negb (Nat.eqb (length fs) 0) then (t1, true) else check_holds_D t1 facts c'
    end.

  (* for i, check := range checks { c := check.convert(v.symbols); ... } *)
  Fixpoint failed_checks_D (t : table) (o : origin) (facts : list dpred) (cs : list check) (i : N)
    : table * list (origin * N) :=
    match cs with
    | [] => (t, [])
    | c :: cs' =>
        let '(t1, dc) := intern_check t c in
        let '(t2, ok) := check_holds_D t1 facts dc in
        let '(t3, rest) := failed_checks_D t2 o facts cs' (i + 1) in
        (t3, (if ok then [] else [(o, i)]) ++ rest)
    end.

  (* a policy's queries are converted one at a time: QueryRule(query.convert(v.symbols), v.symbols) *)
  Fixpoint policy_queries_D (t : table) (facts : list dpred) (qs : list rule) : table * bool :=
    match qs with
    | [] => (t, false)
    | q :: qs' =>
        let '(t1, dq) := intern_rule t q in
        let '(t2, fs) := query_rule_D t1 dq facts in
        if negb (Nat.eqb (length fs) 0) then (t2, true) else policy_queries_D t2 facts qs'
    end.
  Fixpoint policy_result_D (t : table) (facts : list dpred) (ps : list policy) : table * option pkind :=
    match ps with
    | [] => (t, None)
    | p :: ps' =>
        let '(t1, ok) := policy_queries_D t facts (pol_queries p) in
        if ok then (t1, Some (pol_kind p)) else policy_result_D t1 facts ps'
    end.

  (* the blocks after the authority: block_world := v.world.Clone() (facts of the
     authority-level world, no rules), the block's facts and rules converted from
     the token's table [tt] to v.symbols, Run, the block's checks *)
  Fixpoint blocks_phase_D (lim : limits) (tt : table) (t : table) (wfacts : list dpred)
      (bs : list dblock) (i : N) : table * res (list (origin * N)) :=
    match bs with
    | [] => (t, Ok [])
    | b :: bs' =>
        let '(t1, bf) := add_facts_D t wfacts (map (resolve_pred tt) (db_facts b)) in
        let '(t2, rs) := intern_rules t1 (map (resolve_rule tt) (db_rules b)) in
        match run_D lim t2 rs bf with
        | (t3, (_, Some e)) => (t3, Err e)
        | (t3, (bf', None)) =>
            let '(t4, errs) :=
              failed_checks_D t3 (FromBlock i) bf' (map (resolve_check tt) (db_checks b)) 0 in
            match blocks_phase_D lim tt t4 wfacts bs' (i + 1) with
            | (t5, Ok rest) => (t5, Ok (errs ++ rest))
            | (t5, Err e) => (t5, Err e)
            | (t5, Panic n) => (t5, Panic n)
            end
        end
    end.

  (* Authorize, in the order of authorizer.go *)
  Definition authorize_D (tok : token) (s : dstate) : dstate * verdict :=
    let tt := tk_symbols tok in
    let auth := tk_authority tok in
    let '(t1, facts0) := add_facts_D (d_syms s) (d_facts s) (map (resolve_pred tt) (db_facts auth)) in
    let '(t2, arules) := intern_rules t1 (map (resolve_rule tt) (db_rules auth)) in
    let rules0 := d_rules s ++ arules in
    let mk t fs rs := {| d_syms := t; d_facts := fs; d_rules := rs; d_checks := d_checks s;
                         d_policies := d_policies s; d_dirty := true; d_limits := d_limits s |} in
    match run_D (d_limits s) t2 rules0 facts0 with
    | (t3, (fs, Some e)) => (mk t3 fs rules0, VRunError e)
    | (t3, (fs, None)) =>
        let '(t4, errs1) := failed_checks_D t3 FromAuthorizer fs (d_checks s) 0 in
        let '(t5, errs2) :=
          failed_checks_D t4 (FromBlock 0) fs (map (resolve_check tt) (db_checks auth)) 0 in
        let '(t6, pol) := policy_result_D t5 fs (d_policies s) in
        match blocks_phase_D (d_limits s) tt t6 fs (tk_blocks tok) 1 with
        | (t7, Err e) => (mk t7 fs [], VRunError e)
        | (t7, Panic _) => (mk t7 fs [], VRunError EOther)
        | (t7, Ok errs3) =>
            let errs := errs1 ++ errs2 ++ errs3 in
            (mk t7 fs [],
             match errs with
             | _ :: _ => VChecksFailed errs
             | [] => match pol with
                     | Some Allow => VSuccess
                     | Some Deny => VPolicyDenied
                     | None => VNoMatchingPolicy
                     end
             end)
        end
    end.

  (* Query: Run, convert the query, QueryRule, and the result back through
     fromDatalogFact(v.symbols, _) *)
  Definition query_D (s : dstate) (q : rule) : dstate * res (list pred) :=
    match run_D (d_limits s) (d_syms s) (d_rules s) (d_facts s) with
    | (t1, (fs, Some e)) =>
        ({| d_syms := t1; d_facts := fs; d_rules := d_rules s; d_checks := d_checks s;
            d_policies := d_policies s; d_dirty := d_dirty s; d_limits := d_limits s |}, Err e)
    | (t1, (fs, None)) =>
        let '(t2, dq) := intern_rule t1 q in
        let '(t3, res) := query_rule_D t2 dq fs in
        ({| d_syms := t3; d_facts := fs; d_rules := d_rules s; d_checks := d_checks s;
            d_policies := d_policies s; d_dirty := true; d_limits := d_limits s |},
         Ok (map (resolve_pred t3) res))
    end.

  (* what PrintWorld / the harness reads: the world through v.symbols *)
  Definition world_D (s : dstate) : list pred := map (resolve_pred (d_syms s)) (d_facts s).
  Definition resolve_state (s : dstate) : astate :=
    {| a_facts := map (resolve_pred (d_syms s)) (d_facts s);
       a_rules := map (resolve_rule (d_syms s)) (d_rules s);
       a_checks := d_checks s; a_policies := d_policies s;
       a_dirty := d_dirty s; a_limits := d_limits s |}.

  Definition astep_D (tok : token) (s : dstate) (o : aop) : dstate :=
    match o with
    | OAddFact f => add_fact_D s f
    | OAddRule r => add_rule_D s r
    | OAddCheck c => add_check_D s c
    | OAddPolicy p => add_policy_D s p
    | OAuthorize => fst (authorize_D tok s)
    | OQuery q => fst (query_D s q)
    | OReset => reset_D s
    end.

  Definition aobserve_D (tok : token) (s : dstate) (o : aop) : aoutput :=
    match o with
    | OAuthorize => OutVerdict (snd (authorize_D tok s))
    | OQuery q => OutResult (snd (query_D s q))
    | _ => OutNone
    end.

  Fixpoint atrace_D (tok : token) (ops : list aop) (s : dstate) : list aoutput :=
    match ops with
    | [] => []
    | o :: ops' => aobserve_D tok s o :: atrace_D tok ops' (astep_D tok s o)
    end.
End DEval.
