(* Token.v — tokens, builders and block builders at the D level (symbol indexes),
   as biscuit.go / builder.go hold them, and the history machine over a growing
   family of builders, blocks and tokens (C07, C08).

   Symbol tables are pure lists: since the repair of SymbolTable.Clone (8abbbd4)
   no two live tables share storage.  The one remaining destructive operation is
   blockBuilder.Build, which replaces the builder's table by the split-off part
   (recorded finding: a second Build on the same block builder panics or yields
   a block with the wrong symbols); it is modelled as the code is. *)
From BV Require Import Base Term DTerm Symbols Chain Wire.

(* Predicate.Equal at D level (FactSet.Insert, GetBlockID): index equality for
   strings, Set.Equal's length + inclusion in both directions for sets *)
Definition dset_equal (s c : list datom) : bool :=
  Nat.eqb (length c) (length s) && forallb (fun x => existsb (fun y => datom_eqb y x) c) s
  && forallb (fun x => existsb (fun y => datom_eqb y x) s) c.
Definition dterm_geqb (a b : dterm) : bool :=
  match a, b with
  | DA x, DA y => datom_eqb x y
  | DSet x, DSet y => dset_equal x y
  | _, _ => false
  end.
Definition dpred_geqb (p q : dpred) : bool :=
  N.eqb (dp_name p) (dp_name q) && list_eqb dterm_geqb (dp_terms p) (dp_terms q).
Definition dfact_in (f : dpred) (fs : list dpred) : bool := existsb (fun g => dpred_geqb g f) fs.

Record token := {
  tk_authority : dblock;
  tk_blocks : list dblock;
  tk_symbols : table;           (* cumulative table: every block's new symbols, in order *)
  tk_container : container }.

(* ---------- Builder (authority block) ---------- *)
Record builder := {
  bu_start : nat;               (* symbolsStart: length of the base table *)
  bu_syms : table;
  bu_facts : list dpred;
  bu_rules : list drule;
  bu_checks : list dcheck;
  bu_context : bytes;
  bu_rootid : option N }.

Definition new_builder (base : table) (rid : option N) : builder :=
  {| bu_start := length base; bu_syms := base; bu_facts := []; bu_rules := []; bu_checks := [];
     bu_context := []; bu_rootid := rid |}.

(* AddAuthorityFact: the fact is interned first (the table keeps the new symbols
   even when the fact turns out to be a duplicate) *)
Definition bu_add_fact (b : builder) (f : pred) : builder * res unit :=
  let '(t, d) := intern_pred (bu_syms b) f in
  if dfact_in d (bu_facts b) then
    ({| bu_start := bu_start b; bu_syms := t; bu_facts := bu_facts b; bu_rules := bu_rules b;
        bu_checks := bu_checks b; bu_context := bu_context b; bu_rootid := bu_rootid b |}, Err EDuplicateFact)
  else
    ({| bu_start := bu_start b; bu_syms := t; bu_facts := bu_facts b ++ [d]; bu_rules := bu_rules b;
        bu_checks := bu_checks b; bu_context := bu_context b; bu_rootid := bu_rootid b |}, Ok tt).
Definition bu_add_rule (b : builder) (r : rule) : builder :=
  let '(t, d) := intern_rule (bu_syms b) r in
  {| bu_start := bu_start b; bu_syms := t; bu_facts := bu_facts b; bu_rules := bu_rules b ++ [d];
     bu_checks := bu_checks b; bu_context := bu_context b; bu_rootid := bu_rootid b |}.
Definition bu_add_check (b : builder) (c : check) : builder :=
  let '(t, d) := intern_check (bu_syms b) c in
  {| bu_start := bu_start b; bu_syms := t; bu_facts := bu_facts b; bu_rules := bu_rules b;
     bu_checks := bu_checks b ++ [d]; bu_context := bu_context b; bu_rootid := bu_rootid b |}.
Definition bu_set_context (b : builder) (c : bytes) : builder :=
  {| bu_start := bu_start b; bu_syms := bu_syms b; bu_facts := bu_facts b; bu_rules := bu_rules b;
     bu_checks := bu_checks b; bu_context := c; bu_rootid := bu_rootid b |}.

(* ---------- BlockBuilder ---------- *)
Record bbuilder := {
  bb_start : nat;
  bb_syms : table;
  bb_facts : list dpred;
  bb_rules : list drule;
  bb_checks : list dcheck;
  bb_context : bytes }.

Definition new_bbuilder (base : table) : bbuilder :=
  {| bb_start := length base; bb_syms := base; bb_facts := []; bb_rules := []; bb_checks := []; bb_context := [] |}.

Definition bb_add_fact (b : bbuilder) (f : pred) : bbuilder * res unit :=
  let '(t, d) := intern_pred (bb_syms b) f in
  if dfact_in d (bb_facts b) then
    ({| bb_start := bb_start b; bb_syms := t; bb_facts := bb_facts b; bb_rules := bb_rules b;
        bb_checks := bb_checks b; bb_context := bb_context b |}, Err EDuplicateFact)
  else
    ({| bb_start := bb_start b; bb_syms := t; bb_facts := bb_facts b ++ [d]; bb_rules := bb_rules b;
        bb_checks := bb_checks b; bb_context := bb_context b |}, Ok tt).
Definition bb_add_rule (b : bbuilder) (r : rule) : bbuilder :=
  let '(t, d) := intern_rule (bb_syms b) r in
  {| bb_start := bb_start b; bb_syms := t; bb_facts := bb_facts b; bb_rules := bb_rules b ++ [d];
     bb_checks := bb_checks b; bb_context := bb_context b |}.
Definition bb_add_check (b : bbuilder) (c : check) : bbuilder :=
  let '(t, d) := intern_check (bb_syms b) c in
  {| bb_start := bb_start b; bb_syms := t; bb_facts := bb_facts b; bb_rules := bb_rules b;
     bb_checks := bb_checks b ++ [d]; bb_context := bb_context b |}.
Definition bb_set_context (b : bbuilder) (c : bytes) : bbuilder :=
  {| bb_start := bb_start b; bb_syms := bb_syms b; bb_facts := bb_facts b; bb_rules := bb_rules b;
     bb_checks := bb_checks b; bb_context := c |}.

(* blockBuilder.Build: b.symbols = b.symbols.SplitOff(b.symbolsStart) — the
   builder keeps only the split-off part; panics when the table is shorter than
   symbolsStart (second Build) *)
Definition bb_build (b : bbuilder) : res (dblock * bbuilder) :=
  if (length (bb_syms b) <? bb_start b)%nat then Panic 2 else
  let news := skipn (bb_start b) (bb_syms b) in
  Ok ({| db_symbols := news; db_context := bb_context b; db_version := Generated.max_schema_version;
         db_facts := bb_facts b; db_rules := bb_rules b; db_checks := bb_checks b |},
      {| bb_start := bb_start b; bb_syms := news; bb_facts := bb_facts b; bb_rules := bb_rules b;
         bb_checks := bb_checks b; bb_context := bb_context b |}).

(* Block.checkSymbols: every symbol index below the end of the cumulative table *)
Definition datom_closed (lim : N) (a : datom) : bool :=
  match a with DVar v => v <? lim | DStr s => s <? lim | _ => true end.
Definition dterm_closed (lim : N) (t : dterm) : bool :=
  match t with DA a => datom_closed lim a | DSet l => forallb (datom_closed lim) l end.
Definition dpred_closed (lim : N) (p : dpred) : bool :=
  (dp_name p <? lim) && forallb (dterm_closed lim) (dp_terms p).
Definition dop_closed (lim : N) (o : dop) : bool :=
  match o with DOVal t => dterm_closed lim t | _ => true end.
Definition drule_closed (lim : N) (r : drule) : bool :=
  dpred_closed lim (dr_head r) && forallb (dpred_closed lim) (dr_body r) &&
  forallb (forallb (dop_closed lim)) (dr_exprs r).
Definition dblock_closed (lim : N) (b : dblock) : bool :=
  forallb (dpred_closed lim) (db_facts b) && forallb (drule_closed lim) (db_rules b) &&
  forallb (forallb (drule_closed lim)) (db_checks b).

Section Tok.
  Variable pub : bytes -> bytes.
  Variable sign : bytes -> bytes -> bytes.
  Variable verify : bytes -> bytes -> bytes -> bool.

  (* newBiscuit: overlap check, cumulative table, key draw, block conversion, signature *)
  Definition new_biscuit (root_seed : bytes) (rid : option N) (base : table) (blk : dblock) (src : source)
    : res (token * source) :=
    if negb (sym_disjoint base (db_symbols blk)) then Err ESymbolOverlap else
    let syms := sym_extend base (db_symbols blk) in
    do _ <- gen_seed src;
    do bs <- enc_block blk;
    do r <- build pub sign root_seed rid bs src;
    Ok ({| tk_authority := blk; tk_blocks := []; tk_symbols := syms; tk_container := fst r |}, snd r).

  (* Builder.Build (after fix c7634ba): works on copies, the builder is unchanged *)
  Definition bu_build (root_seed : bytes) (b : builder) (src : source) : res (token * source) :=
    if (length (bu_syms b) <? bu_start b)%nat then Panic 2 else
    let base := firstn (bu_start b) (bu_syms b) in
    let blk := {| db_symbols := skipn (bu_start b) (bu_syms b); db_context := bu_context b;
                  db_version := Generated.max_schema_version; db_facts := bu_facts b;
                  db_rules := bu_rules b; db_checks := bu_checks b |} in
    new_biscuit root_seed (bu_rootid b) base blk src.

  Definition create_block (t : token) : bbuilder := new_bbuilder (tk_symbols t).

  Definition tk_append (t : token) (blk : dblock) (src : source) : res (token * source) :=
    match c_proof (tk_container t) with
    | PNextSecret s =>
        if negb (length s =? 32)%nat then Err EInvalidKeySize else
        if negb (sym_disjoint (tk_symbols t) (db_symbols blk)) then Err ESymbolOverlap else
        do _ <- gen_seed src;
        do bs <- enc_block blk;
        do r <- append pub sign (tk_container t) bs src;
        Ok ({| tk_authority := tk_authority t; tk_blocks := tk_blocks t ++ [blk];
               tk_symbols := sym_extend (tk_symbols t) (db_symbols blk); tk_container := fst r |}, snd r)
    | _ => Err ESealed
    end.

  Definition tk_seal (t : token) : res token :=
    do c <- seal sign (tk_container t);
    Ok {| tk_authority := tk_authority t; tk_blocks := tk_blocks t; tk_symbols := tk_symbols t; tk_container := c |}.

  Definition tk_serialize (t : token) : bytes := enc_container (tk_container t).

  (* Unmarshal over a base table (the default Unmarshal uses the empty one): size
     gates and block decoding in the order of builder.go, the cumulative table,
     and (fix 6773711) the check that each block only uses declared symbols *)
  Fixpoint unmarshal_blocks (t : table) (sbs : list sblock) : res (list dblock * table) :=
    match sbs with
    | [] => Ok ([], t)
    | sb :: rest =>
        do b <- gate_and_decode sb;
        let t' := sym_extend t (db_symbols b) in
        if negb (dblock_closed (offset + lenN t') b) then Err EMissingSymbols else
        do r <- unmarshal_blocks t' rest;
        Ok (b :: fst r, snd r)
    end.

  Definition tk_unmarshal_with (base : table) (bs : bytes) : res token :=
    do c <- dec_container bs;
    do r <- unmarshal_blocks base (c_auth c :: c_blocks c);
    match fst r with
    | auth :: blocks => Ok {| tk_authority := auth; tk_blocks := blocks; tk_symbols := snd r; tk_container := c |}
    | [] => Err EOther
    end.
  Definition tk_unmarshal (bs : bytes) : res token := tk_unmarshal_with [] bs.

  (* GetBlockID: the probe fact is interned into a copy of the token's table *)
  Definition get_block_id (t : token) (f : pred) : option nat :=
    let d := snd (intern_pred (tk_symbols t) f) in
    let fix go (bs : list dblock) (i : nat) : option nat :=
      match bs with
      | [] => None
      | b :: bs' => if existsb (fun g => dpred_geqb g d) (db_facts b) then Some i else go bs' (S i)
      end in
    go (tk_authority t :: tk_blocks t) O.

  (* what the authorizer evaluates: every block resolved through the cumulative table *)
  Definition resolve_token (t : token) : list block :=
    map (resolve_block (tk_symbols t)) (tk_authority t :: tk_blocks t).

  Definition tk_verify (ks : keysource) (t : token) : res unit :=
    authorizer_for pub verify ks (tk_container t).
End Tok.
