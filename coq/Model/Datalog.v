(* Datalog.v — rule application and World.Run of datalog/datalog.go.

   [combos] is the sequence of fact tuples the odometer of [combine] visits:
   all index tuples in lexicographic order (first body predicate most
   significant) whose every position Matches its predicate.  Each tuple is then
   filtered by consistent variable binding and by the expressions, in order;
   the first expression *error* ends the stream.  (The literal index machine is
   in Odometer.v with its refinement proof.) *)
From BV Require Import Base Term Expr.

Section Datalog.
  Variable rx : bytes -> bytes -> option bool.

  (* MatchedVariables.Insert for one predicate/fact pair *)
  Fixpoint bind_terms (pt ft : list term) (b : bindings) : option bindings :=
    match pt, ft with
    | [], _ => Some b
    | _, [] => Some b
    | TA (AVar k) :: pt', v :: ft' =>
        match lookup b k with
        | None => bind_terms pt' ft' (b ++ [(k, v)])
        | Some ex => if term_eqb v ex then bind_terms pt' ft' b else None
        end
    | _ :: pt', _ :: ft' => bind_terms pt' ft' b
    end.

  Fixpoint bind_all (ps : list pred) (fs : list pred) (b : bindings) : option bindings :=
    match ps, fs with
    | p :: ps', f :: fs' =>
        match bind_terms (p_terms p) (p_terms f) b with
        | Some b' => bind_all ps' fs' b'
        | None => None
        end
    | _, _ => Some b
    end.

  (* lexicographic enumeration, pruned by Match *)
  Fixpoint combos (ps : list pred) (facts : list pred) : list (list pred) :=
    match ps with
    | [] => [[]]
    | p :: ps' =>
        flat_map (fun f => map (cons f) (combos ps' facts))
                 (filter (fun f => pred_match f p) facts)
    end.

  (* expressions left to right: first false drops the tuple, first error stops everything *)
  Fixpoint eval_exprs (es : list expr) (b : bindings) : res bool :=
    match es with
    | [] => Ok true
    | e :: es' =>
        do v <- eval rx e b;
        if term_eqb v (TA (ABool true)) then eval_exprs es' b else Ok false
    end.

  (* head instantiation: only top-level variables are substituted *)
  Fixpoint inst_terms (ts : list term) (b : bindings) : option (list term) :=
    match ts with
    | [] => Some []
    | TA (AVar k) :: ts' =>
        match lookup b k, inst_terms ts' b with
        | Some v, Some r => Some (v :: r)
        | _, _ => None
        end
    | t :: ts' =>
        match inst_terms ts' b with
        | Some r => Some (t :: r)
        | None => None
        end
    end.

  (* missing head variable: the first unbound one decides (InvalidRuleError) *)
  Definition inst_head (h : pred) (b : bindings) : option pred :=
    match inst_terms (p_terms h) b with
    | Some ts => Some {| p_name := p_name h; p_terms := ts |}
    | None => None
    end.

  (* consume the stream of candidate tuples; returns the facts produced and the
     error that ended the stream, if any *)
  Fixpoint consume (r : rule) (cs : list (list pred)) (acc : list pred) : list pred * option err :=
    match cs with
    | [] => (acc, None)
    | c :: cs' =>
        match bind_all (r_body r) c [] with
        | None => consume r cs' acc
        | Some b =>
            match eval_exprs (r_exprs r) b with
            | Err e => (acc, Some e)
            | Panic _ => (acc, Some EOther)
            | Ok false => consume r cs' acc
            | Ok true =>
                match inst_head (r_head r) b with
                | None => (acc, Some EInvalidRule)
                | Some f => consume r cs' (insert_fact acc f)
                end
            end
        end
    end.

  (* Rule.Apply: nothing is emitted for a rule with body predicates over an empty fact set *)
  Definition apply_rule (r : rule) (facts : list pred) (acc : list pred) : list pred * option err :=
    consume r (combos (r_body r) facts) acc.

  (* World.QueryRule: the error is dropped, the facts produced before it are kept *)
  Definition query_rule (r : rule) (facts : list pred) : list pred :=
    fst (apply_rule r facts []).

  (* one round: every rule applied to the same snapshot *)
  Fixpoint apply_rules (rs : list rule) (facts : list pred) (acc : list pred) : list pred * option err :=
    match rs with
    | [] => (acc, None)
    | r :: rs' =>
        match apply_rule r facts acc with
        | (acc', None) => apply_rules rs' facts acc'
        | (acc', Some e) => (acc', Some e)
        end
    end.

  Record limits := { max_facts : N; max_iterations : N }.

  (* World.Run: returns the final fact list of the world and the error, if any.
     fuel = maxIterations, so running out of fuel *is* ErrWorldRunLimitMaxIterations *)
  Fixpoint run_loop (fuel : nat) (mf : N) (rs : list rule) (facts : list pred) : list pred * option err :=
    match fuel with
    | O => (facts, Some EMaxIterations)
    | S fuel' =>
        match apply_rules rs facts [] with
        | (_, Some e) => (facts, Some e)
        | (nf, None) =>
            let facts' := insert_all facts nf in
            if (mf <=? lenN facts')%N then (facts', Some EMaxFacts)
            else if Nat.eqb (length facts') (length facts) then (facts', None)
            else run_loop fuel' mf rs facts'
        end
    end.

  Definition run (lim : limits) (rs : list rule) (facts : list pred) : list pred * option err :=
    run_loop (N.to_nat (max_iterations lim)) (max_facts lim) rs facts.
End Datalog.
