(* Expr.v — the expression stack machine of datalog/expressions.go, one function
   per operator, on resolved (S-level) values.

   regexp is not modelled: [rx pattern subject] is a Section variable
   (None = the pattern does not compile); the correspondence check
   instantiates it with a table computed by Go's regexp. *)
From BV Require Import Base Term.
From BV Require Generated.

Definition int64_min : Z := (-9223372036854775808)%Z.
Definition int64_max : Z := 9223372036854775807%Z.
Definition in_int64 (z : Z) : bool := (int64_min <=? z)%Z && (z <=? int64_max)%Z.

Definition bindings := list (bytes * term).
Fixpoint lookup (b : bindings) (v : bytes) : option term :=
  match b with
  | [] => None
  | (k, t) :: b' => if bytes_eqb k v then Some t else lookup b' v
  end.

(* strings.HasPrefix / HasSuffix / Contains on bytes *)
Fixpoint has_prefix (s p : bytes) : bool :=
  match p, s with
  | [], _ => true
  | y :: p', x :: s' => N.eqb x y && has_prefix s' p'
  | _ :: _, [] => false
  end.
Definition has_suffix (s p : bytes) : bool := has_prefix (rev s) (rev p).
Fixpoint contains_sub (s p : bytes) : bool :=
  has_prefix s p || match s with [] => false | _ :: s' => contains_sub s' p end.

Definition max_stack : nat := N.to_nat Generated.max_stack.

Section Eval.
  Variable rx : bytes -> bytes -> option bool.

  Definition checked (z : Z) : res term :=
    if in_int64 z then Ok (TA (AInt z)) else Err EOverflow.

  Definition eval_unary (u : unop) (v : term) : res term :=
    match u, v with
    | UNegate, TA (ABool b) => Ok (TA (ABool (negb b)))
    | UNegate, _ => Err EIllTyped
    | UParens, _ => Ok v
    | ULength, TA (AStr s) => Ok (TA (AInt (Z.of_nat (length s))))
    | ULength, TA (ABytes s) => Ok (TA (AInt (Z.of_nat (length s))))
    | ULength, TSet s => Ok (TA (AInt (Z.of_nat (length s))))
    | ULength, _ => Err EIllTyped
    end.

  Definition cmp_op (fi : Z -> Z -> bool) (fd : N -> N -> bool) (l r : term) : res term :=
    match l, r with
    | TA (AInt a), TA (AInt b) => Ok (TA (ABool (fi a b)))
    | TA (ADate a), TA (ADate b) => Ok (TA (ABool (fd a b)))
    | _, _ => Err EIllTyped
    end.

  Definition str_op (f : bytes -> bytes -> bool) (l r : term) : res term :=
    match l, r with
    | TA (AStr a), TA (AStr b) => Ok (TA (ABool (f a b)))
    | _, _ => Err EIllTyped
    end.

  Definition int_op (f : Z -> Z -> res term) (l r : term) : res term :=
    match l, r with
    | TA (AInt a), TA (AInt b) => f a b
    | _, _ => Err EIllTyped
    end.

  Definition eval_binary (o : binop) (l r : term) : res term :=
    match o with
    | BLessThan => cmp_op Z.ltb N.ltb l r
    | BLessOrEqual => cmp_op Z.leb N.leb l r
    | BGreaterThan => cmp_op Z.gtb (fun a b => N.ltb b a) l r
    | BGreaterOrEqual => cmp_op Z.geb (fun a b => N.leb b a) l r
    | BEqual =>
        if negb (ttype_eqb (term_type l) (term_type r)) then Err EIllTyped else
        match term_type l with
        | TyVar => Err EIllTyped
        | _ => Ok (TA (ABool (term_eqb l r)))
        end
    | BContains =>
        match l with
        | TA (AStr a) =>
            match r with
            | TA (AStr b) => Ok (TA (ABool (contains_sub a b)))
            | _ => Err EIllTyped
            end
        | _ =>
            match term_type r with
            | TyVar => Err EIllTyped
            | _ =>
                match l with
                | TSet s =>
                    match r with
                    | TSet rs => Ok (TA (ABool (forallb (fun e => existsb (fun x => atom_eqb x e) s) rs)))
                    | TA a => Ok (TA (ABool (existsb (fun x => atom_eqb a x) s)))
                    end
                | _ => Err EIllTyped
                end
            end
        end
    | BPrefix => str_op has_prefix l r
    | BSuffix => str_op has_suffix l r
    | BRegex =>
        match l, r with
        | TA (AStr a), TA (AStr p) =>
            match rx p a with Some b => Ok (TA (ABool b)) | None => Err ERegex end
        | _, _ => Err EIllTyped
        end
    | BAdd =>
        match l with
        | TA (AStr a) =>
            match r with
            | TA (AStr b) => Ok (TA (AStr (a ++ b)))
            | _ => Err EIllTyped
            end
        | _ => int_op (fun a b => checked (a + b)%Z) l r
        end
    | BSub => int_op (fun a b => checked (a - b)%Z) l r
    | BMul => int_op (fun a b => checked (a * b)%Z) l r
    | BDiv => int_op (fun a b => if Z.eqb b 0 then Err EDivZero else checked (Z.quot a b)) l r
    | BAnd =>
        match l, r with
        | TA (ABool a), TA (ABool b) => Ok (TA (ABool (a && b)))
        | _, _ => Err EIllTyped
        end
    | BOr =>
        match l, r with
        | TA (ABool a), TA (ABool b) => Ok (TA (ABool (a || b)))
        | _, _ => Err EIllTyped
        end
    | BIntersection =>
        match l, r with
        | TSet a, TSet b => Ok (TSet (set_intersect a b))
        | _, _ => Err EIllTyped
        end
    | BUnion =>
        match l, r with
        | TSet a, TSet b => Ok (TSet (set_union a b))
        | _, _ => Err EIllTyped
        end
    end.

  Definition push (st : list term) (v : term) : res (list term) :=
    if (max_stack <=? length st)%nat then Err EIllTyped else Ok (v :: st).

  (* the stack is a list with its top first *)
  Definition step (b : bindings) (st : list term) (o : op) : res (list term) :=
    match o with
    | OVal (TA (AVar v)) =>
        match lookup b v with
        | Some t => push st t
        | None => Err EUnknownVar
        end
    | OVal t => push st t
    | OUn u =>
        match st with
        | v :: st' => do r <- eval_unary u v; push st' r
        | [] => Err EIllTyped
        end
    | OBin o =>
        match st with
        | r :: l :: st' => do x <- eval_binary o l r; push st' x
        | _ => Err EIllTyped
        end
    end.

  Fixpoint run_ops (b : bindings) (st : list term) (e : expr) : res (list term) :=
    match e with
    | [] => Ok st
    | o :: e' => do st' <- step b st o; run_ops b st' e'
    end.

  (* Expression.Evaluate *)
  Definition eval (e : expr) (b : bindings) : res term :=
    do st <- run_ops b [] e;
    match st with
    | [v] => Ok v
    | _ => Err EIllTyped
    end.
End Eval.
