(* ChanLTS.v — the synchronisation skeleton of World.Run / Rule.Apply / combine
   (datalog/datalog.go:198-239, 360-410, 490-622) as a labelled transition system.

   Processes
     caller    the goroutine that called World.Run: it sits at
                 select { case <-ctx.Done(): return Timeout; case err := <-done: return err }
               and, when it returns by either branch, the deferred cancel() closes ctx.Done().
     worker    the goroutine started by Run.  Program points:
                 WTop      at one of the two  select { case <-ctx.Done(): return; default: ... }
                           checks (top of an iteration / before a rule)
                 WRange    inside Rule.Apply, blocked in  for res := range combinations
                 WRet e    Rule.Apply is returning (e = true: early, on res.error or
                           InvalidRuleError; e = false: the range ended); the deferred
                           close(stop) is pending
                 WSendDone at one of the  done <- ...  statements
                 WExit     returned
     producer  the goroutine started by combine for the Apply in progress.
                 PSend (S m)  at  select { case c <- x: ; case <-stop: return }  with m further
                              combinations after this one
                 PSend 0      about to return: the deferred close(c) is pending
                 PDone        returned, c closed (also: no Apply in progress)
     orphans   producers of earlier Applies that had not returned when their Apply did.
               Their stop channel is closed and nobody holds their c any more; an
               orphan is represented by its remaining count (S m: still at the select,
               0: close(c) pending).

   Objects: [ctx] = ctx.Done() is closed (timeout fired or cancel() ran);
   [dbuf] = the one-slot buffer of [done] is full; the combination channel and
   the stop channel of the Apply in progress are implicit in [prod] (c is
   closed iff prod = PDone) and in the orphan pool (stop is closed exactly for orphans).

   Data is abstracted: [todo] lists, for every Apply the worker may still start, how
   many combinations its producer will offer (arbitrary numbers, arbitrary length —
   finite because maxIterations * len(rules) is); whether the consumer returns early
   after a receive, and whether the worker goes on to another ctx check or to a
   done <- after a normal Apply, are nondeterministic.

   [fixed = true] is the current code; [fixed = false] is the protocol before the
   repair: unbuffered done (a rendezvous with the caller at its select) and no stop
   channel (an abandoned producer can only send). *)
From BV Require Import Base.
From Coq Require Import Arith.
Local Open Scope nat_scope.

Inductive cpc := CSelect | CRetTimeout | CRetDone.
Inductive wpc := WTop | WRange | WRet (early : bool) | WSendDone | WExit.
Inductive ppc := PSend (n : nat) | PDone.

Record state := mkState {
  caller : cpc;
  ctx : bool;
  dbuf : bool;
  worker : wpc;
  todo : list nat;
  prod : ppc;
  orphans : list nat
}.

Inductive label :=
| LTimeout        (* environment: the context deadline fires *)
| LCaller         (* caller takes a branch of its select *)
| LWorker         (* worker-local step *)
| LSync           (* rendezvous on c: producer sends, consumer receives *)
| LProd           (* producer of the Apply in progress: close(c) *)
| LOrphan         (* an orphaned producer: observes stop / close(c) *)
| LDoneSync       (* old protocol only: rendezvous on unbuffered done *).

Definition set_caller v s := mkState v (ctx s) (dbuf s) (worker s) (todo s) (prod s) (orphans s).
Definition set_ctx v s := mkState (caller s) v (dbuf s) (worker s) (todo s) (prod s) (orphans s).
Definition set_dbuf v s := mkState (caller s) (ctx s) v (worker s) (todo s) (prod s) (orphans s).
Definition set_worker v s := mkState (caller s) (ctx s) (dbuf s) v (todo s) (prod s) (orphans s).
Definition set_todo v s := mkState (caller s) (ctx s) (dbuf s) (worker s) v (prod s) (orphans s).
Definition set_prod v s := mkState (caller s) (ctx s) (dbuf s) (worker s) (todo s) v (orphans s).
Definition set_orphans v s := mkState (caller s) (ctx s) (dbuf s) (worker s) (todo s) (prod s) v.

(* the deadline can fire at any moment *)
Definition timeout_steps (s : state) : list (label * state) :=
  if ctx s then [] else [(LTimeout, set_ctx true s)].

(* Run's final select; returning runs the deferred cancel() *)
Definition caller_steps (fixed : bool) (s : state) : list (label * state) :=
  match caller s with
  | CSelect =>
      (if ctx s then [(LCaller, set_caller CRetTimeout s)] else []) ++
      (if fixed && dbuf s
       then [(LCaller, set_ctx true (set_dbuf false (set_caller CRetDone s)))] else [])
  | _ => []
  end.

(* Apply returns: close(stop) (fixed) / nothing (old); a producer that has not
   returned is from now on an orphan *)
Definition abandon (s : state) : state :=
  set_prod PDone
    (set_orphans (match prod s with PSend m => [m] | PDone => [] end ++ orphans s) s).

Definition worker_steps (fixed : bool) (s : state) : list (label * state) :=
  match worker s with
  | WTop =>
      if ctx s then [(LWorker, set_worker WExit s)]             (* case <-ctx.Done(): return *)
      else
        match todo s with                                        (* default: r.Apply(...) *)
        | n :: r => [(LWorker, set_worker WRange (set_prod (PSend n) (set_todo r s)))]
        | [] => []
        end ++
        [(LWorker, set_worker WSendDone s)]                      (* no rule left in this round *)
  | WRange =>
      match prod s with
      | PSend (S m) =>                                           (* receive; go on or return early *)
          [(LSync, set_prod (PSend m) s);
           (LSync, set_worker (WRet true) (set_prod (PSend m) s))]
      | PSend 0 => []                                            (* c open, nothing offered *)
      | PDone => [(LWorker, set_worker (WRet false) s)]          (* c closed: range ends *)
      end
  | WRet e =>
      if e then [(LWorker, set_worker WSendDone (abandon s))]    (* done <- err *)
      else [(LWorker, set_worker WTop (abandon s));              (* next rule / iteration *)
            (LWorker, set_worker WSendDone (abandon s))]         (* done <- nil / limit *)
  | WSendDone =>
      if fixed then
        if dbuf s then [] else [(LWorker, set_dbuf true (set_worker WExit s))]
      else
        match caller s with
        | CSelect =>
            [(LDoneSync, set_ctx true (set_caller CRetDone (set_worker WExit s)))]
        | _ => []
        end
  | WExit => []
  end.

(* producer of the Apply in progress: with stop open its only solo step is the final close(c) *)
Definition prod_steps (s : state) : list (label * state) :=
  match prod s with
  | PSend 0 => [(LProd, set_prod PDone s)]
  | _ => []
  end.

(* orphans: (S m) takes the <-stop branch (fixed only), 0 closes c and is gone;
   any orphan may move *)
Fixpoint orph (fixed : bool) (pre l : list nat) : list (list nat) :=
  match l with
  | [] => []
  | m :: r =>
      match m with
      | 0 => [pre ++ r]
      | S _ => if fixed then [pre ++ 0 :: r] else []
      end ++ orph fixed (pre ++ [m]) r
  end.

Definition orphan_steps (fixed : bool) (s : state) : list (label * state) :=
  map (fun o => (LOrphan, set_orphans o s)) (orph fixed [] (orphans s)).

Definition lstep (fixed : bool) (s : state) : list (label * state) :=
  timeout_steps s ++ caller_steps fixed s ++ worker_steps fixed s ++ prod_steps s ++
  orphan_steps fixed s.

Definition step (s s' : state) : Prop := exists l, In (l, s') (lstep true s).
Definition step_old (s s' : state) : Prop := exists l, In (l, s') (lstep false s).

Inductive steps_gen (fixed : bool) : state -> state -> Prop :=
| steps_refl s : steps_gen fixed s s
| steps_cons s l s1 s2 : In (l, s1) (lstep fixed s) -> steps_gen fixed s1 s2 -> steps_gen fixed s s2.
Definition steps := steps_gen true.
Definition steps_old := steps_gen false.

(* Run has just started the worker.  [at_send]: maxIterations = 0, the worker goes
   straight to  done <- ErrWorldRunLimitMaxIterations  without a ctx check. *)
Definition initial (ns : list nat) (at_send : bool) : state :=
  mkState CSelect false false (if at_send then WSendDone else WTop) ns PDone [].

Inductive reachable_gen (fixed : bool) : state -> Prop :=
| reach_init ns b : reachable_gen fixed (initial ns b)
| reach_step s l s' : reachable_gen fixed s -> In (l, s') (lstep fixed s) -> reachable_gen fixed s'.
Definition reachable := reachable_gen true.
Definition reachable_old := reachable_gen false.

Definition caller_returned (s : state) : Prop := caller s <> CSelect.

Definition all_finishedb (s : state) : bool :=
  match caller s, worker s, prod s, orphans s with
  | (CRetTimeout | CRetDone), WExit, PDone, [] => true
  | _, _, _, _ => false
  end.
Definition all_finished (s : state) : Prop := all_finishedb s = true.

(* process classes, for "blocked forever" *)
Inductive proc := PCaller | PWorker | PProducers.

Definition active (p : proc) (s : state) : bool :=
  match p with
  | PCaller => match caller s with CSelect => true | _ => false end
  | PWorker => match worker s with WExit => false | _ => true end
  | PProducers =>
      match prod s, orphans s with PDone, [] => false | _, _ => true end
  end.

Definition involves (l : label) (p : proc) : bool :=
  match l, p with
  | LCaller, PCaller | LDoneSync, PCaller => true
  | LWorker, PWorker | LSync, PWorker | LDoneSync, PWorker => true
  | LSync, PProducers | LProd, PProducers | LOrphan, PProducers => true
  | _, _ => false
  end.

(* p has an enabled transition in s *)
Definition can_move (fixed : bool) (p : proc) (s : state) : bool :=
  existsb (fun ls => involves (fst ls) p) (lstep fixed s).

(* p has not terminated and, whatever happens from s on, never gets a transition *)
Definition blocked_forever_gen (fixed : bool) (p : proc) (s : state) : Prop :=
  active p s = true /\ forall s', steps_gen fixed s s' -> can_move fixed p s' = false.
Definition blocked_forever := blocked_forever_gen true.
Definition blocked_forever_old := blocked_forever_gen false.

(* termination measure: every transition of the current protocol lowers it *)
Definition cw (c : cpc) : nat := match c with CSelect => 1 | _ => 0 end.
Definition xw (b : bool) : nat := if b then 0 else 1.
Definition ww (w : wpc) : nat :=
  match w with WExit => 0 | WSendDone => 1 | WTop => 2 | WRet _ => 3 | WRange => 4 end.
Definition pw (p : ppc) : nat := match p with PDone => 0 | PSend m => m + 2 end.
Definition ow (m : nat) : nat := match m with 0 => 1 | S _ => 2 end.
Fixpoint osum (l : list nat) : nat := match l with [] => 0 | m :: r => ow m + osum r end.
Fixpoint tsum (l : list nat) : nat := match l with [] => 0 | n :: r => n + 5 + tsum r end.

Definition measure (s : state) : nat :=
  cw (caller s) + xw (ctx s) + ww (worker s) + pw (prod s) + osum (orphans s) + tsum (todo s).

(* ---------- executable exploration, for concrete instances ---------- *)

Definition cpc_eqb (a b : cpc) : bool :=
  match a, b with
  | CSelect, CSelect | CRetTimeout, CRetTimeout | CRetDone, CRetDone => true
  | _, _ => false
  end.
Definition wpc_eqb (a b : wpc) : bool :=
  match a, b with
  | WTop, WTop | WRange, WRange | WSendDone, WSendDone | WExit, WExit => true
  | WRet x, WRet y => Bool.eqb x y
  | _, _ => false
  end.
Definition ppc_eqb (a b : ppc) : bool :=
  match a, b with
  | PSend x, PSend y => x =? y
  | PDone, PDone => true
  | _, _ => false
  end.
Definition state_eqb (a b : state) : bool :=
  cpc_eqb (caller a) (caller b) && Bool.eqb (ctx a) (ctx b) && Bool.eqb (dbuf a) (dbuf b) &&
  wpc_eqb (worker a) (worker b) && list_eqb Nat.eqb (todo a) (todo b) &&
  ppc_eqb (prod a) (prod b) && list_eqb Nat.eqb (orphans a) (orphans b).

Definition mem_state (s : state) (l : list state) : bool := existsb (state_eqb s) l.

Definition add_new (seen new : list state) : list state :=
  fold_left (fun acc s => if mem_state s acc then acc else acc ++ [s]) new seen.

(* all states reachable from [seen] in at most [k] rounds *)
Fixpoint explore (fixed : bool) (k : nat) (seen : list state) : list state :=
  match k with
  | 0 => seen
  | S k' =>
      explore fixed k' (add_new seen (flat_map (fun s => map snd (lstep fixed s)) seen))
  end.

(* can s reach an all_finished state within k steps? *)
Fixpoint can_finish (fixed : bool) (k : nat) (s : state) : bool :=
  all_finishedb s ||
  match k with
  | 0 => false
  | S k' => existsb (fun ls => can_finish fixed k' (snd ls)) (lstep fixed s)
  end.
