(* Chain.v — the signed envelope of a token and the operations of biscuit.go
   on it: newBiscuit (build), Append, Seal, authorizerFor (verify_token),
   RevocationIds, RootKeyID and the two root-key projections.

   ed25519 is NOT modelled: [pub], [sign], [verify] are Section variables.
   The correspondence check instantiates them with oracle tables computed by
   the harness with crypto/ed25519 itself. *)
From BV Require Import Base.

Record sblock := { sb_block : bytes; sb_alg : N; sb_key : bytes; sb_sig : bytes }.
Inductive proof := PNextSecret (s : bytes) | PFinalSig (s : bytes) | PNone.
Record container := {
  c_rootid : option N;
  c_auth : sblock;
  c_blocks : list sblock;
  c_proof : proof }.

(* the byte string that is signed for a block: block ++ LE32(alg) ++ next key
   (biscuit.go newBiscuit/Append/authorizerFor) *)
Definition payload (b : sblock) : bytes := sb_block b ++ le32 (sb_alg b) ++ sb_key b.
(* and for the seal: the same followed by the block's signature *)
Definition seal_payload (b : sblock) : bytes := payload b ++ sb_sig b.

Definition last_sblock (c : container) : sblock := last (c_blocks c) (c_auth c).

(* A random source is the finite list of bytes it delivers before failing.
   ed25519.GenerateKey = io.ReadFull(rng, 32 bytes): short reads are retried,
   an error before 32 bytes is returned. *)
Definition source := bytes.
Definition gen_seed (src : source) : res (bytes * source) :=
  if (32 <=? length src)%nat then Ok (firstn 32 src, skipn 32 src) else Err EEntropy.

Definition sblock_eqb (a b : sblock) : bool :=
  bytes_eqb (sb_block a) (sb_block b) && N.eqb (sb_alg a) (sb_alg b) &&
  bytes_eqb (sb_key a) (sb_key b) && bytes_eqb (sb_sig a) (sb_sig b).
Definition proof_eqb (a b : proof) : bool :=
  match a, b with
  | PNextSecret x, PNextSecret y => bytes_eqb x y
  | PFinalSig x, PFinalSig y => bytes_eqb x y
  | PNone, PNone => true
  | _, _ => false
  end.
Definition container_eqb (a b : container) : bool :=
  option_eqb N.eqb (c_rootid a) (c_rootid b) && sblock_eqb (c_auth a) (c_auth b) &&
  list_eqb sblock_eqb (c_blocks a) (c_blocks b) && proof_eqb (c_proof a) (c_proof b).

Section Sig.
  Variable pub : bytes -> bytes.               (* seed -> public key *)
  Variable sign : bytes -> bytes -> bytes.     (* seed -> message -> signature *)
  Variable verify : bytes -> bytes -> bytes -> bool.  (* key, message, signature *)

  (* ed25519.Verify panics on a public key that is not 32 bytes long *)
  Definition verify_go (k m s : bytes) : res bool :=
    if (length k =? 32)%nat then Ok (verify k m s) else Panic 1.

  (* newBiscuit: draw the next key pair, sign block ++ alg ++ next public key
     with the root key, keep the next secret as proof *)
  Definition build (root_seed : bytes) (rootid : option N) (blk : bytes) (src : source)
    : res (container * source) :=
    do ks <- gen_seed src;
    let '(seed, src') := ks in
    let nk := pub seed in
    let sb := {| sb_block := blk; sb_alg := 0; sb_key := nk;
                 sb_sig := sign root_seed (blk ++ le32 0 ++ nk) |} in
    Ok ({| c_rootid := rootid; c_auth := sb; c_blocks := []; c_proof := PNextSecret seed |}, src').

  (* Append: refuse sealed tokens, draw a key pair, sign with the current secret *)
  Definition append (c : container) (blk : bytes) (src : source) : res (container * source) :=
    match c_proof c with
    | PNextSecret s =>
        if negb (length s =? 32)%nat then Err EInvalidKeySize else
        do ks <- gen_seed src;
        let '(seed, src') := ks in
        let nk := pub seed in
        let sb := {| sb_block := blk; sb_alg := 0; sb_key := nk;
                     sb_sig := sign s (blk ++ le32 0 ++ nk) |} in
        Ok ({| c_rootid := c_rootid c; c_auth := c_auth c;
               c_blocks := c_blocks c ++ [sb]; c_proof := PNextSecret seed |}, src')
    | _ => Err ESealed
    end.

  (* Seal: sign the last block's seal payload with the current secret; draws nothing *)
  Definition seal (c : container) : res container :=
    match c_proof c with
    | PNextSecret s =>
        if negb (length s =? 32)%nat then Err EInvalidKeySize else
        Ok {| c_rootid := c_rootid c; c_auth := c_auth c; c_blocks := c_blocks c;
              c_proof := PFinalSig (sign s (seal_payload (last_sblock c))) |}
    | _ => Err ESealed
    end.

  (* one link of authorizerFor's loop: algorithm gate, signature under the
     current key, size gate on the announced key, which becomes current *)
  Definition verify_link (cur : bytes) (b : sblock) : res bytes :=
    if negb (sb_alg b =? 0) then Err EUnsupportedAlg else
    do ok <- verify_go cur (payload b) (sb_sig b);
    if negb ok then Err EInvalidSignature else
    if negb (length (sb_key b) =? 32)%nat then Err EInvalidKeySize else
    Ok (sb_key b).

  Fixpoint verify_links (cur : bytes) (bs : list sblock) : res bytes :=
    match bs with
    | [] => Ok cur
    | b :: bs' => do k <- verify_link cur b; verify_links k bs'
    end.

  Definition verify_proof (cur : bytes) (c : container) : res unit :=
    match c_proof c with
    | PNextSecret s =>
        if negb (length s =? 32)%nat then Err EInvalidKeySize else
        if bytes_eqb cur (pub s) then Ok tt else Err EInvalidLastSig
    | PFinalSig s =>
        do ok <- verify_go cur (seal_payload (last_sblock c)) s;
        if ok then Ok tt else Err EInvalidLastSig
    | PNone => Err ENoProof
    end.

  (* Biscuit.authorizerFor up to (not including) NewVerifier *)
  Definition verify_token (root : bytes) (c : container) : res unit :=
    do k <- verify_links root (c_auth c :: c_blocks c);
    verify_proof k c.

  (* RevocationIds *)
  Definition revocation_ids (c : container) : list bytes :=
    sb_sig (c_auth c) :: map sb_sig (c_blocks c).

  (* key projections: WithSingularRootPublicKey / WithRootPublicKeys, and
     AuthorizerFor's "empty key => no public key available" *)
  Inductive keysource :=
  | KSingular (k : bytes)
  | KMap (m : list (N * bytes)) (dflt : option bytes).

  Fixpoint kmap_find (m : list (N * bytes)) (i : N) : option bytes :=
    match m with
    | [] => None
    | (j, k) :: m' => if N.eqb i j then Some k else kmap_find m' i
    end.

  Definition select_key (ks : keysource) (id : option N) : res bytes :=
    match ks with
    | KSingular k => Ok k
    | KMap m d =>
        match id with
        | None => match d with Some k => Ok k | None => Err ENoPublicKey end
        | Some i => match kmap_find m i with Some k => Ok k | None => Err ENoPublicKey end
        end
    end.

  Definition authorizer_for (ks : keysource) (c : container) : res unit :=
    do k <- select_key ks (c_rootid c);
    if (length k =? 0)%nat then Err ENoPublicKey else verify_token k c.

  (* Unmarshal's size gates (builder.go): every announced key is 32 bytes,
     every block signature 64 bytes *)
  Definition sizes_ok (b : sblock) : bool :=
    (length (sb_key b) =? 32)%nat && (length (sb_sig b) =? 64)%nat.
  Definition container_sizes (c : container) : res unit :=
    let fix go (bs : list sblock) : res unit :=
      match bs with
      | [] => Ok tt
      | b :: bs' =>
          if negb (length (sb_key b) =? 32)%nat then Err EInvalidKeySize else
          if negb (length (sb_sig b) =? 64)%nat then Err EInvalidSigSize else go bs'
      end in
    go (c_auth c :: c_blocks c).

  (* declarative chain validity: what C01 says must be necessary and sufficient *)
  Fixpoint links_valid (cur : bytes) (bs : list sblock) : Prop :=
    match bs with
    | [] => True
    | b :: bs' => sb_alg b = 0 /\ verify cur (payload b) (sb_sig b) = true /\
                  length (sb_key b) = 32%nat /\ links_valid (sb_key b) bs'
    end.
  Definition last_key (root : bytes) (c : container) : bytes := sb_key (last_sblock c).
  Definition proof_valid (c : container) : Prop :=
    match c_proof c with
    | PNextSecret s => length s = 32%nat /\ sb_key (last_sblock c) = pub s
    | PFinalSig s => verify (sb_key (last_sblock c)) (seal_payload (last_sblock c)) s = true
    | PNone => False
    end.
  Definition chain_valid (root : bytes) (c : container) : Prop :=
    links_valid root (c_auth c :: c_blocks c) /\ proof_valid c.
End Sig.
