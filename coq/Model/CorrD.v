(* CorrD.v — the correspondence predicates of Corr.v evaluated through the INDEX
   level: the unmarshalled token stays at D level, the authorizer of
   Model/DEval.v runs on symbol indexes (token table -> strings -> authorizer
   table, evaluation over indexes, string concatenation interning into the
   table), and only what the harness reads (the world, query results) is
   resolved back through the authorizer's table. *)
From BV Require Import Base Term Expr Datalog Authz DTerm Symbols Chain Wire Token Corr DEval.

Fixpoint atrace_full_D rx (tok : token) (ops : list aop) (s : dstate) : list aobs :=
  match ops with
  | [] => []
  | o :: ops' =>
      let s' := astep_D rx tok s o in
      (match o with
       | OAuthorize => AOVerdict (snd (authorize_D rx tok s)) (world_D s')
       | OQuery q => AOQuery (to_obs (snd (query_D rx s q)))
       | _ => AONone
       end) :: atrace_full_D rx tok ops' s'
  end.

(* authorizer histories through the index level, for a token given at D level *)
Definition authz_ok_D rx (tok : token) (lim : limits) (ops : list aop) (obs : list aobs) : bool :=
  list_eqb aobs_eqb (atrace_full_D rx tok ops (fresh_D lim)) obs.

(* the whole pipeline on untrusted bytes (C10), index-level evaluation *)
Definition pipe_ok_D pubt vert (panel : list aop) (c : pipe_case) : bool :=
  match tk_unmarshal (pc_bytes c) with
  | Ok t =>
      pstage_eqb POk (pc_unmarshal c) &&
      (match tk_verify (opub pubt) (overify vert) (KSingular (pc_root c)) t with
       | Ok _ =>
           pstage_eqb POk (pc_verify c) &&
           (let tr := atrace_full_D (orx (pc_rx c)) t panel
                        (fresh_D {| max_facts := 1000; max_iterations := 100 |}) in
            let vs := filter (fun o => match o with AOVerdict _ _ => true | _ => false end) tr in
            let qs := filter (fun o => match o with AOQuery _ => true | _ => false end) tr in
            (match vs, pc_verdict c with
             | AOVerdict v w :: _, Some v' => verdict_eqb v v' && list_eqb pred_seqb w (pc_world c)
             | _, None => true
             | _, _ => false
             end) &&
            (match qs, pc_query c with
             | AOQuery r :: _, Some r' => obs_eqb (list_eqb pred_seqb) r r'
             | _, None => true
             | _, _ => false
             end))
       | r => pstage_eqb (stage_of r) (pc_verify c)
       end)
  | r => pstage_eqb (stage_of r) (pc_unmarshal c)
  end.

(* every table the authorizer goes through along a history fits the uint32 of
   datalog.Variable (the hypothesis of the refinement theorems); decidable *)
Definition small_tableb (t : table) : bool := (offset + lenN t <=? 4294967296)%N.
Fixpoint all_smallb rx (tok : token) (ops : list aop) (s : dstate) : bool :=
  match ops with
  | [] => true
  | o :: ops' => let s' := astep_D rx tok s o in small_tableb (d_syms s') && all_smallb rx tok ops' s'
  end.

(* ---------- authorizer histories (records [authz_case]) through the index level ----------
   The cases carry the token as S-level blocks.  [token_of_blocks] interns them
   block after block into one cumulative table, each block declaring the symbols
   it adds — the D-level token a builder would have produced — so that the
   index-level authorizer can be run on the same cases. *)
Fixpoint intern_checks (t : table) (l : list check) : table * list dcheck :=
  match l with
  | [] => (t, [])
  | c :: l' => let '(t1, d) := intern_check t c in
               let '(t2, ds) := intern_checks t1 l' in (t2, d :: ds)
  end.
Definition intern_block (t : table) (b : block) : table * dblock :=
  let '(t1, fs) := intern_preds t (b_facts b) in
  let '(t2, rs) := intern_rules t1 (b_rules b) in
  let '(t3, cs) := intern_checks t2 (b_checks b) in
  (t3, {| db_symbols := skipn (length t) t3; db_context := []; db_version := Generated.max_schema_version;
          db_facts := fs; db_rules := rs; db_checks := cs |}).
Fixpoint intern_blocks (t : table) (bs : list block) : table * list dblock :=
  match bs with
  | [] => (t, [])
  | b :: bs' => let '(t1, d) := intern_block t b in
                let '(t2, ds) := intern_blocks t1 bs' in (t2, d :: ds)
  end.
Definition dummy_dblock : dblock :=
  {| db_symbols := []; db_context := []; db_version := Generated.max_schema_version;
     db_facts := []; db_rules := []; db_checks := [] |}.
Definition dummy_container : container :=
  {| c_rootid := None; c_auth := {| sb_block := []; sb_alg := 0; sb_key := []; sb_sig := [] |};
     c_blocks := []; c_proof := PNone |}.
Definition token_of_blocks (bs : list block) : token :=
  let '(t, ds) := intern_blocks [] bs in
  {| tk_authority := hd dummy_dblock ds; tk_blocks := tl ds; tk_symbols := t; tk_container := dummy_container |}.

Definition authz_case_ok_D rx (c : authz_case) : bool :=
  authz_ok_D rx (token_of_blocks (az_token c)) (az_limits c) (az_ops c) (az_obs c).
(* both paths give the same trace (whatever the harness observed) *)
Definition authz_case_same rx (c : authz_case) : bool :=
  list_eqb aobs_eqb
    (atrace_full_D rx (token_of_blocks (az_token c)) (az_ops c) (fresh_D (az_limits c)))
    (atrace_full rx (az_token c) (az_ops c) (fresh (az_limits c))).
