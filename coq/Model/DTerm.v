(* DTerm.v — "D level": Datalog content over symbol indexes, as datalog.Term /
   datalog.Predicate / datalog.Rule hold it inside a token block. *)
From BV Require Import Base Term.

Inductive datom :=
| DVar (v : N)       (* datalog.Variable: uint32 symbol index *)
| DInt (z : Z)
| DStr (s : N)       (* datalog.String: uint64 symbol index *)
| DDate (d : N)
| DBytes (b : bytes)
| DBool (b : bool).

Inductive dterm := DA (a : datom) | DSet (l : list datom).

Record dpred := { dp_name : N; dp_terms : list dterm }.
Inductive dop := DOVal (t : dterm) | DOUn (u : unop) | DOBin (b : binop).
Definition dexpr := list dop.
Record drule := { dr_head : dpred; dr_body : list dpred; dr_exprs : list dexpr }.
Definition dcheck := list drule.

(* biscuit.Block *)
Record dblock := {
  db_symbols : list bytes;     (* the block's own new symbols *)
  db_context : bytes;
  db_version : N;
  db_facts : list dpred;
  db_rules : list drule;
  db_checks : list dcheck }.

Definition datom_eqb (a b : datom) : bool :=
  match a, b with
  | DVar x, DVar y => N.eqb x y
  | DInt x, DInt y => Z.eqb x y
  | DStr x, DStr y => N.eqb x y
  | DDate x, DDate y => N.eqb x y
  | DBytes x, DBytes y => bytes_eqb x y
  | DBool x, DBool y => Bool.eqb x y
  | _, _ => false
  end.
Definition dterm_seqb (a b : dterm) : bool :=
  match a, b with
  | DA x, DA y => datom_eqb x y
  | DSet x, DSet y => list_eqb datom_eqb x y
  | _, _ => false
  end.
Definition dpred_seqb (p q : dpred) : bool :=
  N.eqb (dp_name p) (dp_name q) && list_eqb dterm_seqb (dp_terms p) (dp_terms q).
Definition unop_eqb (a b : unop) : bool :=
  match a, b with UNegate, UNegate | UParens, UParens | ULength, ULength => true | _, _ => false end.
Definition binop_code (b : binop) : N :=
  match b with
  | BLessThan => 0 | BLessOrEqual => 1 | BGreaterThan => 2 | BGreaterOrEqual => 3 | BEqual => 4
  | BContains => 5 | BPrefix => 6 | BSuffix => 7 | BRegex => 8 | BAdd => 9 | BSub => 10 | BMul => 11
  | BDiv => 12 | BAnd => 13 | BOr => 14 | BIntersection => 15 | BUnion => 16
  end.
Definition binop_eqb (a b : binop) : bool := N.eqb (binop_code a) (binop_code b).
Definition dop_seqb (a b : dop) : bool :=
  match a, b with
  | DOVal x, DOVal y => dterm_seqb x y
  | DOUn x, DOUn y => unop_eqb x y
  | DOBin x, DOBin y => binop_eqb x y
  | _, _ => false
  end.
Definition drule_seqb (a b : drule) : bool :=
  dpred_seqb (dr_head a) (dr_head b) && list_eqb dpred_seqb (dr_body a) (dr_body b) &&
  list_eqb (list_eqb dop_seqb) (dr_exprs a) (dr_exprs b).
Definition dblock_seqb (a b : dblock) : bool :=
  list_eqb bytes_eqb (db_symbols a) (db_symbols b) && bytes_eqb (db_context a) (db_context b) &&
  N.eqb (db_version a) (db_version b) && list_eqb dpred_seqb (db_facts a) (db_facts b) &&
  list_eqb drule_seqb (db_rules a) (db_rules b) &&
  list_eqb (list_eqb drule_seqb) (db_checks a) (db_checks b).
