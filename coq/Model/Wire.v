(* Wire.v — the protobuf wire format of biscuit-go tokens (pb/biscuit.proto),
   as google.golang.org/protobuf v1.34 reads and writes it, followed by the
   proto <-> datalog conversions of converters.go / converters_v2.go and the
   size gates of builder.go Unmarshal.  Definitions only; lemmas are in
   Proofs/WireProofs.v, byte-level regressions in Proofs/WireExamples.v.

   Layers:
   1. generic wire level: varints, tags, the four scalar wire types, groups
      (skipped), [decode_fields : bytes -> option (list wfield)];
   2. "pb level": one record per message mirroring the generated Go structs
      (pointers = options), parsed by a left-to-right state machine over the
      field list that reproduces protobuf-go's merge behaviour: last scalar
      wins, repeated fields append, a second occurrence of a singular message
      continues parsing INTO the first, a oneof member replaces the current
      member unless it is the same message-typed member (then it continues);
      the [required] check is protobuf-go's: a fast "initialized" flag computed
      per parse call, and proto.CheckInitialized on the final value only when
      the fast flag is false (section 6) — the fast flag does not see inside the
      oneof members Op.unary / Op.Binary, so an OpUnary / OpBinary without its
      required kind gets through proto.Unmarshal with a nil Kind (which the
      converters must, and since /repo 50f7d92 do, test: [nil_kind_outcome]);
   3. conversions pb level -> D level with the rejections of the converters.

   Every field NUMBER is read from Generated.proto_schema by name ([fnum]).
   The field TYPES and LABELS are hand-written here; Proofs/WireExamples.v
   compares them against the generated schema so that a change of the .proto
   which this file does not follow breaks the build.

   Not modelled (documented deviations, all on inputs the library never emits):
   - protobuf-go's recursion limit (10000 nested messages, needs > 20 KB);
   - inside a skipped group protobuf-go accepts field numbers up to 2^31-1,
     here up to 2^29-1 as everywhere else;
   - bytes are assumed to be < 256 ([b - 128] is [b land 127] only then). *)
From Coq Require Import String.
From BV Require Import Base Term DTerm Chain.
From BV Require Generated.
Local Open Scope N_scope.

(* ------------------------------------------------------------------ *)
(** * 1. Generic wire level *)

Inductive wval :=
| WVarint (n : N)
| WFixed64 (b : bytes)
| WBytes (b : bytes)
| WFixed32 (b : bytes).
Definition wfield := (N * wval)%type.

Definition two64 : N := 18446744073709551616.
Definition two63 : N := 9223372036854775808.
Definition two32 : N := 4294967296.
Definition two31 : N := 2147483648.
Definition two29 : N := 536870912.

(* protowire.AppendVarint: minimal base-128, little-endian groups *)
Fixpoint encode_varint_k (k : nat) (n : N) : bytes :=
  match k with
  | O => []
  | S k' => if n <? 128 then [n] else (128 + n mod 128) :: encode_varint_k k' (n / 128)
  end.
Definition encode_varint (n : N) : bytes := encode_varint_k 10 n.

(* protowire.ConsumeVarint: at most 10 bytes, the value must fit 64 bits;
   non-minimal encodings are accepted *)
Fixpoint decode_varint_k (k : nat) (bs : bytes) : option (N * bytes) :=
  match k, bs with
  | S k', b :: r =>
      if b <? 128 then Some (b, r)
      else match decode_varint_k k' r with
           | Some (v, r') => Some (b - 128 + 128 * v, r')
           | None => None
           end
  | _, _ => None
  end.
Definition decode_varint (bs : bytes) : option (N * bytes) :=
  match decode_varint_k 10 bs with
  | Some (v, r) => if v <? two64 then Some (v, r) else None
  | None => None
  end.

(* split off exactly n bytes; None when fewer are left *)
Fixpoint splitN (n : N) (bs : bytes) {struct bs} : option (bytes * bytes) :=
  if n =? 0 then Some ([], bs) else
  match bs with
  | [] => None
  | b :: r => match splitN (n - 1) r with
              | Some (a, r') => Some (b :: a, r')
              | None => None
              end
  end.

Definition valid_fnum (num : N) : bool := negb (num =? 0) && (num <? two29).

(* protowire.ConsumeFieldValue on a start-group tag: consume fields up to the
   matching end-group tag; returns the rest.  [rec] is the function itself *)
Definition skip_body (rec : N -> bytes -> option bytes) (num : N) (bs : bytes) : option bytes :=
  match decode_varint bs with
  | None => None
  | Some (tag, r) =>
    let n := tag / 8 in
    if negb (valid_fnum n) then None else
    match tag mod 8 with
    | 0 => match decode_varint r with Some (_, r') => rec num r' | None => None end
    | 1 => match splitN 8 r with Some (_, r') => rec num r' | None => None end
    | 2 => match decode_varint r with
           | Some (len, r1) =>
               match splitN len r1 with Some (_, r') => rec num r' | None => None end
           | None => None
           end
    | 3 => match rec n r with Some r' => rec num r' | None => None end
    | 4 => if n =? num then Some r else None
    | 5 => match splitN 4 r with Some (_, r') => rec num r' | None => None end
    | _ => None
    end
  end.
Fixpoint skip_group (fuel : nat) (num : N) (bs : bytes) {struct fuel} : option bytes :=
  match fuel with
  | O => None
  | S f => skip_body (skip_group f) num bs
  end.

Definition cons_opt {A} (x : A) (o : option (list A)) : option (list A) :=
  match o with Some l => Some (x :: l) | None => None end.

(* one iteration of the field loop of impl's MessageInfo.unmarshalPointer, before
   any schema knowledge: field numbers in [1, 2^29), wire types 0 1 2 5 kept,
   groups (3) consumed and dropped, a stray end-group (4) and 6, 7 are errors.
   [rec] decodes the rest, [skip] consumes a group *)
Definition decode_body (rec : bytes -> option (list wfield)) (skip : N -> bytes -> option bytes)
    (bs : bytes) : option (list wfield) :=
  match decode_varint bs with
  | None => None
  | Some (tag, r) =>
    let num := tag / 8 in
    if negb (valid_fnum num) then None else
    match tag mod 8 with
    | 0 => match decode_varint r with
           | Some (v, r') => cons_opt (num, WVarint v) (rec r')
           | None => None
           end
    | 1 => match splitN 8 r with
           | Some (p, r') => cons_opt (num, WFixed64 p) (rec r')
           | None => None
           end
    | 2 => match decode_varint r with
           | Some (len, r1) =>
               match splitN len r1 with
               | Some (p, r') => cons_opt (num, WBytes p) (rec r')
               | None => None
               end
           | None => None
           end
    | 3 => match skip num r with
           | Some r' => rec r'
           | None => None
           end
    | 5 => match splitN 4 r with
           | Some (p, r') => cons_opt (num, WFixed32 p) (rec r')
           | None => None
           end
    | _ => None
    end
  end.

Fixpoint decode_fields_k (fuel : nat) (bs : bytes) {struct fuel} : option (list wfield) :=
  match bs with
  | [] => Some []
  | _ =>
    match fuel with
    | O => None
    | S f => decode_body (decode_fields_k f) (skip_group f) bs
    end
  end.
(* every iteration consumes at least one byte: this fuel cannot run out
   (WireProofs.decode_fields_k_fuel) *)
Definition decode_fields (bs : bytes) : option (list wfield) :=
  decode_fields_k (S (length bs)) bs.

Definition encode_field (f : wfield) : bytes :=
  let '(num, v) := f in
  match v with
  | WVarint n => encode_varint (num * 8) ++ encode_varint n
  | WFixed64 b => encode_varint (num * 8 + 1) ++ b
  | WBytes b => encode_varint (num * 8 + 2) ++ encode_varint (lenN b) ++ b
  | WFixed32 b => encode_varint (num * 8 + 5) ++ b
  end.
Fixpoint encode_fields (fs : list wfield) : bytes :=
  match fs with
  | [] => []
  | f :: fs' => encode_field f ++ encode_fields fs'
  end.

(* ------------------------------------------------------------------ *)
(** * 2. Field numbers from the generated schema *)

Definition fnum (msg fld : string) : N :=
  match find (fun m => String.eqb (fst m) msg) Generated.proto_schema with
  | Some (_, flds) =>
      match find (fun f => match f with (nm, _, _, _, _) => String.eqb nm fld end) flds with
      | Some (_, n, _, _, _) => n
      | None => 0
      end
  | None => 0
  end.

Definition fn_biscuit_rootKeyId := Eval vm_compute in fnum "Biscuit" "rootKeyId".
Definition fn_biscuit_authority := Eval vm_compute in fnum "Biscuit" "authority".
Definition fn_biscuit_blocks := Eval vm_compute in fnum "Biscuit" "blocks".
Definition fn_biscuit_proof := Eval vm_compute in fnum "Biscuit" "proof".
Definition fn_sb_block := Eval vm_compute in fnum "SignedBlock" "block".
Definition fn_sb_nextKey := Eval vm_compute in fnum "SignedBlock" "nextKey".
Definition fn_sb_signature := Eval vm_compute in fnum "SignedBlock" "signature".
Definition fn_pk_algorithm := Eval vm_compute in fnum "PublicKey" "algorithm".
Definition fn_pk_key := Eval vm_compute in fnum "PublicKey" "key".
Definition fn_proof_nextSecret := Eval vm_compute in fnum "Proof" "nextSecret".
Definition fn_proof_finalSignature := Eval vm_compute in fnum "Proof" "finalSignature".
Definition fn_block_symbols := Eval vm_compute in fnum "Block" "symbols".
Definition fn_block_context := Eval vm_compute in fnum "Block" "context".
Definition fn_block_version := Eval vm_compute in fnum "Block" "version".
Definition fn_block_facts := Eval vm_compute in fnum "Block" "facts_v2".
Definition fn_block_rules := Eval vm_compute in fnum "Block" "rules_v2".
Definition fn_block_checks := Eval vm_compute in fnum "Block" "checks_v2".
Definition fn_fact_predicate := Eval vm_compute in fnum "FactV2" "predicate".
Definition fn_rule_head := Eval vm_compute in fnum "RuleV2" "head".
Definition fn_rule_body := Eval vm_compute in fnum "RuleV2" "body".
Definition fn_rule_expressions := Eval vm_compute in fnum "RuleV2" "expressions".
Definition fn_check_queries := Eval vm_compute in fnum "CheckV2" "queries".
Definition fn_pred_name := Eval vm_compute in fnum "PredicateV2" "name".
Definition fn_pred_terms := Eval vm_compute in fnum "PredicateV2" "terms".
Definition fn_term_variable := Eval vm_compute in fnum "TermV2" "variable".
Definition fn_term_integer := Eval vm_compute in fnum "TermV2" "integer".
Definition fn_term_string := Eval vm_compute in fnum "TermV2" "string".
Definition fn_term_date := Eval vm_compute in fnum "TermV2" "date".
Definition fn_term_bytes := Eval vm_compute in fnum "TermV2" "bytes".
Definition fn_term_bool := Eval vm_compute in fnum "TermV2" "bool".
Definition fn_term_set := Eval vm_compute in fnum "TermV2" "set".
Definition fn_termset_set := Eval vm_compute in fnum "TermSet" "set".
Definition fn_expr_ops := Eval vm_compute in fnum "ExpressionV2" "ops".
Definition fn_op_value := Eval vm_compute in fnum "Op" "value".
Definition fn_op_unary := Eval vm_compute in fnum "Op" "unary".
Definition fn_op_binary := Eval vm_compute in fnum "Op" "Binary".
Definition fn_opunary_kind := Eval vm_compute in fnum "OpUnary" "kind".
Definition fn_opbinary_kind := Eval vm_compute in fnum "OpBinary" "kind".
Definition fn_policy_queries := Eval vm_compute in fnum "Policy" "queries".
Definition fn_policy_kind := Eval vm_compute in fnum "Policy" "kind".
Definition fn_ap_symbols := Eval vm_compute in fnum "AuthorizerPolicies" "symbols".
Definition fn_ap_version := Eval vm_compute in fnum "AuthorizerPolicies" "version".
Definition fn_ap_facts := Eval vm_compute in fnum "AuthorizerPolicies" "facts".
Definition fn_ap_rules := Eval vm_compute in fnum "AuthorizerPolicies" "rules".
Definition fn_ap_checks := Eval vm_compute in fnum "AuthorizerPolicies" "checks".
Definition fn_ap_policies := Eval vm_compute in fnum "AuthorizerPolicies" "policies".

(* ------------------------------------------------------------------ *)
(** * 3. Operator kind tables (generated switch statements) *)

Definition assoc_s {B} (k : string) (l : list (string * B)) : option B :=
  match find (fun e => String.eqb (fst e) k) l with Some (_, b) => Some b | None => None end.

(* datalog Type() constant, datalog struct literal, model constructor *)
Definition unop_names : list (string * string * unop) :=
  [ ("datalog.UnaryNegate", "datalog.Negate{}", UNegate);
    ("datalog.UnaryParens", "datalog.Parens{}", UParens);
    ("datalog.UnaryLength", "datalog.Length{}", ULength) ]%string.
Definition binop_names : list (string * string * binop) :=
  [ ("datalog.BinaryLessThan", "datalog.LessThan{}", BLessThan);
    ("datalog.BinaryLessOrEqual", "datalog.LessOrEqual{}", BLessOrEqual);
    ("datalog.BinaryGreaterThan", "datalog.GreaterThan{}", BGreaterThan);
    ("datalog.BinaryGreaterOrEqual", "datalog.GreaterOrEqual{}", BGreaterOrEqual);
    ("datalog.BinaryEqual", "datalog.Equal{}", BEqual);
    ("datalog.BinaryContains", "datalog.Contains{}", BContains);
    ("datalog.BinaryPrefix", "datalog.Prefix{}", BPrefix);
    ("datalog.BinarySuffix", "datalog.Suffix{}", BSuffix);
    ("datalog.BinaryRegex", "datalog.Regex{}", BRegex);
    ("datalog.BinaryAdd", "datalog.Add{}", BAdd);
    ("datalog.BinarySub", "datalog.Sub{}", BSub);
    ("datalog.BinaryMul", "datalog.Mul{}", BMul);
    ("datalog.BinaryDiv", "datalog.Div{}", BDiv);
    ("datalog.BinaryAnd", "datalog.And{}", BAnd);
    ("datalog.BinaryOr", "datalog.Or{}", BOr);
    ("datalog.BinaryIntersection", "datalog.Intersection{}", BIntersection);
    ("datalog.BinaryUnion", "datalog.Union{}", BUnion) ]%string.

(* number of the pb enum constant called e.g. "pb.OpUnary_Negate" *)
Definition pb_const_number (kinds : list (string * N)) (pbname : string) : option N :=
  match find (fun e => String.eqb (String.append "pb." (fst e)) pbname) kinds with
  | Some (_, k) => Some k
  | None => None
  end.

(* encoder direction: the switch of tokenExprUnaryToProtoExprUnary etc. *)
Definition to_pb_kind {O} (names : list (string * string * O)) (same : O -> O -> bool)
    (to_pb : list (string * string)) (kinds : list (string * N)) (o : O) : option N :=
  match find (fun e => same (snd e) o) names with
  | Some (tyname, _, _) =>
      match assoc_s tyname to_pb with
      | Some pbname => pb_const_number kinds pbname
      | None => None
      end
  | None => None
  end.

(* decoder direction: the switch of protoExprUnaryToTokenExprUnary etc. — the
   first case whose constant has number k *)
Definition from_pb_kind {O} (names : list (string * string * O))
    (from_pb : list (string * string)) (kinds : list (string * N)) (k : N) : option O :=
  match find (fun e => match pb_const_number kinds (fst e) with
                       | Some k' => k' =? k | None => false end) from_pb with
  | Some (_, lit) =>
      match find (fun e => String.eqb (snd (fst e)) lit) names with
      | Some (_, _, o) => Some o
      | None => None
      end
  | None => None
  end.

Definition all_unops : list unop := [UNegate; UParens; ULength].
Definition all_binops : list binop :=
  [BLessThan; BLessOrEqual; BGreaterThan; BGreaterOrEqual; BEqual; BContains; BPrefix; BSuffix;
   BRegex; BAdd; BSub; BMul; BDiv; BAnd; BOr; BIntersection; BUnion].

(* memo tables, computed once when this file is compiled *)
Definition unop_to_tbl : list (unop * option N) := Eval vm_compute in
  map (fun u => (u, to_pb_kind unop_names unop_eqb Generated.cv_unary_to_pb Generated.pb_unary_kinds u))
      all_unops.
Definition binop_to_tbl : list (binop * option N) := Eval vm_compute in
  map (fun b => (b, to_pb_kind binop_names binop_eqb Generated.cv_binary_to_pb Generated.pb_binary_kinds b))
      all_binops.
Definition unop_from_tbl : list (N * option unop) := Eval vm_compute in
  map (fun e => (snd e, from_pb_kind unop_names Generated.cv_unary_from_pb Generated.pb_unary_kinds (snd e)))
      Generated.pb_unary_kinds.
Definition binop_from_tbl : list (N * option binop) := Eval vm_compute in
  map (fun e => (snd e, from_pb_kind binop_names Generated.cv_binary_from_pb Generated.pb_binary_kinds (snd e)))
      Generated.pb_binary_kinds.

Definition unop_to_kind (u : unop) : option N :=
  match find (fun e => unop_eqb (fst e) u) unop_to_tbl with Some (_, r) => r | None => None end.
Definition binop_to_kind (b : binop) : option N :=
  match find (fun e => binop_eqb (fst e) b) binop_to_tbl with Some (_, r) => r | None => None end.
Definition kind_to_unop (k : N) : option unop :=
  match find (fun e => fst e =? k) unop_from_tbl with Some (_, r) => r | None => None end.
Definition kind_to_binop (k : N) : option binop :=
  match find (fun e => fst e =? k) binop_from_tbl with Some (_, r) => r | None => None end.

(* ------------------------------------------------------------------ *)
(** * 4. Scalar conversions *)

Definition u32 (v : N) : N := v mod two32.               (* uint32(v) *)
Definition enum_of (v : N) : N := v mod two32.           (* int32(v), kept as its 32-bit pattern *)
Definition enc_enum (n : N) : N :=                        (* uint64(int64(int32)) *)
  if n <? two31 then n else n + (two64 - two32).
Definition to_int64 (v : N) : Z :=
  if v <? two63 then Z.of_N v else (Z.of_N v - Z.of_N two64)%Z.
Definition of_int64 (z : Z) : N :=
  if (z <? 0)%Z then Z.to_N (z + Z.of_N two64) else Z.to_N z.
Definition enc_bool (b : bool) : N := if b then 1 else 0.
Definition dec_bool (v : N) : bool := negb (v =? 0).

(* ------------------------------------------------------------------ *)
(** * 5. pb level: values and parsers *)

Fixpoint fold_opt {S : Type} (step : S -> wfield -> option S) (fs : list wfield) (st : S)
    : option S :=
  match fs with
  | [] => Some st
  | f :: fs' => match step st f with
                | Some st' => fold_opt step fs' st'
                | None => None
                end
  end.

(* parse a length-delimited payload as a sub-message, continuing from [st] *)
Definition sub {S : Type} (p : bytes) (k : list wfield -> option S) : option S :=
  match decode_fields p with
  | Some fs => k fs
  | None => None
  end.

(* message TermV2 / TermSet.  PTnone: no oneof member set *)
Inductive pterm :=
| PTnone
| PTvar (n : N)
| PTint (z : Z)
| PTstr (n : N)
| PTdate (n : N)
| PTbytes (b : bytes)
| PTbool (b : bool)
| PTset (l : list pterm).

Definition term_set_state (st : pterm) : list pterm :=
  match st with PTset l => l | _ => [] end.

(* one field of a TermSet; [rec] parses a nested TermV2 *)
Definition step_termset (rec : pterm -> list wfield -> option pterm) (acc : list pterm)
    (g : wfield) : option (list pterm) :=
  let '(m, w) := g in
  if m =? fn_termset_set then
    match w with
    | WBytes q =>
        match sub q (rec PTnone) with
        | Some t => Some (acc ++ [t])
        | None => None
        end
    | _ => Some acc
    end
  else Some acc.

(* one field of a TermV2: every member replaces the current one, except that
   a [set] after a [set] continues the same TermSet *)
Definition step_term (rec : pterm -> list wfield -> option pterm) (st : pterm) (f : wfield)
    : option pterm :=
  let '(n, v) := f in
  if n =? fn_term_variable then
    match v with WVarint x => Some (PTvar (u32 x)) | _ => Some st end
  else if n =? fn_term_integer then
    match v with WVarint x => Some (PTint (to_int64 x)) | _ => Some st end
  else if n =? fn_term_string then
    match v with WVarint x => Some (PTstr x) | _ => Some st end
  else if n =? fn_term_date then
    match v with WVarint x => Some (PTdate x) | _ => Some st end
  else if n =? fn_term_bytes then
    match v with WBytes b => Some (PTbytes b) | _ => Some st end
  else if n =? fn_term_bool then
    match v with WVarint x => Some (PTbool (dec_bool x)) | _ => Some st end
  else if n =? fn_term_set then
    match v with
    | WBytes p =>
        match sub p (fun sfs => fold_opt (step_termset rec) sfs (term_set_state st)) with
        | Some l => Some (PTset l)
        | None => None
        end
    | _ => Some st
    end
  else Some st.

(* [d] bounds the nesting depth of TermV2 inside TermSet inside TermV2 ...;
   callers pass more than the number of bytes at hand *)
Fixpoint p_term (d : nat) (st : pterm) (fs : list wfield) {struct d} : option pterm :=
  match d with
  | O => None
  | S d' => fold_opt (step_term (p_term d')) fs st
  end.

(* message PredicateV2 *)
Record ppred := { pp_name : option N; pp_terms : list pterm }.
Definition init_pred : ppred := {| pp_name := None; pp_terms := [] |}.
Definition step_pred (d : nat) (st : ppred) (f : wfield) : option ppred :=
  let '(n, v) := f in
  if n =? fn_pred_name then
    match v with
    | WVarint x => Some {| pp_name := Some x; pp_terms := pp_terms st |}
    | _ => Some st
    end
  else if n =? fn_pred_terms then
    match v with
    | WBytes p =>
        match sub p (p_term d PTnone) with
        | Some t => Some {| pp_name := pp_name st; pp_terms := pp_terms st ++ [t] |}
        | None => None
        end
    | _ => Some st
    end
  else Some st.
Definition p_pred (d : nat) (st : ppred) (fs : list wfield) : option ppred :=
  fold_opt (step_pred d) fs st.

Definition opt_pred (o : option ppred) : ppred :=
  match o with Some p => p | None => init_pred end.

(* message FactV2: the value is its single field *)
Definition pfact := option ppred.
Definition step_fact (d : nat) (st : pfact) (f : wfield) : option pfact :=
  let '(n, v) := f in
  if n =? fn_fact_predicate then
    match v with
    | WBytes p => match sub p (p_pred d (opt_pred st)) with
                  | Some pp => Some (Some pp)
                  | None => None
                  end
    | _ => Some st
    end
  else Some st.
Definition p_fact (d : nat) (st : pfact) (fs : list wfield) : option pfact :=
  fold_opt (step_fact d) fs st.

(* messages OpUnary / OpBinary: the value is the kind field *)
Definition step_kind (fn : N) (st : option N) (f : wfield) : option (option N) :=
  let '(n, v) := f in
  if n =? fn then
    match v with WVarint x => Some (Some (enum_of x)) | _ => Some st end
  else Some st.
Definition p_kind (fn : N) (st : option N) (fs : list wfield) : option (option N) :=
  fold_opt (step_kind fn) fs st.

(* message Op *)
Inductive pop :=
| POnone
| POval (t : pterm)
| POun (k : option N)
| PObin (k : option N).
Definition step_op (d : nat) (st : pop) (f : wfield) : option pop :=
  let '(n, v) := f in
  if n =? fn_op_value then
    match v with
    | WBytes p =>
        match sub p (p_term d (match st with POval t => t | _ => PTnone end)) with
        | Some t => Some (POval t)
        | None => None
        end
    | _ => Some st
    end
  else if n =? fn_op_unary then
    match v with
    | WBytes p =>
        match sub p (p_kind fn_opunary_kind (match st with POun k => k | _ => None end)) with
        | Some k => Some (POun k)
        | None => None
        end
    | _ => Some st
    end
  else if n =? fn_op_binary then
    match v with
    | WBytes p =>
        match sub p (p_kind fn_opbinary_kind (match st with PObin k => k | _ => None end)) with
        | Some k => Some (PObin k)
        | None => None
        end
    | _ => Some st
    end
  else Some st.
Definition p_op (d : nat) (st : pop) (fs : list wfield) : option pop :=
  fold_opt (step_op d) fs st.

(* message ExpressionV2: the value is its repeated field *)
Definition pexpr := list pop.
Definition step_expr (d : nat) (st : pexpr) (f : wfield) : option pexpr :=
  let '(n, v) := f in
  if n =? fn_expr_ops then
    match v with
    | WBytes p => match sub p (p_op d POnone) with
                  | Some o => Some (st ++ [o])
                  | None => None
                  end
    | _ => Some st
    end
  else Some st.
Definition p_expr (d : nat) (st : pexpr) (fs : list wfield) : option pexpr :=
  fold_opt (step_expr d) fs st.

(* message RuleV2 *)
Record prule := { pr_head : option ppred; pr_body : list ppred; pr_exprs : list pexpr }.
Definition init_rule : prule := {| pr_head := None; pr_body := []; pr_exprs := [] |}.
Definition step_rule (d : nat) (st : prule) (f : wfield) : option prule :=
  let '(n, v) := f in
  if n =? fn_rule_head then
    match v with
    | WBytes p =>
        match sub p (p_pred d (opt_pred (pr_head st))) with
        | Some h => Some {| pr_head := Some h; pr_body := pr_body st; pr_exprs := pr_exprs st |}
        | None => None
        end
    | _ => Some st
    end
  else if n =? fn_rule_body then
    match v with
    | WBytes p =>
        match sub p (p_pred d init_pred) with
        | Some b => Some {| pr_head := pr_head st; pr_body := pr_body st ++ [b]; pr_exprs := pr_exprs st |}
        | None => None
        end
    | _ => Some st
    end
  else if n =? fn_rule_expressions then
    match v with
    | WBytes p =>
        match sub p (p_expr d []) with
        | Some e => Some {| pr_head := pr_head st; pr_body := pr_body st; pr_exprs := pr_exprs st ++ [e] |}
        | None => None
        end
    | _ => Some st
    end
  else Some st.
Definition p_rule (d : nat) (st : prule) (fs : list wfield) : option prule :=
  fold_opt (step_rule d) fs st.

(* a repeated field of RuleV2 messages (CheckV2.queries, Policy.queries) *)
Definition step_rules (fn : N) (d : nat) (st : list prule) (f : wfield) : option (list prule) :=
  let '(n, v) := f in
  if n =? fn then
    match v with
    | WBytes p => match sub p (p_rule d init_rule) with
                  | Some r => Some (st ++ [r])
                  | None => None
                  end
    | _ => Some st
    end
  else Some st.

(* message CheckV2: the value is its repeated field *)
Definition pcheck := list prule.
Definition p_check (d : nat) (st : pcheck) (fs : list wfield) : option pcheck :=
  fold_opt (step_rules fn_check_queries d) fs st.

(* message Block *)
Record pblock := {
  pb_symbols : list bytes;
  pb_context : option bytes;
  pb_version : option N;
  pb_facts : list pfact;
  pb_rules : list prule;
  pb_checks : list pcheck }.
Definition init_block : pblock :=
  {| pb_symbols := []; pb_context := None; pb_version := None;
     pb_facts := []; pb_rules := []; pb_checks := [] |}.
Definition step_block (d : nat) (st : pblock) (f : wfield) : option pblock :=
  let '(n, v) := f in
  if n =? fn_block_symbols then
    match v with
    | WBytes s => Some {| pb_symbols := pb_symbols st ++ [s]; pb_context := pb_context st;
                          pb_version := pb_version st; pb_facts := pb_facts st;
                          pb_rules := pb_rules st; pb_checks := pb_checks st |}
    | _ => Some st
    end
  else if n =? fn_block_context then
    match v with
    | WBytes s => Some {| pb_symbols := pb_symbols st; pb_context := Some s;
                          pb_version := pb_version st; pb_facts := pb_facts st;
                          pb_rules := pb_rules st; pb_checks := pb_checks st |}
    | _ => Some st
    end
  else if n =? fn_block_version then
    match v with
    | WVarint x => Some {| pb_symbols := pb_symbols st; pb_context := pb_context st;
                           pb_version := Some (u32 x); pb_facts := pb_facts st;
                           pb_rules := pb_rules st; pb_checks := pb_checks st |}
    | _ => Some st
    end
  else if n =? fn_block_facts then
    match v with
    | WBytes p =>
        match sub p (p_fact d None) with
        | Some x => Some {| pb_symbols := pb_symbols st; pb_context := pb_context st;
                            pb_version := pb_version st; pb_facts := pb_facts st ++ [x];
                            pb_rules := pb_rules st; pb_checks := pb_checks st |}
        | None => None
        end
    | _ => Some st
    end
  else if n =? fn_block_rules then
    match v with
    | WBytes p =>
        match sub p (p_rule d init_rule) with
        | Some x => Some {| pb_symbols := pb_symbols st; pb_context := pb_context st;
                            pb_version := pb_version st; pb_facts := pb_facts st;
                            pb_rules := pb_rules st ++ [x]; pb_checks := pb_checks st |}
        | None => None
        end
    | _ => Some st
    end
  else if n =? fn_block_checks then
    match v with
    | WBytes p =>
        match sub p (p_check d []) with
        | Some x => Some {| pb_symbols := pb_symbols st; pb_context := pb_context st;
                            pb_version := pb_version st; pb_facts := pb_facts st;
                            pb_rules := pb_rules st; pb_checks := pb_checks st ++ [x] |}
        | None => None
        end
    | _ => Some st
    end
  else Some st.
Definition p_block (d : nat) (st : pblock) (fs : list wfield) : option pblock :=
  fold_opt (step_block d) fs st.

(* message Policy *)
Record ppolicy := { ppo_queries : list prule; ppo_kind : option N }.
Definition init_policy : ppolicy := {| ppo_queries := []; ppo_kind := None |}.
Definition step_policy (d : nat) (st : ppolicy) (f : wfield) : option ppolicy :=
  let '(n, v) := f in
  if n =? fn_policy_queries then
    match v with
    | WBytes p => match sub p (p_rule d init_rule) with
                  | Some r => Some {| ppo_queries := ppo_queries st ++ [r]; ppo_kind := ppo_kind st |}
                  | None => None
                  end
    | _ => Some st
    end
  else if n =? fn_policy_kind then
    match v with
    | WVarint x => Some {| ppo_queries := ppo_queries st; ppo_kind := Some (enum_of x) |}
    | _ => Some st
    end
  else Some st.
Definition p_policy (d : nat) (st : ppolicy) (fs : list wfield) : option ppolicy :=
  fold_opt (step_policy d) fs st.

(* message AuthorizerPolicies *)
Record ppolicies := {
  pa_symbols : list bytes;
  pa_version : option N;
  pa_facts : list pfact;
  pa_rules : list prule;
  pa_checks : list pcheck;
  pa_policies : list ppolicy }.
Definition init_policies : ppolicies :=
  {| pa_symbols := []; pa_version := None; pa_facts := []; pa_rules := [];
     pa_checks := []; pa_policies := [] |}.
Definition step_policies (d : nat) (st : ppolicies) (f : wfield) : option ppolicies :=
  let '(n, v) := f in
  if n =? fn_ap_symbols then
    match v with
    | WBytes s => Some {| pa_symbols := pa_symbols st ++ [s]; pa_version := pa_version st;
                          pa_facts := pa_facts st; pa_rules := pa_rules st;
                          pa_checks := pa_checks st; pa_policies := pa_policies st |}
    | _ => Some st
    end
  else if n =? fn_ap_version then
    match v with
    | WVarint x => Some {| pa_symbols := pa_symbols st; pa_version := Some (u32 x);
                           pa_facts := pa_facts st; pa_rules := pa_rules st;
                           pa_checks := pa_checks st; pa_policies := pa_policies st |}
    | _ => Some st
    end
  else if n =? fn_ap_facts then
    match v with
    | WBytes p =>
        match sub p (p_fact d None) with
        | Some x => Some {| pa_symbols := pa_symbols st; pa_version := pa_version st;
                            pa_facts := pa_facts st ++ [x]; pa_rules := pa_rules st;
                            pa_checks := pa_checks st; pa_policies := pa_policies st |}
        | None => None
        end
    | _ => Some st
    end
  else if n =? fn_ap_rules then
    match v with
    | WBytes p =>
        match sub p (p_rule d init_rule) with
        | Some x => Some {| pa_symbols := pa_symbols st; pa_version := pa_version st;
                            pa_facts := pa_facts st; pa_rules := pa_rules st ++ [x];
                            pa_checks := pa_checks st; pa_policies := pa_policies st |}
        | None => None
        end
    | _ => Some st
    end
  else if n =? fn_ap_checks then
    match v with
    | WBytes p =>
        match sub p (p_check d []) with
        | Some x => Some {| pa_symbols := pa_symbols st; pa_version := pa_version st;
                            pa_facts := pa_facts st; pa_rules := pa_rules st;
                            pa_checks := pa_checks st ++ [x]; pa_policies := pa_policies st |}
        | None => None
        end
    | _ => Some st
    end
  else if n =? fn_ap_policies then
    match v with
    | WBytes p =>
        match sub p (p_policy d init_policy) with
        | Some x => Some {| pa_symbols := pa_symbols st; pa_version := pa_version st;
                            pa_facts := pa_facts st; pa_rules := pa_rules st;
                            pa_checks := pa_checks st; pa_policies := pa_policies st ++ [x] |}
        | None => None
        end
    | _ => Some st
    end
  else Some st.
Definition p_policies (d : nat) (st : ppolicies) (fs : list wfield) : option ppolicies :=
  fold_opt (step_policies d) fs st.

(* messages PublicKey, SignedBlock, Proof, Biscuit *)
Record ppubkey := { pk_alg : option N; pk_key : option bytes }.
Definition init_pubkey : ppubkey := {| pk_alg := None; pk_key := None |}.
Definition step_pubkey (st : ppubkey) (f : wfield) : option ppubkey :=
  let '(n, v) := f in
  if n =? fn_pk_algorithm then
    match v with
    | WVarint x => Some {| pk_alg := Some (enum_of x); pk_key := pk_key st |}
    | _ => Some st
    end
  else if n =? fn_pk_key then
    match v with
    | WBytes b => Some {| pk_alg := pk_alg st; pk_key := Some b |}
    | _ => Some st
    end
  else Some st.
Definition p_pubkey (st : ppubkey) (fs : list wfield) : option ppubkey :=
  fold_opt step_pubkey fs st.

Record psblock := { ps_block : option bytes; ps_key : option ppubkey; ps_sig : option bytes }.
Definition init_sblock : psblock := {| ps_block := None; ps_key := None; ps_sig := None |}.
Definition step_sblock (st : psblock) (f : wfield) : option psblock :=
  let '(n, v) := f in
  if n =? fn_sb_block then
    match v with
    | WBytes b => Some {| ps_block := Some b; ps_key := ps_key st; ps_sig := ps_sig st |}
    | _ => Some st
    end
  else if n =? fn_sb_nextKey then
    match v with
    | WBytes p =>
        match sub p (p_pubkey (match ps_key st with Some k => k | None => init_pubkey end)) with
        | Some k => Some {| ps_block := ps_block st; ps_key := Some k; ps_sig := ps_sig st |}
        | None => None
        end
    | _ => Some st
    end
  else if n =? fn_sb_signature then
    match v with
    | WBytes b => Some {| ps_block := ps_block st; ps_key := ps_key st; ps_sig := Some b |}
    | _ => Some st
    end
  else Some st.
Definition p_sblock (st : psblock) (fs : list wfield) : option psblock :=
  fold_opt step_sblock fs st.

(* message Proof: the value is its oneof; PNone = no member *)
Definition step_proof (st : proof) (f : wfield) : option proof :=
  let '(n, v) := f in
  if n =? fn_proof_nextSecret then
    match v with WBytes b => Some (PNextSecret b) | _ => Some st end
  else if n =? fn_proof_finalSignature then
    match v with WBytes b => Some (PFinalSig b) | _ => Some st end
  else Some st.
Definition p_proof (st : proof) (fs : list wfield) : option proof :=
  fold_opt step_proof fs st.

Record pbiscuit := {
  pbi_rootid : option N;
  pbi_auth : option psblock;
  pbi_blocks : list psblock;
  pbi_proof : option proof }.
Definition init_biscuit : pbiscuit :=
  {| pbi_rootid := None; pbi_auth := None; pbi_blocks := []; pbi_proof := None |}.
Definition step_biscuit (st : pbiscuit) (f : wfield) : option pbiscuit :=
  let '(n, v) := f in
  if n =? fn_biscuit_rootKeyId then
    match v with
    | WVarint x => Some {| pbi_rootid := Some (u32 x); pbi_auth := pbi_auth st;
                           pbi_blocks := pbi_blocks st; pbi_proof := pbi_proof st |}
    | _ => Some st
    end
  else if n =? fn_biscuit_authority then
    match v with
    | WBytes p =>
        match sub p (p_sblock (match pbi_auth st with Some a => a | None => init_sblock end)) with
        | Some a => Some {| pbi_rootid := pbi_rootid st; pbi_auth := Some a;
                            pbi_blocks := pbi_blocks st; pbi_proof := pbi_proof st |}
        | None => None
        end
    | _ => Some st
    end
  else if n =? fn_biscuit_blocks then
    match v with
    | WBytes p =>
        match sub p (p_sblock init_sblock) with
        | Some b => Some {| pbi_rootid := pbi_rootid st; pbi_auth := pbi_auth st;
                            pbi_blocks := pbi_blocks st ++ [b]; pbi_proof := pbi_proof st |}
        | None => None
        end
    | _ => Some st
    end
  else if n =? fn_biscuit_proof then
    match v with
    | WBytes p =>
        match sub p (p_proof (match pbi_proof st with Some x => x | None => PNone end)) with
        | Some x => Some {| pbi_rootid := pbi_rootid st; pbi_auth := pbi_auth st;
                            pbi_blocks := pbi_blocks st; pbi_proof := Some x |}
        | None => None
        end
    | _ => Some st
    end
  else Some st.
Definition p_biscuit (st : pbiscuit) (fs : list wfield) : option pbiscuit :=
  fold_opt step_biscuit fs st.

(* ------------------------------------------------------------------ *)
(** * 6. The [required] check (proto.CheckInitialized on the final value) *)

Definition is_some {A} (o : option A) : bool := match o with Some _ => true | None => false end.

Definition req_pred (p : ppred) : bool := is_some (pp_name p).
Definition req_fact (f : pfact) : bool := match f with Some p => req_pred p | None => false end.
Definition req_op (o : pop) : bool :=
  match o with POun None | PObin None => false | _ => true end.
Definition req_rule (r : prule) : bool :=
  match pr_head r with Some h => req_pred h | None => false end &&
  forallb req_pred (pr_body r) && forallb (forallb req_op) (pr_exprs r).
Definition req_check (c : pcheck) : bool := forallb req_rule c.
Definition req_block (b : pblock) : bool :=
  forallb req_fact (pb_facts b) && forallb req_rule (pb_rules b) && forallb req_check (pb_checks b).
Definition req_policy (p : ppolicy) : bool := forallb req_rule (ppo_queries p) && is_some (ppo_kind p).
Definition req_policies (a : ppolicies) : bool :=
  forallb req_fact (pa_facts a) && forallb req_rule (pa_rules a) &&
  forallb req_check (pa_checks a) && forallb req_policy (pa_policies a).
Definition req_pubkey (k : ppubkey) : bool := is_some (pk_alg k) && is_some (pk_key k).
Definition req_sblock (s : psblock) : bool :=
  is_some (ps_block s) && match ps_key s with Some k => req_pubkey k | None => false end &&
  is_some (ps_sig s).
Definition req_biscuit (b : pbiscuit) : bool :=
  match pbi_auth b with Some a => req_sblock a | None => false end &&
  forallb req_sblock (pbi_blocks b) && is_some (pbi_proof b).

(* protobuf-go's fast path (impl/decode.go unmarshalPointer): every parse call
   reports "initialized" iff it saw, in THIS call, each of its own required
   fields with the right wire type, and every sub-call reached through a field
   whose coder has an isInit function reported initialized.  isInit exists on
   message-typed fields whose message type can be uninitialized, and, for a
   oneof, only on the FIRST field of the oneof (codec_field.go
   initOneofFieldCoders): Op.value has it, Op.unary and Op.Binary do not, so an
   Op call always reports initialized.  The flag is a function of the field
   list alone, not of the merge state. *)
Definition has_varint (fn : N) (fs : list wfield) : bool :=
  existsb (fun f => match f with (n, WVarint _) => n =? fn | _ => false end) fs.
Definition has_bytes (fn : N) (fs : list wfield) : bool :=
  existsb (fun f => match f with (n, WBytes _) => n =? fn | _ => false end) fs.
Definition all_sub (fn : N) (k : list wfield -> bool) (fs : list wfield) : bool :=
  forallb (fun f => match f with
                    | (n, WBytes p) =>
                        if n =? fn then
                          match decode_fields p with Some sfs => k sfs | None => false end
                        else true
                    | _ => true
                    end) fs.

Definition fast_pred (fs : list wfield) : bool := has_varint fn_pred_name fs.
Definition fast_fact (fs : list wfield) : bool :=
  has_bytes fn_fact_predicate fs && all_sub fn_fact_predicate fast_pred fs.
Definition fast_rule (fs : list wfield) : bool :=
  has_bytes fn_rule_head fs && all_sub fn_rule_head fast_pred fs &&
  all_sub fn_rule_body fast_pred fs.
Definition fast_check (fs : list wfield) : bool := all_sub fn_check_queries fast_rule fs.
Definition fast_block (fs : list wfield) : bool :=
  all_sub fn_block_facts fast_fact fs && all_sub fn_block_rules fast_rule fs &&
  all_sub fn_block_checks fast_check fs.
Definition fast_policy (fs : list wfield) : bool :=
  has_varint fn_policy_kind fs && all_sub fn_policy_queries fast_rule fs.
Definition fast_policies (fs : list wfield) : bool :=
  all_sub fn_ap_facts fast_fact fs && all_sub fn_ap_rules fast_rule fs &&
  all_sub fn_ap_checks fast_check fs && all_sub fn_ap_policies fast_policy fs.
Definition fast_pubkey (fs : list wfield) : bool :=
  has_varint fn_pk_algorithm fs && has_bytes fn_pk_key fs.
Definition fast_sblock (fs : list wfield) : bool :=
  has_bytes fn_sb_block fs && has_bytes fn_sb_nextKey fs && has_bytes fn_sb_signature fs &&
  all_sub fn_sb_nextKey fast_pubkey fs.
Definition fast_biscuit (fs : list wfield) : bool :=
  has_bytes fn_biscuit_authority fs && has_bytes fn_biscuit_proof fs &&
  all_sub fn_biscuit_authority fast_sblock fs && all_sub fn_biscuit_blocks fast_sblock fs.

(* proto.Unmarshal: wire errors, then "fast flag or CheckInitialized" *)
Definition unmarshal_msg {X : Type} (p : list wfield -> option X) (req : X -> bool)
    (fast : list wfield -> bool) (bs : bytes) : res X :=
  match decode_fields bs with
  | None => Err EWire
  | Some fs =>
      match p fs with
      | None => Err EWire
      | Some x => if req x || fast fs then Ok x else Err EWire
      end
  end.

(* ------------------------------------------------------------------ *)
(** * 7. pb level -> D level (converters_v2.go, converters.go) *)

Fixpoint mapM {A B} (f : A -> res B) (l : list A) : res (list B) :=
  match l with
  | [] => Ok []
  | x :: l' => do y <- f x; do ys <- mapM f l'; Ok (y :: ys)
  end.

(* reflect.TypeOf(elt.GetContent()): 0 = nil *)
Definition pterm_kind (t : pterm) : N :=
  match t with
  | PTnone => 0 | PTvar _ => 1 | PTint _ => 2 | PTstr _ => 3 | PTdate _ => 4
  | PTbytes _ => 5 | PTbool _ => 6 | PTset _ => 7
  end.

(* protoIDToTokenIDV2 on a set element that passed the kind tests *)
Definition conv_atom (t : pterm) : res datom :=
  match t with
  | PTvar n => Ok (DVar n)
  | PTint z => Ok (DInt z)
  | PTstr n => Ok (DStr n)
  | PTdate n => Ok (DDate n)
  | PTbytes b => Ok (DBytes b)
  | PTbool b => Ok (DBool b)
  | PTnone | PTset _ => Err EConvert
  end.

(* protoIDToTokenIDV2 *)
Definition conv_term (t : pterm) : res dterm :=
  match t with
  | PTset l =>
      match l with
      | [] => Err EConvert
      | x :: _ =>
          let k := pterm_kind x in
          if (k =? 1) || (k =? 7) then Err EConvert else
          if negb (forallb (fun y => pterm_kind y =? k) l) then Err EConvert else
          do l' <- mapM conv_atom l; Ok (DSet l')
      end
  | _ => do a <- conv_atom t; Ok (DA a)
  end.

(* protoExprUnaryToTokenExprUnary / protoExprBinaryToTokenExprBinary on a nil
   Kind: since /repo 50f7d92 "if op.Kind == nil { return nil, errors.New(...) }"
   before the switch.  Before that commit `switch *op.Kind` dereferenced nil
   (then: [Panic 2]). *)
Definition nil_kind_outcome {A : Type} : res A := Err EConvert.

(* apart from the two kinds above, a missing required field cannot reach the
   converters (EWire before) *)
Definition conv_pred (p : ppred) : res dpred :=
  do ts <- mapM conv_term (pp_terms p);
  match pp_name p with
  | Some n => Ok {| dp_name := n; dp_terms := ts |}
  | None => Err EWire
  end.
Definition conv_fact (f : pfact) : res dpred :=
  match f with Some p => conv_pred p | None => Err EWire end.
Definition conv_op (o : pop) : res dop :=
  match o with
  | POnone => Err EConvert
  | POval t => do t' <- conv_term t; Ok (DOVal t')
  | POun (Some k) => match kind_to_unop k with Some u => Ok (DOUn u) | None => Err EConvert end
  | PObin (Some k) => match kind_to_binop k with Some b => Ok (DOBin b) | None => Err EConvert end
  | POun None | PObin None => nil_kind_outcome
  end.
Definition conv_expr (e : pexpr) : res dexpr := mapM conv_op e.
Definition conv_rule (r : prule) : res drule :=
  do body <- mapM conv_pred (pr_body r);
  do exprs <- mapM conv_expr (pr_exprs r);
  match pr_head r with
  | Some h => do head <- conv_pred h;
              Ok {| dr_head := head; dr_body := body; dr_exprs := exprs |}
  | None => Err EWire
  end.
Definition conv_check (c : pcheck) : res dcheck := mapM conv_rule c.

(* protoBlockToTokenBlock: the two gates, then the switch whose only case is 3 *)
Definition block_switch_version : N := 3.
Definition conv_block (b : pblock) : res dblock :=
  let v := match pb_version b with Some v => v | None => 0 end in
  if v <? Generated.min_schema_version then Err EVersion else
  if Generated.max_schema_version <? v then Err EVersion else
  if negb (v =? block_switch_version) then Err EVersion else
  do facts <- mapM conv_fact (pb_facts b);
  do rules <- mapM conv_rule (pb_rules b);
  do checks <- mapM conv_check (pb_checks b);
  Ok {| db_symbols := pb_symbols b;
        db_context := match pb_context b with Some c => c | None => [] end;
        db_version := v;
        db_facts := facts; db_rules := rules; db_checks := checks |}.

Definition depth_for (bs : bytes) : nat := S (S (length bs)).

(* proto.Unmarshal into pb.Block *)
Definition parse_block (bs : bytes) : res pblock :=
  unmarshal_msg (p_block (depth_for bs) init_block) req_block fast_block bs.

Definition dec_block (bs : bytes) : res dblock :=
  do b <- parse_block bs; conv_block b.

(* ------------------------------------------------------------------ *)
(** * 8. D level -> bytes (tokenBlockToProtoBlock + proto.Marshal) *)

Definition fv (n v : N) : wfield := (n, WVarint v).
Definition fb (n : N) (b : bytes) : wfield := (n, WBytes b).
Definition fm (n : N) (fs : list wfield) : wfield := (n, WBytes (encode_fields fs)).

Definition datom_kind (a : datom) : N :=
  match a with
  | DVar _ => 1 | DInt _ => 2 | DStr _ => 3 | DDate _ => 4 | DBytes _ => 5 | DBool _ => 6
  end.

(* the rejections of tokenIDToProtoIDV2 *)
Definition term_ok (t : dterm) : bool :=
  match t with
  | DA _ => true
  | DSet [] => false
  | DSet (a :: l) =>
      negb (datom_kind a =? 1) && forallb (fun x => datom_kind x =? datom_kind a) (a :: l)
  end.
Definition pred_ok (p : dpred) : bool := forallb term_ok (dp_terms p).
Definition op_ok (o : dop) : bool :=
  match o with
  | DOVal t => term_ok t
  | DOUn u => is_some (unop_to_kind u)
  | DOBin b => is_some (binop_to_kind b)
  end.
Definition rule_ok (r : drule) : bool :=
  forallb pred_ok (dr_body r) && forallb (forallb op_ok) (dr_exprs r) && pred_ok (dr_head r).
Definition block_ok (b : dblock) : bool :=
  forallb pred_ok (db_facts b) && forallb rule_ok (db_rules b) &&
  forallb (forallb rule_ok) (db_checks b).

Definition fields_atom (a : datom) : list wfield :=
  match a with
  | DVar v => [fv fn_term_variable v]
  | DInt z => [fv fn_term_integer (of_int64 z)]
  | DStr s => [fv fn_term_string s]
  | DDate d => [fv fn_term_date d]
  | DBytes b => [fb fn_term_bytes b]
  | DBool b => [fv fn_term_bool (enc_bool b)]
  end.
Definition fields_term (t : dterm) : list wfield :=
  match t with
  | DA a => fields_atom a
  | DSet l => [fm fn_term_set (map (fun a => fm fn_termset_set (fields_atom a)) l)]
  end.
Definition fields_pred (p : dpred) : list wfield :=
  fv fn_pred_name (dp_name p) :: map (fun t => fm fn_pred_terms (fields_term t)) (dp_terms p).
Definition fields_fact (p : dpred) : list wfield := [fm fn_fact_predicate (fields_pred p)].
Definition opt_kind (o : option N) : N := match o with Some k => k | None => 0 end.
Definition fields_op (o : dop) : list wfield :=
  match o with
  | DOVal t => [fm fn_op_value (fields_term t)]
  | DOUn u => [fm fn_op_unary [fv fn_opunary_kind (enc_enum (opt_kind (unop_to_kind u)))]]
  | DOBin b => [fm fn_op_binary [fv fn_opbinary_kind (enc_enum (opt_kind (binop_to_kind b)))]]
  end.
Definition fields_expr (e : dexpr) : list wfield :=
  map (fun o => fm fn_expr_ops (fields_op o)) e.
Definition fields_rule (r : drule) : list wfield :=
  fm fn_rule_head (fields_pred (dr_head r)) ::
  map (fun p => fm fn_rule_body (fields_pred p)) (dr_body r) ++
  map (fun e => fm fn_rule_expressions (fields_expr e)) (dr_exprs r).
Definition fields_check (c : dcheck) : list wfield :=
  map (fun r => fm fn_check_queries (fields_rule r)) c.
Definition fields_block (b : dblock) : list wfield :=
  map (fb fn_block_symbols) (db_symbols b) ++
  [fb fn_block_context (db_context b); fv fn_block_version (db_version b)] ++
  map (fun p => fm fn_block_facts (fields_fact p)) (db_facts b) ++
  map (fun r => fm fn_block_rules (fields_rule r)) (db_rules b) ++
  map (fun c => fm fn_block_checks (fields_check c)) (db_checks b).

Definition enc_block (b : dblock) : res bytes :=
  if block_ok b then Ok (encode_fields (fields_block b)) else Err EConvert.

(* ------------------------------------------------------------------ *)
(** * 9. message Biscuit <-> Chain.container *)

Definition conv_sblock (s : psblock) : res sblock :=
  match ps_block s, ps_key s, ps_sig s with
  | Some b, Some k, Some sg =>
      match pk_alg k, pk_key k with
      | Some a, Some key => Ok {| sb_block := b; sb_alg := a; sb_key := key; sb_sig := sg |}
      | _, _ => Err EWire
      end
  | _, _, _ => Err EWire
  end.

Definition conv_biscuit (b : pbiscuit) : res container :=
  match pbi_auth b, pbi_proof b with
  | Some a, Some pr =>
      do a' <- conv_sblock a;
      do bs <- mapM conv_sblock (pbi_blocks b);
      Ok {| c_rootid := pbi_rootid b; c_auth := a'; c_blocks := bs; c_proof := pr |}
  | _, _ => Err EWire
  end.

(* proto.Unmarshal into pb.Biscuit *)
Definition parse_biscuit (bs : bytes) : res pbiscuit :=
  unmarshal_msg (p_biscuit init_biscuit) req_biscuit fast_biscuit bs.
Definition dec_container (bs : bytes) : res container :=
  do b <- parse_biscuit bs; conv_biscuit b.

Definition fields_sblock (s : sblock) : list wfield :=
  [ fb fn_sb_block (sb_block s);
    fm fn_sb_nextKey [fv fn_pk_algorithm (enc_enum (sb_alg s)); fb fn_pk_key (sb_key s)];
    fb fn_sb_signature (sb_sig s) ].
Definition fields_proof (p : proof) : list wfield :=
  match p with
  | PNextSecret s => [fb fn_proof_nextSecret s]
  | PFinalSig s => [fb fn_proof_finalSignature s]
  | PNone => []
  end.
Definition fields_container (c : container) : list wfield :=
  match c_rootid c with Some r => [fv fn_biscuit_rootKeyId r] | None => [] end ++
  [fm fn_biscuit_authority (fields_sblock (c_auth c))] ++
  map (fun b => fm fn_biscuit_blocks (fields_sblock b)) (c_blocks c) ++
  [fm fn_biscuit_proof (fields_proof (c_proof c))].
Definition enc_container (c : container) : bytes := encode_fields (fields_container c).

(* ------------------------------------------------------------------ *)
(** * 10. message AuthorizerPolicies *)

Record policies := {
  ap_symbols : list bytes;
  ap_version : option N;
  ap_facts : list dpred;
  ap_rules : list drule;
  ap_checks : list dcheck;
  ap_policies : list (N * list drule) }.

(* proto.Unmarshal into pb.AuthorizerPolicies; exposed so that a caller can
   interleave the conversions with its own steps as loadPoliciesV2 does *)
Definition parse_policies (bs : bytes) : res ppolicies :=
  unmarshal_msg (p_policies (depth_for bs) init_policies) req_policies fast_policies bs.

Definition conv_policy (p : ppolicy) : res (N * list drule) :=
  match ppo_kind p with
  | Some k => do qs <- mapM conv_rule (ppo_queries p); Ok (k, qs)
  | None => Err EWire
  end.

Definition conv_policies (a : ppolicies) : res policies :=
  do facts <- mapM conv_fact (pa_facts a);
  do rules <- mapM conv_rule (pa_rules a);
  do checks <- mapM conv_check (pa_checks a);
  do pols <- mapM conv_policy (pa_policies a);
  Ok {| ap_symbols := pa_symbols a; ap_version := pa_version a; ap_facts := facts;
        ap_rules := rules; ap_checks := checks; ap_policies := pols |}.

Definition dec_policies (bs : bytes) : res policies :=
  do a <- parse_policies bs; conv_policies a.

Definition policies_ok (a : policies) : bool :=
  forallb pred_ok (ap_facts a) && forallb rule_ok (ap_rules a) &&
  forallb (forallb rule_ok) (ap_checks a) &&
  forallb (fun p => forallb rule_ok (snd p)) (ap_policies a).

Definition fields_policy (p : N * list drule) : list wfield :=
  map (fun r => fm fn_policy_queries (fields_rule r)) (snd p) ++
  [fv fn_policy_kind (enc_enum (fst p))].
Definition fields_policies (a : policies) : list wfield :=
  map (fb fn_ap_symbols) (ap_symbols a) ++
  match ap_version a with Some v => [fv fn_ap_version v] | None => [] end ++
  map (fun p => fm fn_ap_facts (fields_fact p)) (ap_facts a) ++
  map (fun r => fm fn_ap_rules (fields_rule r)) (ap_rules a) ++
  map (fun c => fm fn_ap_checks (fields_check c)) (ap_checks a) ++
  map (fun p => fm fn_ap_policies (fields_policy p)) (ap_policies a).
Definition enc_policies (a : policies) : res bytes :=
  if policies_ok a then Ok (encode_fields (fields_policies a)) else Err EConvert.

(* ------------------------------------------------------------------ *)
(** * 11. builder.go Unmarshaler.Unmarshal up to symbol-table bookkeeping *)

Definition gate_and_decode (sb : sblock) : res dblock :=
  if negb (length (sb_key sb) =? 32)%nat then Err EInvalidKeySize else
  if negb (length (sb_sig sb) =? 64)%nat then Err EInvalidSigSize else
  dec_block (sb_block sb).

Definition unmarshal (bs : bytes) : res (container * dblock * list dblock) :=
  do c <- dec_container bs;
  do a <- gate_and_decode (c_auth c);
  do blocks <- mapM gate_and_decode (c_blocks c);
  Ok (c, a, blocks).
