(* Footprint.v -- property C19: a token shared by concurrent goroutines.

   Part 1: a generic model of deterministic threads over one shared heap
           (requests Read / Write / Alloc, arbitrary state machines, arbitrary
           schedules) with explicit ownership of locations.
   Part 2: a small footprint language ("scripts") and, for every operation
           listed in the property, the footprint program of the repaired Go
           code ([op_phases]) and of the pre-repair Go code ([op_phases_old]).

   What the model does NOT contain: the Go memory model (every pair of
   accesses by different threads is unordered here: there is no
   synchronisation at all, which is the conservative choice), the runtime
   scheduler, and the internals of participle / protobuf-go.  The tie between
   the footprint programs below and the Go source is a generated pin
   ([Generated.shared_write_sites = []], extracted from the Go AST) together
   with a [-race] stress harness; see DESIGN.md section 4 C19. *)
From Coq Require Import List NArith Bool Arith Lia.
Import ListNotations.

(* ------------------------------------------------------------------ *)
(** * Part 1 -- threads over a shared heap                               *)
(* ------------------------------------------------------------------ *)

Definition val := N.
Definition tid := nat.

(* Locations carry their owner.
   [LShared r o i] : a cell that exists from the start and belongs to nobody
                     (region kind r, object o, index i -- three coordinates so
                     that distinct cells of the token are distinct by
                     construction);
   [LPriv t k]     : the k-th cell allocated by thread t.  Allocation is
                     deterministic per thread: the k-th [RAlloc] of thread t
                     returns [LPriv t k], in a solo run as well as in any
                     interleaving, so observable outputs can be compared by
                     plain equality and never mention "raw addresses" that
                     depend on the schedule. *)
Inductive loc :=
| LShared (r o i : nat)
| LPriv (t : tid) (k : nat).

Definition owner (l : loc) : option tid :=
  match l with LShared _ _ _ => None | LPriv t _ => Some t end.

Definition loc_eqb (a b : loc) : bool :=
  match a, b with
  | LShared r o i, LShared r' o' i' => Nat.eqb r r' && Nat.eqb o o' && Nat.eqb i i'
  | LPriv t k, LPriv t' k' => Nat.eqb t t' && Nat.eqb k k'
  | _, _ => false
  end.

(* The heap is a total function; which private cells exist is recorded by the
   per-thread allocation counter (cell [LPriv t k] exists iff k < counter t). *)
Definition heap := loc -> val.

Definition hupd (h : heap) (l : loc) (v : val) : heap :=
  fun l' => if loc_eqb l' l then v else h l'.

Inductive req :=
| RRead (l : loc)
| RWrite (l : loc) (v : val)
| RAlloc.

(* what the heap answers *)
Inductive ans :=
| AVal (v : val)      (* the value read *)
| ALoc (l : loc)      (* the fresh location *)
| AUnit.              (* a write *)

(* A thread is a deterministic state machine over a local state [S]:
   [t_next s = None] means the thread has finished; otherwise it issues a
   request and is resumed with the heap's answer, so values read can
   influence every later request. *)
Record thread (S : Type) := {
  t_init   : S;
  t_next   : S -> option req;
  t_resume : S -> ans -> S
}.
Arguments t_init {S}. Arguments t_next {S}. Arguments t_resume {S}.

(* Executed actions.  Traces are kept newest-first. *)
Inductive event :=
| EvRead  (t : tid) (l : loc) (v : val)
| EvWrite (t : tid) (l : loc) (v : val)
| EvAlloc (t : tid) (l : loc).

Definition ev_tid (e : event) : tid :=
  match e with EvRead t _ _ | EvWrite t _ _ | EvAlloc t _ => t end.

(* memory accesses: allocation hands out a cell nobody else can name; it is
   not an access *)
Definition ev_access (e : event) : option loc :=
  match e with EvRead _ l _ | EvWrite _ l _ => Some l | EvAlloc _ _ => None end.

Definition ev_is_write (e : event) : bool :=
  match e with EvWrite _ _ _ => true | _ => false end.

(* The heap is permissive: it executes every request, including writes to
   shared cells (so that the pre-repair bug can be exhibited).  [c] is the
   allocation counter of the requesting thread.  A fresh cell is zeroed, as
   Go's make/new do. *)
Definition exec (t : tid) (c : nat) (h : heap) (r : req) : heap * nat * ans * event :=
  match r with
  | RRead l    => (h, c, AVal (h l), EvRead t l (h l))
  | RWrite l v => (hupd h l v, c, AUnit, EvWrite t l v)
  | RAlloc     => (hupd h (LPriv t c) 0%N, S c, ALoc (LPriv t c), EvAlloc t (LPriv t c))
  end.

(* The discipline, per request of thread [t] whose counter is [c]:
   shared cells may only be read; a private cell may be touched only by its
   owner and only once it has been allocated. *)
Definition loc_owned (t : tid) (c : nat) (l : loc) : Prop :=
  match l with LShared _ _ _ => False | LPriv t' k => t' = t /\ k < c end.

Definition req_ok (t : tid) (c : nat) (r : req) : Prop :=
  match r with
  | RRead (LShared _ _ _) => True
  | RRead l => loc_owned t c l
  | RWrite l _ => loc_owned t c l
  | RAlloc => True
  end.

Definition req_okb (t : tid) (c : nat) (r : req) : bool :=
  let owned l := match l with LShared _ _ _ => false
                            | LPriv t' k => Nat.eqb t' t && Nat.ltb k c end in
  match r with
  | RRead (LShared _ _ _) => true
  | RRead l => owned l
  | RWrite l _ => owned l
  | RAlloc => true
  end.

Definition oreq_ok (t : tid) (c : nat) (o : option req) : Prop :=
  match o with None => True | Some r => req_ok t c r end.

(** ** Solo runs *)

Record solo (S : Type) := {
  so_st    : S;
  so_heap  : heap;
  so_cnt   : nat;
  so_trace : list event
}.
Arguments so_st {S}. Arguments so_heap {S}. Arguments so_cnt {S}. Arguments so_trace {S}.

Definition solo_init {S} (th : thread S) (h : heap) : solo S :=
  {| so_st := t_init th; so_heap := h; so_cnt := 0; so_trace := [] |}.

Definition solo_step {S} (th : thread S) (t : tid) (c : solo S) : solo S :=
  match t_next th (so_st c) with
  | None => c
  | Some r =>
      match exec t (so_cnt c) (so_heap c) r with
      | (h', n', a, e) =>
          {| so_st := t_resume th (so_st c) a; so_heap := h';
             so_cnt := n'; so_trace := e :: so_trace c |}
      end
  end.

(* thread [th], running alone as goroutine number [t] on heap [h], [n] steps *)
Fixpoint solo_run {S} (th : thread S) (t : tid) (h : heap) (n : nat) : solo S :=
  match n with
  | O => solo_init th h
  | S n' => solo_step th t (solo_run th t h n')
  end.

(* the discipline as a property of a program started on heap [h] as thread [t]:
   no step of its solo run issues a forbidden request *)
Definition disciplined {S} (th : thread S) (t : tid) (h : heap) : Prop :=
  forall n, let c := solo_run th t h n in oreq_ok t (so_cnt c) (t_next th (so_st c)).

(* ... and as a property of the program alone *)
Definition writes_only_owned {S} (th : thread S) : Prop :=
  forall t h, disciplined th t h.

(** ** Interleaved runs *)

Record world (S : Type) := {
  w_st    : tid -> S;
  w_heap  : heap;
  w_cnt   : tid -> nat;
  w_trace : list event
}.
Arguments w_st {S}. Arguments w_heap {S}. Arguments w_cnt {S}. Arguments w_trace {S}.

(* a system is a family of threads indexed by thread id: any number of
   threads; the ones that are never scheduled simply do not run *)
Definition system (S : Type) := tid -> thread S.

Definition init_world {S} (sys : system S) (h : heap) : world S :=
  {| w_st := fun t => t_init (sys t); w_heap := h; w_cnt := fun _ => 0; w_trace := [] |}.

Definition fupd {A} (f : tid -> A) (t : tid) (x : A) : tid -> A :=
  fun t' => if Nat.eqb t' t then x else f t'.

(* thread [t] performs its next request on the shared heap *)
Definition step {S} (sys : system S) (w : world S) (t : tid) : world S :=
  match t_next (sys t) (w_st w t) with
  | None => w
  | Some r =>
      match exec t (w_cnt w t) (w_heap w) r with
      | (h', n', a, e) =>
          {| w_st := fupd (w_st w) t (t_resume (sys t) (w_st w t) a);
             w_heap := h';
             w_cnt := fupd (w_cnt w) t n';
             w_trace := e :: w_trace w |}
      end
  end.

(* a schedule is the list of thread ids in the order in which they move *)
Definition run {S} (sys : system S) (sched : list tid) (w : world S) : world S :=
  fold_left (step sys) sched w.

(* how many times thread [t] is scheduled in [sched] *)
Fixpoint steps_of (t : tid) (sched : list tid) : nat :=
  match sched with
  | [] => 0
  | x :: rest => (if Nat.eqb x t then 1 else 0) + steps_of t rest
  end.

Definition interleaved_run {S} (sys : system S) (h : heap) (sched : list tid) : world S :=
  run sys sched (init_world sys h).

(** ** Races and observations *)

(* There is no synchronisation in this model, hence no happens-before edge
   between actions of different threads: two accesses to one location by
   different threads, at least one of them a write, are a race wherever they
   occur in the trace.  (Different thread ids force the two events to be at
   different positions, so "exists i < j" is implied.) *)
Definition conflict (e1 e2 : event) : Prop :=
  ev_tid e1 <> ev_tid e2 /\
  (exists l, ev_access e1 = Some l /\ ev_access e2 = Some l) /\
  (ev_is_write e1 = true \/ ev_is_write e2 = true).

Definition race (tr : list event) : Prop :=
  exists e1 e2, In e1 tr /\ In e2 tr /\ conflict e1 e2.

Definition shared_write (e : event) : bool :=
  match e with EvWrite _ (LShared _ _ _) _ => true | _ => false end.

Definition no_shared_write (tr : list event) : Prop :=
  forall e, In e tr -> shared_write e = false.

(* the part of a trace that belongs to thread [t] *)
Definition by_tid (t : tid) (tr : list event) : list event :=
  filter (fun e => Nat.eqb (ev_tid e) t) tr.

(* the values a thread read from shared cells, newest first *)
Fixpoint obs_shared (t : tid) (tr : list event) : list (loc * val) :=
  match tr with
  | [] => []
  | EvRead t' (LShared r o i) v :: tr' =>
      if Nat.eqb t' t then (LShared r o i, v) :: obs_shared t tr' else obs_shared t tr'
  | _ :: tr' => obs_shared t tr'
  end.

(* ------------------------------------------------------------------ *)
(** * Part 2 -- footprint scripts and the token operations              *)
(* ------------------------------------------------------------------ *)

(* A script names shared cells directly and its own cells by allocation rank:
   [AOwn k] is the k-th location the heap handed to this thread.  A script
   cannot name a private cell of another thread at all. *)
Inductive addr :=
| AShared (r o i : nat)
| AOwn (k : nat).

Inductive instr :=
| IRead  (a : addr)     (* acc := mix acc (value read) *)
| IWrite (a : addr)     (* store acc *)
| IAlloc.               (* obtain a fresh cell *)

Record sstate := {
  sc_rest : list instr;
  sc_acc  : val;
  sc_mine : list loc       (* the locations obtained from the heap, in order *)
}.

(* the accumulator depends on every value read, in order: the result of a
   script is a digest of everything it has seen *)
Definition mix (acc v : val) : val := (acc * 31 + v + 1)%N.

Definition resolve (st : sstate) (a : addr) : option loc :=
  match a with
  | AShared r o i => Some (LShared r o i)
  | AOwn k => nth_error (sc_mine st) k
  end.

(* an instruction that names an own cell the script never allocated halts the
   script; the examples in FootprintProofs.v check that the operation
   programs below run to completion *)
Definition sc_next (st : sstate) : option req :=
  match sc_rest st with
  | [] => None
  | IRead a :: _ => option_map RRead (resolve st a)
  | IWrite a :: _ => option_map (fun l => RWrite l (sc_acc st)) (resolve st a)
  | IAlloc :: _ => Some RAlloc
  end.

Definition sc_resume (st : sstate) (a : ans) : sstate :=
  match sc_rest st with
  | [] => st
  | i :: rest =>
      match i, a with
      | IRead _, AVal v => {| sc_rest := rest; sc_acc := mix (sc_acc st) v; sc_mine := sc_mine st |}
      | IAlloc, ALoc l  => {| sc_rest := rest; sc_acc := sc_acc st; sc_mine := sc_mine st ++ [l] |}
      | _, _            => {| sc_rest := rest; sc_acc := sc_acc st; sc_mine := sc_mine st |}
      end
  end.

Definition script_thread (s : list instr) : thread sstate :=
  {| t_init := {| sc_rest := s; sc_acc := 0%N; sc_mine := [] |};
     t_next := sc_next;
     t_resume := sc_resume |}.

(* the static discipline for scripts: no store to a shared cell *)
Definition instr_ok (i : instr) : bool :=
  match i with IWrite (AShared _ _ _) => false | _ => true end.
Definition script_ok (s : list instr) : bool := forallb instr_ok s.

(* the result of a goroutine: finished? and the digest *)
Definition sc_done (st : sstate) : bool :=
  match sc_rest st with [] => true | _ => false end.
Definition sc_result (st : sstate) : val := sc_acc st.

(** ** Phases: the vocabulary in which the operations are written *)

(* a shared cell: region kind, object, index *)
Definition saddr := (nat * nat * nat)%type.
Definition sh (c : saddr) : addr := let '(r, o, i) := c in AShared r o i.

Inductive phase :=
| PRead (cells : list saddr)       (* read these shared cells *)
| PFresh (m : nat)                 (* make(..., m): allocate m cells, fill them with
                                      data derived from what was read, use them *)
| PWriteShared (cells : list saddr) (* store into these shared cells, then use them
                                      (pre-repair code only) *)
.

Definition fresh_instrs (base m : nat) : list instr :=
  flat_map (fun j => [IAlloc; IWrite (AOwn (base + j))]) (seq 0 m)
  ++ map (fun j => IRead (AOwn (base + j))) (seq 0 m).

(* [base] = number of cells this goroutine has allocated so far *)
Fixpoint compile (base : nat) (ps : list phase) : list instr :=
  match ps with
  | [] => []
  | PRead cells :: ps' => map (fun c => IRead (sh c)) cells ++ compile base ps'
  | PFresh m :: ps' => fresh_instrs base m ++ compile (base + m) ps'
  | PWriteShared cells :: ps' =>
      map (fun c => IWrite (sh c)) cells ++ map (fun c => IRead (sh c)) cells ++ compile base ps'
  end.

Definition phase_ok (p : phase) : bool :=
  match p with PWriteShared (_ :: _) => false | _ => true end.

(** ** The shared token *)

(* Region kinds of the shared token (first coordinate of [LShared]). *)
Definition R_BLOCK  := 0.  (* container.{Authority,Blocks[o-1]}.Block : []byte, incl. spare capacity *)
Definition R_SIG    := 1.  (* ....Signature : []byte (64) *)
Definition R_KEY    := 2.  (* ....NextKey.Key : []byte (32) *)
Definition R_PARSED := 3.  (* Biscuit.authority / Biscuit.blocks[o-1]: fact, rule, check arrays,
                              context, version (the parsed *Block) *)
Definition R_SYMS   := 4.  (* Biscuit.symbols : *datalog.SymbolTable backing array, incl. spare capacity *)
Definition R_PROOF  := 5.  (* container.Proof: next secret (32) or final signature (64) *)
Definition R_ENV    := 6.  (* container.RootKeyId, container.Blocks slice header and its
                              pointer cells (index 1+j = pointer to block j) *)

Definition alg_len := 4.   (* little-endian uint32 algorithm tag *)
Definition key_len := 32.
Definition sig_len := 64.

Record block_layout := {
  bl_len    : nat;   (* len(Block) *)
  bl_spare  : nat;   (* cap(Block) - len(Block): whatever proto.Unmarshal left *)
  bl_parsed : nat    (* number of cells of the parsed block *)
}.

Record token_layout := {
  tl_blocks     : list block_layout;  (* authority first *)
  tl_syms_len   : nat;                (* len of b.symbols *)
  tl_syms_spare : nat;                (* cap - len *)
  tl_proof_len  : nat                 (* 32 (next secret) or 64 (sealed) *)
}.

Definition cells (r o from n : nat) : list saddr :=
  map (fun i => (r, o, i)) (seq from n).

Definition block_bytes (o : nat) (b : block_layout) := cells R_BLOCK o 0 (bl_len b).
Definition block_sig (o : nat) := cells R_SIG o 0 sig_len.
Definition block_key (o : nat) := cells R_KEY o 0 key_len.
Definition block_parsed (o : nat) (b : block_layout) := cells R_PARSED o 0 (bl_parsed b).
Definition syms (L : token_layout) := cells R_SYMS 0 0 (tl_syms_len L).
Definition proof (L : token_layout) := cells R_PROOF 0 0 (tl_proof_len L).
Definition envelope (L : token_layout) := cells R_ENV 0 0 (1 + length (tl_blocks L)).

(* apply [f] to every block together with its index (authority = 0) *)
Fixpoint iblocks {A} (f : nat -> block_layout -> list A) (o : nat) (bs : list block_layout) : list A :=
  match bs with
  | [] => []
  | b :: bs' => f o b ++ iblocks f (S o) bs'
  end.

Definition last_block (L : token_layout) : nat * block_layout :=
  (pred (length (tl_blocks L)),
   last (tl_blocks L) {| bl_len := 0; bl_spare := 0; bl_parsed := 0 |}).

(** ** The listed operations *)

Inductive opkind :=
| OpVerify                   (* Biscuit.Authorizer / AuthorizerFor: signature chain check +
                                construction of the goroutine's own authorizer *)
| OpAuthorize                (* Authorizer.Authorize on the goroutine's own authorizer *)
| OpQuery                    (* Authorizer.Query on the goroutine's own authorizer *)
| OpPrint                    (* Biscuit.String / Code *)
| OpGetBlockID (nnew : nat)  (* Biscuit.GetBlockID; the probe fact has nnew strings not in the table *)
| OpCreateBlock (nnew : nat) (* Biscuit.CreateBlock, filling the builder, Build *)
| OpAppend (blen : nat)      (* Biscuit.Append of a built block that serialises to blen bytes *)
| OpSeal                     (* Biscuit.Seal *)
| OpSerialize                (* Biscuit.Serialize *)
| OpRevocationIds.           (* Biscuit.RevocationIds *)

(* payload "block ++ alg ++ nextkey" built in a FRESH buffer, then hashed/verified.
   /repo/biscuit.go authorizerFor (l.351-352, 370-371):
     toVerify := append(append([]byte{}, block.Block...), algorithm...)
     toVerify = append(toVerify, block.NextKey.Key[:]...)
     ed25519.Verify(key, toVerify, block.Signature) *)
Definition verify_block (o : nat) (b : block_layout) : list phase :=
  [ PRead (block_bytes o b); PRead (block_key o);
    PFresh (bl_len b + alg_len + key_len);
    PRead (block_sig o) ].

(* /repo/datalog/symbol.go Clone (post-repair): make + copy *)
Definition clone_syms (L : token_layout) (extra : nat) : list phase :=
  [ PRead (syms L); PFresh (tl_syms_len L + extra) ].

Definition read_parsed (L : token_layout) : list phase :=
  iblocks (fun o b => [PRead (block_parsed o b)]) 0 (tl_blocks L).

Definition whole_container (L : token_layout) : list phase :=
  PRead (envelope L) ::
  iblocks (fun o b => [PRead (block_bytes o b); PRead (block_key o); PRead (block_sig o)])
          0 (tl_blocks L)
  ++ [PRead (proof L)].

Definition container_size (L : token_layout) : nat :=
  fold_right (fun b n => bl_len b + key_len + sig_len + n) (tl_proof_len L) (tl_blocks L).

Definition op_phases (L : token_layout) (op : opkind) : list phase :=
  match op with
  | OpVerify =>
      (* /repo/biscuit.go authorizerFor: envelope (root key id, block list), every
         block's payload in a fresh buffer, final proof (l.400-420: next secret
         -> derived public key compared to last NextKey, or sealed signature over
         a fresh payload), then NewVerifier (/repo/authorizer.go l.59-77):
         b.symbols.Clone() and a fresh world *)
      PRead (envelope L) ::
      iblocks verify_block 0 (tl_blocks L)
      ++ [ PRead (proof L);
           PRead (block_bytes (fst (last_block L)) (snd (last_block L)));
           PRead (block_key (fst (last_block L))); PRead (block_sig (fst (last_block L)));
           PFresh (bl_len (snd (last_block L)) + alg_len + key_len + sig_len) ]
      ++ clone_syms L 0
  | OpAuthorize =>
      (* /repo/authorizer.go Authorize: reads the token's parsed facts/rules/checks
         of every block (token.authority, token.blocks) and the token's symbol
         table, writes only its own world, its own (cloned) symbol table and
         per-run clones *)
      read_parsed L ++ [PRead (syms L)] ++
      [PFresh (fold_right (fun b n => bl_parsed b + n) (tl_syms_len L) (tl_blocks L))]
  | OpQuery =>
      (* /repo/authorizer.go Query: own world + own symbols; result FactSet fresh *)
      [PFresh 1; PRead (syms L); PFresh 1]
  | OpPrint =>
      (* /repo/biscuit.go String / Code: block.String(b.symbols) for every block;
         all output in fresh strings *)
      [PRead (syms L)] ++ read_parsed L ++
      [PFresh (fold_right (fun b n => bl_parsed b + n) (tl_syms_len L) (tl_blocks L))]
  | OpGetBlockID nnew =>
      (* /repo/biscuit.go GetBlockID: symbols := b.symbols.Clone();
         fact.Predicate.convert(symbols) interns into the CLONE; then compares
         with every fact of every block *)
      clone_syms L nnew ++ read_parsed L
  | OpCreateBlock nnew =>
      (* /repo/biscuit.go CreateBlock: NewBlockBuilder(b.symbols.Clone()); AddFact/
         AddRule/AddCheck intern into the clone; Build splits the new symbols off *)
      clone_syms L nnew ++ [PFresh nnew]
  | OpAppend blen =>
      (* /repo/biscuit.go Append: reads Proof.NextSecret, b.symbols (overlap check +
         Clone), container.Blocks (append([]*pb.SignedBlock{}, b.container.Blocks...)),
         RootKeyId; marshals the new block into a fresh buffer and signs
         append(marshalledBlock[:], alg...) -- marshalledBlock is the goroutine's own;
         new container and new Biscuit are fresh *)
      [ PRead (proof L) ] ++ clone_syms L 0 ++
      [ PFresh (blen + alg_len + key_len);
        PRead (envelope L);
        PFresh (1 + length (tl_blocks L) + 1);
        PFresh (sig_len + key_len + key_len) ]
  | OpSeal =>
      (* /repo/biscuit.go Seal (l.275-277):
         toSign := append(append([]byte{}, lastBlock.Block...), alg...), NextKey, Signature;
         new container with fresh Blocks slice and fresh proof *)
      [ PRead (proof L);
        PRead (block_bytes (fst (last_block L)) (snd (last_block L)));
        PRead (block_key (fst (last_block L))); PRead (block_sig (fst (last_block L)));
        PFresh (bl_len (snd (last_block L)) + alg_len + key_len + sig_len);
        PRead (envelope L);
        PFresh (1 + length (tl_blocks L) + sig_len) ]
  | OpSerialize =>
      (* /repo/biscuit.go Serialize: proto.Marshal(b.container) into a fresh buffer *)
      whole_container L ++ [PFresh (container_size L)]
  | OpRevocationIds =>
      (* /repo/biscuit.go RevocationIds: make([][]byte, 0, n+1) + the Signature
         slice headers of every block *)
      PRead (envelope L) :: iblocks (fun o _ => [PRead (block_sig o)]) 0 (tl_blocks L)
      ++ [PFresh (length (tl_blocks L))]
  end.

(* a goroutine runs a list of operations one after the other *)
Definition goroutine_phases (L : token_layout) (ops : list opkind) : list phase :=
  flat_map (op_phases L) ops.

Definition op_program (L : token_layout) (op : opkind) : thread sstate :=
  script_thread (compile 0 (op_phases L op)).

Definition goroutine_program (L : token_layout) (ops : list opkind) : thread sstate :=
  script_thread (compile 0 (goroutine_phases L ops)).

(** ** The same operations before the repairs *)

(* Go's append(s, x1..xn): in place (cells len .. len+n-1 of the SAME backing
   array) when cap - len >= n, otherwise a fresh array of the whole content. *)

(* pre-repair payload (4046371^): toVerify := append(block.Block[:], alg...);
   toVerify = append(toVerify, key...) [; = append(toVerify, sig...)] *)
Definition old_payload (o : nat) (b : block_layout) (tail : nat) : list phase :=
  if alg_len <=? bl_spare b then
    PWriteShared (cells R_BLOCK o (bl_len b) alg_len) ::
    (if alg_len + tail <=? bl_spare b then
       [ PWriteShared (cells R_BLOCK o (bl_len b + alg_len) tail);
         PRead (block_bytes o b) ]
     else
       [ PRead (cells R_BLOCK o 0 (bl_len b + alg_len)); PFresh (bl_len b + alg_len + tail) ])
  else
    [ PRead (block_bytes o b); PFresh (bl_len b + alg_len + tail) ].

Definition verify_block_old (o : nat) (b : block_layout) : list phase :=
  PRead (block_key o) :: old_payload o b key_len ++ [ PRead (block_sig o) ].

(* pre-repair Clone (8abbbd4^): newTable := *t -- a copy of the slice HEADER.
   Insert on it is append( *t, s): the first [spare] new strings go to the
   shared backing array at index len, len+1, ...; once capacity is exhausted the
   whole table moves to a fresh array *)
Definition old_intern (L : token_layout) (nnew : nat) : list phase :=
  if nnew <=? tl_syms_spare L then
    [ PRead (syms L); PWriteShared (cells R_SYMS 0 (tl_syms_len L) nnew) ]
  else
    [ PWriteShared (cells R_SYMS 0 (tl_syms_len L) (tl_syms_spare L));
      PRead (cells R_SYMS 0 0 (tl_syms_len L + tl_syms_spare L));
      PFresh (tl_syms_len L + nnew) ].

Definition op_phases_old (L : token_layout) (op : opkind) : list phase :=
  match op with
  | OpVerify =>
      PRead (envelope L) ::
      iblocks verify_block_old 0 (tl_blocks L)
      ++ [ PRead (proof L); PRead (block_key (fst (last_block L))); PRead (block_sig (fst (last_block L))) ]
      ++ old_payload (fst (last_block L)) (snd (last_block L)) (key_len + sig_len)
      ++ [ PRead (syms L) ]
  | OpGetBlockID nnew => old_intern L nnew ++ read_parsed L
  | OpCreateBlock nnew => old_intern L nnew ++ [PFresh nnew]
  | OpSeal =>
      [ PRead (proof L); PRead (block_key (fst (last_block L))); PRead (block_sig (fst (last_block L))) ]
      ++ old_payload (fst (last_block L)) (snd (last_block L)) (key_len + sig_len)
      ++ [ PRead (envelope L); PFresh (1 + length (tl_blocks L) + sig_len) ]
  | _ => op_phases L op
  end.

Definition op_program_old (L : token_layout) (op : opkind) : thread sstate :=
  script_thread (compile 0 (op_phases_old L op)).

Definition goroutine_program_old (L : token_layout) (ops : list opkind) : thread sstate :=
  script_thread (compile 0 (flat_map (op_phases_old L) ops)).
