(* GoSem.v — prelude of the SHALLOW EMBEDDING produced by /verif/genfn.

   /verif/genfn translates the Go source text of selected functions of
   /repo/datalog to Gallina definitions (coq/GeneratedFn.v) over the names
   defined here.  This file fixes the meaning of the Go constructs of the
   documented subset (notes/GENFN.md):

   - fixed-width integers: signed kinds (int, int64, Integer) are Z, unsigned
     kinds (uint64, uint32, byte, String, Date, Variable, TermType) are N; every
     arithmetic operation and every conversion that can leave the range of its
     result type wraps explicitly ([wrap_i64], [wrap_u64], ...).  [int] is 64 bits
     wide (GOARCH=amd64/arm64, the platforms the harness runs on);
   - math/big values are Z with exact arithmetic;
   - strings and []byte are byte lists, slices are lists; an index or slice
     expression out of range, a failed single-value type assertion, an integer
     division by zero and panic(...) are explicit [Panic] outcomes;
   - a [for i, v := range l] loop is [range_from]: the body maps the index, the
     element and the loop-carried variables to [Continue], [Break] or [Done]
     (a return / panic inside the body);
   - regexp is the oracle [rx pattern subject] of Model/Expr.v.

   Nothing here refers to a particular translated function. *)
From BV Require Import Base Term Expr DTerm Symbols.

Open Scope Z_scope.

(* ---------- panic sites of the generated code ---------- *)
Definition site_index  : N := 101%N.   (* index out of range *)
Definition site_slice  : N := 102%N.   (* slice bounds out of range *)
Definition site_assert : N := 103%N.   (* failed v.(T) without comma-ok *)
Definition site_div    : N := 104%N.   (* integer divide by zero *)
Definition site_panic  : N := 105%N.   (* panic(...) in the source *)
Definition site_make   : N := 106%N.   (* make with a negative length *)
Definition site_nil    : N := 107%N.   (* method call on / use of a nil interface *)

(* ---------- fixed-width integers ---------- *)
Definition two63 : Z := 9223372036854775808.
Definition two64 : Z := 18446744073709551616.
Definition two32 : Z := 4294967296.

Definition wrap_i64 (z : Z) : Z := (z + two63) mod two64 - two63.
Definition wrap_int (z : Z) : Z := wrap_i64 z.             (* int is 64 bits wide *)
Definition wrap_i32 (z : Z) : Z := (z + 2147483648) mod two32 - 2147483648.
Definition wrap_u64 (z : Z) : N := Z.to_N (z mod two64).
Definition wrap_u32 (z : Z) : N := Z.to_N (z mod two32).
Definition wrap_u8  (z : Z) : N := Z.to_N (z mod 256).

(* ranges of the Go types *)
Definition in_i64 (z : Z) : Prop := - two63 <= z < two63.
Definition in_u64 (n : N) : Prop := (n < 18446744073709551616)%N.
Definition in_u32 (n : N) : Prop := (n < 4294967296)%N.
Definition in_u8  (n : N) : Prop := (n < 256)%N.

(* + - * on a signed kind (operands and result Z), on an unsigned kind (N) *)
Definition i64_add (a b : Z) : Z := wrap_i64 (a + b).
Definition i64_sub (a b : Z) : Z := wrap_i64 (a - b).
Definition i64_mul (a b : Z) : Z := wrap_i64 (a * b).
Definition i64_neg (a : Z) : Z := wrap_i64 (- a).
Definition u64_add (a b : N) : N := wrap_u64 (Z.of_N a + Z.of_N b).
Definition u64_sub (a b : N) : N := wrap_u64 (Z.of_N a - Z.of_N b).
Definition u64_mul (a b : N) : N := wrap_u64 (Z.of_N a * Z.of_N b).
Definition u32_add (a b : N) : N := wrap_u32 (Z.of_N a + Z.of_N b).
Definition u32_sub (a b : N) : N := wrap_u32 (Z.of_N a - Z.of_N b).
Definition u32_mul (a b : N) : N := wrap_u32 (Z.of_N a * Z.of_N b).
Definition u8_add (a b : N) : N := wrap_u8 (Z.of_N a + Z.of_N b).
Definition u8_sub (a b : N) : N := wrap_u8 (Z.of_N a - Z.of_N b).
Definition u8_mul (a b : N) : N := wrap_u8 (Z.of_N a * Z.of_N b).

(* x / y, x % y: truncated; None = run-time panic (division by zero).
   MinInt64 / -1 does not panic in Go: the quotient wraps. *)
Definition i64_quo (a b : Z) : option Z := if b =? 0 then None else Some (wrap_i64 (Z.quot a b)).
Definition i64_rem (a b : Z) : option Z := if b =? 0 then None else Some (wrap_i64 (Z.rem a b)).
Definition u64_quo (a b : N) : option N := if (b =? 0)%N then None else Some (a / b)%N.
Definition u64_rem (a b : N) : option N := if (b =? 0)%N then None else Some (a mod b)%N.

(* shifts by a constant count (the only form in the subset) *)
Definition i64_shl (a : Z) (k : Z) : Z := wrap_i64 (a * 2 ^ k).
Definition u64_shl (a : N) (k : Z) : N := wrap_u64 (Z.of_N a * 2 ^ k).

(* ---------- slices / strings ---------- *)
Definition len_int {A} (l : list A) : Z := Z.of_N (lenN l).

Fixpoint idx_from {A} (l : list A) (i : Z) : option A :=
  match l with
  | [] => None
  | x :: l' => if i =? 0 then Some x else idx_from l' (i - 1)
  end.
(* l[i]; None = index out of range *)
Definition idx {A} (l : list A) (i : Z) : option A := if i <? 0 then None else idx_from l i.

(* l[lo:hi]; None = slice bounds out of range (the capacity beyond len is not modelled) *)
Definition slice {A} (l : list A) (lo hi : Z) : option (list A) :=
  if (0 <=? lo) && (lo <=? hi) && (hi <=? len_int l)
  then Some (firstn (Z.to_nat (hi - lo)) (skipn (Z.to_nat lo) l)) else None.

(* make([]T, n): n zero values; None = negative length *)
Definition make_list {A} (zero : A) (n : Z) : option (list A) :=
  if n <? 0 then None else Some (repeat zero (Z.to_nat n)).

(* copy(dst, src): the new contents of dst *)
Definition copy_list {A} (dst src : list A) : list A :=
  let n := Nat.min (length dst) (length src) in firstn n src ++ skipn n dst.

(* ---------- fmt: %d ---------- *)
Definition fmt_d_N (n : N) : bytes := decimal n.
Definition fmt_d_Z (z : Z) : bytes :=
  if z <? 0 then 45%N :: decimal (Z.to_N (- z)) else decimal (Z.to_N z).

(* ---------- errors ---------- *)
(* fmt.Errorf("... %w ...", e): the class of the wrapped error; wrapping nil makes a new error *)
Definition wrap_err (o : option err) : err := match o with Some e => e | None => EIllTyped end.
Definition is_some {A} (o : option A) : bool := match o with Some _ => true | None => false end.

(* ---------- regexp through the oracle of Model/Expr.v ---------- *)
(* regexp.Compile(p): the compiled expression is represented by its pattern *)
Definition rx_compile_err (rx : bytes -> bytes -> option bool) (p : bytes) : option err :=
  match rx p [] with Some _ => None | None => Some ERegex end.
(* re.Match / re.MatchString *)
Definition rx_match (rx : bytes -> bytes -> option bool) (p s : bytes) : bool :=
  match rx p s with Some b => b | None => false end.

(* ---------- loops ---------- *)
(* outcome of one iteration: go on with the loop-carried variables [s], leave the
   loop (break), or leave the function with result [r] (return, panic) *)
Inductive step (S R : Type) :=
| Continue (s : S)
| Break (s : S)
| Done (r : R).
Arguments Continue {S R} s.
Arguments Break {S R} s.
Arguments Done {S R} r.

(* for i, v := range l { body }, started at index i *)
Fixpoint range_from {A S R} (body : Z -> A -> S -> step S R) (i : Z) (l : list A) (s : S) : step S R :=
  match l with
  | [] => Continue s
  | x :: l' =>
      match body i x s with
      | Continue s' => range_from body (i + 1) l' s'
      | Break s' => Break s'
      | Done r => Done r
      end
  end.
Definition range_loop {A S R} (body : Z -> A -> S -> step S R) (l : list A) (s : S) : step S R :=
  range_from body 0 l s.

(* ---------- datalog.Term as dterm ---------- *)
(* an element of a Set put back into a Set: the model's sets hold atoms *)
Definition box_atom (a : datom) : dterm := DA a.

(* ---------- stage E: element assignment, descending three-clause loop ---------- *)
(* l[i] = v: the new contents of l; None = index out of range *)
Fixpoint set_idx_from {A} (l : list A) (i : Z) (v : A) : option (list A) :=
  match l with
  | [] => None
  | x :: l' =>
      if i =? 0 then Some (v :: l')
      else match set_idx_from l' (i - 1) v with Some r => Some (x :: r) | None => None end
  end.
Definition set_idx {A} (l : list A) (i : Z) (v : A) : option (list A) :=
  if i <? 0 then None else set_idx_from l i v.

(* for i := start; i >= 0; i-- { body } where the body does not assign i: the body runs
   for i = start, start-1, ..., 0 (start+1 times; not at all when start < 0).  i-- never
   wraps (i >= 0 before it).  [continue] = Continue (the post statement runs), [break] =
   Break, return / panic = Done. *)
Fixpoint down_from {S R} (body : Z -> S -> step S R) (n : nat) (i : Z) (s : S) : step S R :=
  match n with
  | O => Continue s
  | Datatypes.S n' =>
      match body i s with
      | Continue s' => down_from body n' (i - 1) s'
      | Break s' => Break s'
      | Done r => Done r
      end
  end.
Definition down_loop {S R} (body : Z -> S -> step S R) (start : Z) (s : S) : step S R :=
  down_from body (Z.to_nat (start + 1)) start s.
