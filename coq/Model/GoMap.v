(* GoMap.v — prelude for the Go maps WRITTEN by translated functions (genfn stage G).
   Hand-written, generic; imported by GeneratedFn.v only when such a map is translated.

   map[string]struct{} (a set of strings; only as a local made by make): list bytes.
     make(map[string]struct{}[, n])  = strset_empty
     m[s] = struct{}{}               = strset_add m s      (a duplicate is kept: harmless for membership)
     _, ok := m[k]                   = strset_mem m k
   map[Variable]*Term (Model/DEval.v dbindings = list (N * dterm), read with dlookup):
     m[k] = &v                       = map_set m k v       (replace where k stands, else append)
   Representation assumption for map[Variable]*Term: the association list holds exactly the
   keys whose value is a non-nil pointer; a key present with a nil value and an absent key are
   not distinguished (Go's m[k] returns nil for both). *)
From Coq Require Import List NArith Bool.
From BV Require Import Base.
Import ListNotations.

Definition strset_empty : list bytes := [].
Definition strset_add (m : list bytes) (s : bytes) : list bytes := s :: m.
Definition strset_mem (m : list bytes) (k : bytes) : bool := existsb (bytes_eqb k) m.

Fixpoint map_set {V : Type} (m : list (N * V)) (k : N) (v : V) : list (N * V) :=
  match m with
  | [] => [(k, v)]
  | (k', v') :: r => if N.eqb k' k then (k, v) :: r else (k', v') :: map_set r k v
  end.
