(* Symbols.v — datalog.SymbolTable (datalog/symbol.go) as a pure list, after the
   repair that makes Clone copy (8abbbd4): Insert, Str, Var, SplitOff, Extend,
   IsDisjoint; resolution of D-level content to S-level (the fromDatalogX functions) and
   interning of S-level content into a table (convert). *)
From BV Require Import Base Term DTerm.
From BV Require Generated.

Definition table := list bytes.      (* symbols beyond the default ones *)
Definition offset : N := Generated.sym_offset.
Definition defaults : list bytes := Generated.default_symbols.

(* decimal rendering of an index, for "<invalid symbol n>" *)
Fixpoint dec_digits (fuel : nat) (n : N) (acc : bytes) : bytes :=
  match fuel with
  | O => acc
  | S f => let d := (48 + n mod 10)%N in
           if (n <? 10)%N then d :: acc else dec_digits f (n / 10) (d :: acc)
  end.
Definition decimal (n : N) : bytes := dec_digits 25 n [].

Definition str_lit (l : list N) : bytes := l.
(* "<invalid symbol " / "<invalid variable " / ">" *)
Definition invalid_symbol (n : N) : bytes :=
  [60;105;110;118;97;108;105;100;32;115;121;109;98;111;108;32] ++ decimal n ++ [62].
Definition invalid_variable (n : N) : bytes :=
  [60;105;110;118;97;108;105;100;32;118;97;114;105;97;98;108;101;32] ++ decimal n ++ [62].

(* SymbolTable.Insert: default symbols first, then the table, else append *)
Definition sym_find (t : table) (s : bytes) : option N :=
  match index_of bytes_eqb s defaults 0 with
  | Some i => Some i
  | None => match index_of bytes_eqb s t 0 with
            | Some i => Some (offset + i)
            | None => None
            end
  end.
Definition sym_insert (t : table) (s : bytes) : table * N :=
  match sym_find t s with
  | Some i => (t, i)
  | None => (t ++ [s], offset + lenN t)
  end.

(* SymbolTable.Str / Var (unsigned comparisons, fix 9574895) *)
Definition sym_str (t : table) (i : N) : bytes :=
  if i <? offset then
    match nthN defaults i with Some s => s | None => invalid_symbol i end
  else
    match nthN t (i - offset) with Some s => s | None => invalid_symbol i end.
Definition sym_var (t : table) (i : N) : bytes :=
  if i <? offset then
    match nthN defaults i with Some s => s | None => invalid_variable i end
  else
    match nthN t (i - offset) with Some s => s | None => invalid_variable i end.

Definition sym_extend (t other : table) : table := fold_left (fun t s => fst (sym_insert t s)) other t.
Definition sym_disjoint (t other : table) : bool :=
  forallb (fun s => negb (existsb (bytes_eqb s) t)) other.
Definition sym_split_off (t : table) (at_ : nat) : res (table * table) :=
  if (length t <? at_)%nat then Panic 2 else Ok (firstn at_ t, skipn at_ t).

(* ---------- resolution D -> S (types.go fromDatalogX) ----------
   note: fromDatalogID resolves a *variable* with Str, not Var *)
Definition resolve_atom (t : table) (a : datom) : atom :=
  match a with
  | DVar v => AVar (sym_str t v)
  | DInt z => AInt z
  | DStr s => AStr (sym_str t s)
  | DDate d => ADate d
  | DBytes b => ABytes b
  | DBool b => ABool b
  end.
Definition resolve_term (t : table) (x : dterm) : term :=
  match x with DA a => TA (resolve_atom t a) | DSet l => TSet (map (resolve_atom t) l) end.
Definition resolve_pred (t : table) (p : dpred) : pred :=
  {| p_name := sym_str t (dp_name p); p_terms := map (resolve_term t) (dp_terms p) |}.
Definition resolve_op (t : table) (o : dop) : op :=
  match o with DOVal x => OVal (resolve_term t x) | DOUn u => OUn u | DOBin b => OBin b end.
Definition resolve_rule (t : table) (r : drule) : rule :=
  {| r_head := resolve_pred t (dr_head r); r_body := map (resolve_pred t) (dr_body r);
     r_exprs := map (map (resolve_op t)) (dr_exprs r) |}.
Definition resolve_check (t : table) (c : dcheck) : check := map (resolve_rule t) c.
Definition resolve_block (t : table) (b : dblock) : block :=
  {| b_facts := map (resolve_pred t) (db_facts b); b_rules := map (resolve_rule t) (db_rules b);
     b_checks := map (resolve_check t) (db_checks b) |}.

(* ---------- interning S -> D (types.go convert): the table is threaded
   in the order the Go code inserts: terms left to right, then the name ---------- *)
Definition intern_atom (t : table) (a : atom) : table * datom :=
  match a with
  | AVar v => let '(t', i) := sym_insert t v in (t', DVar (i mod 4294967296))
  | AInt z => (t, DInt z)
  | AStr s => let '(t', i) := sym_insert t s in (t', DStr i)
  | ADate d => (t, DDate d)
  | ABytes b => (t, DBytes b)
  | ABool b => (t, DBool b)
  end.
Fixpoint intern_atoms (t : table) (l : list atom) : table * list datom :=
  match l with
  | [] => (t, [])
  | a :: l' => let '(t1, d) := intern_atom t a in
               let '(t2, ds) := intern_atoms t1 l' in (t2, d :: ds)
  end.
Definition intern_term (t : table) (x : term) : table * dterm :=
  match x with
  | TA a => let '(t', d) := intern_atom t a in (t', DA d)
  | TSet l => let '(t', ds) := intern_atoms t l in (t', DSet ds)
  end.
Fixpoint intern_terms (t : table) (l : list term) : table * list dterm :=
  match l with
  | [] => (t, [])
  | x :: l' => let '(t1, d) := intern_term t x in
               let '(t2, ds) := intern_terms t1 l' in (t2, d :: ds)
  end.
(* Predicate.convert: terms first, then the name *)
Definition intern_pred (t : table) (p : pred) : table * dpred :=
  let '(t1, ts) := intern_terms t (p_terms p) in
  let '(t2, n) := sym_insert t1 (p_name p) in
  (t2, {| dp_name := n; dp_terms := ts |}).
Fixpoint intern_preds (t : table) (l : list pred) : table * list dpred :=
  match l with
  | [] => (t, [])
  | p :: l' => let '(t1, d) := intern_pred t p in
               let '(t2, ds) := intern_preds t1 l' in (t2, d :: ds)
  end.
Definition intern_op (t : table) (o : op) : table * dop :=
  match o with
  | OVal x => let '(t', d) := intern_term t x in (t', DOVal d)
  | OUn u => (t, DOUn u)
  | OBin b => (t, DOBin b)
  end.
Fixpoint intern_expr (t : table) (e : expr) : table * dexpr :=
  match e with
  | [] => (t, [])
  | o :: e' => let '(t1, d) := intern_op t o in
               let '(t2, ds) := intern_expr t1 e' in (t2, d :: ds)
  end.
Fixpoint intern_exprs (t : table) (l : list expr) : table * list dexpr :=
  match l with
  | [] => (t, [])
  | e :: l' => let '(t1, d) := intern_expr t e in
               let '(t2, ds) := intern_exprs t1 l' in (t2, d :: ds)
  end.
(* Rule.convert: body, then expressions, then head *)
Definition intern_rule (t : table) (r : rule) : table * drule :=
  let '(t1, body) := intern_preds t (r_body r) in
  let '(t2, es) := intern_exprs t1 (r_exprs r) in
  let '(t3, h) := intern_pred t2 (r_head r) in
  (t3, {| dr_head := h; dr_body := body; dr_exprs := es |}).
Fixpoint intern_rules (t : table) (l : list rule) : table * list drule :=
  match l with
  | [] => (t, [])
  | r :: l' => let '(t1, d) := intern_rule t r in
               let '(t2, ds) := intern_rules t1 l' in (t2, d :: ds)
  end.
Definition intern_check (t : table) (c : check) : table * dcheck := intern_rules t c.
