(* Authz.v — the authorizer of authorizer.go over S-level content.

   A token is the list of its blocks' Datalog content, authority first.  The
   authorizer state mirrors the struct: the world (ordered facts, rules), the
   checks and policies kept at builder level, the dirty flag, the limits.  With
   the base world never overwritten (fix 829f55f) Reset goes back to an empty
   world carrying the configured limits. *)
From BV Require Import Base Term Expr Datalog.

Inductive origin := FromAuthorizer | FromBlock (i : N).
Definition origin_eqb (a b : origin) : bool :=
  match a, b with
  | FromAuthorizer, FromAuthorizer => true
  | FromBlock i, FromBlock j => N.eqb i j
  | _, _ => false
  end.

Inductive verdict :=
| VSuccess
| VPolicyDenied
| VNoMatchingPolicy
| VChecksFailed (l : list (origin * N))   (* which checks failed, in report order *)
| VRunError (e : err).

Definition failed_eqb (a b : origin * N) : bool := origin_eqb (fst a) (fst b) && N.eqb (snd a) (snd b).
Definition verdict_eqb (a b : verdict) : bool :=
  match a, b with
  | VSuccess, VSuccess | VPolicyDenied, VPolicyDenied | VNoMatchingPolicy, VNoMatchingPolicy => true
  | VChecksFailed x, VChecksFailed y => list_eqb failed_eqb x y
  | VRunError e, VRunError f => err_eqb e f
  | _, _ => false
  end.

Record astate := {
  a_facts : list pred;        (* world.facts, in insertion order *)
  a_rules : list rule;        (* world.rules *)
  a_checks : list check;
  a_policies : list policy;
  a_dirty : bool;
  a_limits : limits }.

Definition fresh (lim : limits) : astate :=
  {| a_facts := []; a_rules := []; a_checks := []; a_policies := []; a_dirty := false; a_limits := lim |}.

Definition add_fact (a : astate) (f : pred) : astate :=
  {| a_facts := insert_fact (a_facts a) f; a_rules := a_rules a; a_checks := a_checks a;
     a_policies := a_policies a; a_dirty := a_dirty a; a_limits := a_limits a |}.
Definition add_rule (a : astate) (r : rule) : astate :=
  {| a_facts := a_facts a; a_rules := a_rules a ++ [r]; a_checks := a_checks a;
     a_policies := a_policies a; a_dirty := a_dirty a; a_limits := a_limits a |}.
Definition add_check (a : astate) (c : check) : astate :=
  {| a_facts := a_facts a; a_rules := a_rules a; a_checks := a_checks a ++ [c];
     a_policies := a_policies a; a_dirty := a_dirty a; a_limits := a_limits a |}.
Definition add_policy (a : astate) (p : policy) : astate :=
  {| a_facts := a_facts a; a_rules := a_rules a; a_checks := a_checks a;
     a_policies := a_policies a ++ [p]; a_dirty := a_dirty a; a_limits := a_limits a |}.
Definition reset (a : astate) : astate := fresh (a_limits a).

Section Authz.
  Variable rx : bytes -> bytes -> option bool.

  (* a check holds when one of its queries has a non-empty result *)
  Definition check_holds (facts : list pred) (c : check) : bool :=
    existsb (fun q => negb (Nat.eqb (length (query_rule rx q facts)) 0)) c.

  Fixpoint failed_checks (o : origin) (facts : list pred) (cs : list check) (i : N) : list (origin * N) :=
    match cs with
    | [] => []
    | c :: cs' => (if check_holds facts c then [] else [(o, i)]) ++ failed_checks o facts cs' (i + 1)
    end.

  (* first policy (in order) with a satisfied query decides *)
  Fixpoint policy_result (facts : list pred) (ps : list policy) : option pkind :=
    match ps with
    | [] => None
    | p :: ps' => if check_holds facts (pol_queries p) then Some (pol_kind p) else policy_result facts ps'
    end.

  (* the per-block phase: clone the authority-level world, add the block's facts
     and rules, run, evaluate the block's checks.  A run error returns at once. *)
  Fixpoint blocks_phase (lim : limits) (wfacts : list pred) (bs : list block) (i : N)
    : res (list (origin * N)) :=
    match bs with
    | [] => Ok []
    | b :: bs' =>
        let bf := fold_left insert_fact (b_facts b) wfacts in
        match run rx lim (b_rules b) bf with
        | (_, Some e) => Err e
        | (bf', None) =>
            do rest <- blocks_phase lim wfacts bs' (i + 1);
            Ok (failed_checks (FromBlock i) bf' (b_checks b) 0 ++ rest)
        end
    end.

  (* Authorize.  Returns the new state and the verdict. *)
  Definition authorize (tok : list block) (a : astate) : astate * verdict :=
    let auth := hd {| b_facts := []; b_rules := []; b_checks := [] |} tok in
    let facts0 := fold_left insert_fact (b_facts auth) (a_facts a) in
    let rules0 := a_rules a ++ b_rules auth in
    let mk fs rs := {| a_facts := fs; a_rules := rs; a_checks := a_checks a;
                       a_policies := a_policies a; a_dirty := true; a_limits := a_limits a |} in
    match run rx (a_limits a) rules0 facts0 with
    | (fs, Some e) => (mk fs rules0, VRunError e)
    | (fs, None) =>
        let errs1 := failed_checks FromAuthorizer fs (a_checks a) 0 in
        let errs2 := failed_checks (FromBlock 0) fs (b_checks auth) 0 in
        let pol := policy_result fs (a_policies a) in
        match blocks_phase (a_limits a) fs (tl tok) 1 with
        | Err e => (mk fs [], VRunError e)
        | Panic _ => (mk fs [], VRunError EOther)
        | Ok errs3 =>
            let errs := errs1 ++ errs2 ++ errs3 in
            (mk fs [],
             match errs with
             | _ :: _ => VChecksFailed errs
             | [] => match pol with
                     | Some Allow => VSuccess
                     | Some Deny => VPolicyDenied
                     | None => VNoMatchingPolicy
                     end
             end)
        end
    end.

  (* Query: runs the world as it is (token content is only loaded by Authorize) *)
  Definition query (a : astate) (q : rule) : astate * res (list pred) :=
    match run rx (a_limits a) (a_rules a) (a_facts a) with
    | (fs, Some e) =>
        ({| a_facts := fs; a_rules := a_rules a; a_checks := a_checks a; a_policies := a_policies a;
            a_dirty := a_dirty a; a_limits := a_limits a |}, Err e)
    | (fs, None) =>
        ({| a_facts := fs; a_rules := a_rules a; a_checks := a_checks a; a_policies := a_policies a;
            a_dirty := true; a_limits := a_limits a |}, Ok (query_rule rx q fs))
    end.

  (* ---------- histories of operations on one authorizer (C13, C12, C18) ---------- *)
  Inductive aop :=
  | OAddFact (f : pred) | OAddRule (r : rule) | OAddCheck (c : check) | OAddPolicy (p : policy)
  | OAuthorize | OQuery (q : rule) | OReset.

  Definition astep (tok : list block) (a : astate) (o : aop) : astate :=
    match o with
    | OAddFact f => add_fact a f
    | OAddRule r => add_rule a r
    | OAddCheck c => add_check a c
    | OAddPolicy p => add_policy a p
    | OAuthorize => fst (authorize tok a)
    | OQuery q => fst (query a q)
    | OReset => reset a
    end.

  (* what an operation lets the caller observe *)
  Inductive aoutput :=
  | OutNone | OutVerdict (v : verdict) | OutResult (r : res (list pred)).

  Definition aobserve (tok : list block) (a : astate) (o : aop) : aoutput :=
    match o with
    | OAuthorize => OutVerdict (snd (authorize tok a))
    | OQuery q => OutResult (snd (query a q))
    | _ => OutNone
    end.

  Fixpoint atrace (tok : list block) (ops : list aop) (a : astate) : list aoutput :=
    match ops with
    | [] => []
    | o :: ops' => aobserve tok a o :: atrace tok ops' (astep tok a o)
    end.
End Authz.
