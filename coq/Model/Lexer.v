(* Lexer.v — the participle "simple" lexer configured in parser/parser.go:
   the rules of BiscuitLexerRules are tried in list order at the current
   position and the FIRST rule whose pattern matches wins (not the longest
   match: lexer/stateful.go Next()); within a rule Go's leftmost-first regexp
   semantics, which for these 19 patterns is one greedy recogniser each.
   Whitespace and EOL tokens are elided, String tokens are unquoted.

   Input domain of the model: printable ASCII plus \t \n \r, and no backslash
   inside a string literal.  Anything else is [Err EOther] ("unmodelled").
   A text that participle's lexer rejects is [Err EParse].

   [lexer_rules_pin] is the exact table the recognisers below implement;
   Proofs pin it against [Generated.lexer_rules]. *)
From BV Require Import Base.
From Coq Require Import String Ascii.

Inductive kind :=
| KKeyword | KFunction | KHex | KDot | KArrow | KOr | KAnd | KOperator | KComment
| KString | KVariable | KParameter | KDateTime | KInt | KBool | KIdent
| KWhitespace | KEOL | KPunct.

Definition kind_code (k : kind) : N :=
  match k with
  | KKeyword => 0 | KFunction => 1 | KHex => 2 | KDot => 3 | KArrow => 4 | KOr => 5
  | KAnd => 6 | KOperator => 7 | KComment => 8 | KString => 9 | KVariable => 10
  | KParameter => 11 | KDateTime => 12 | KInt => 13 | KBool => 14 | KIdent => 15
  | KWhitespace => 16 | KEOL => 17 | KPunct => 18
  end.
Definition kind_eqb (a b : kind) : bool := N.eqb (kind_code a) (kind_code b).

(* a token: rule name and text (String tokens: the unquoted content) *)
Record token := Tok { tk : kind; tx : bytes }.

Definition token_eqb (a b : token) : bool := kind_eqb (tk a) (tk b) && bytes_eqb (tx a) (tx b).

(* Coq string literal -> bytes *)
Definition bs (s : string) : bytes := List.map N_of_ascii (list_ascii_of_string s).

Definition lexer_rules_pin : list (string * string) :=
  [("Keyword", "check if|allow if|deny if");
   ("Function", "prefix|suffix|matches|length|contains");
   ("Hex", "hex:([0-9a-fA-F]{2})*");
   ("Dot", "\.");
   ("Arrow", "<-");
   ("Or", "\|\|");
   ("And", "&&");
   ("Operator", "==|>=|<=|>|<|\+|-|\*");
   ("Comment", "//[^\n]*");
   ("String", "\""[^\""]*\""");
   ("Variable", "\$[a-zA-Z0-9_:]+");
   ("Parameter", "\{[a-zA-Z0-9_:]+\}");
   ("DateTime", "\d\d\d\d-\d\d-\d\dT\d\d:\d\d:\d\d(\.\d+)?(Z|([-+]\d\d:\d\d))?");
   ("Int", "[0-9]+");
   ("Bool", "true|false");
   ("Ident", "[a-z][a-zA-Z0-9_:]*");
   ("Whitespace", "[ \t]+");
   ("EOL", "[\n\r]+");
   ("Punct", "[-[!@%^&#$*()+_={}\|:;""'<,>.?/]|]")]%string.

Definition lexer_elide_pin : list string := ["Whitespace"; "EOL"]%string.
Definition lexer_unquote_pin : list string := ["String"]%string.

(* ---------- byte classes ---------- *)
Definition is_digit (c : N) : bool := (48 <=? c) && (c <=? 57).
Definition is_lower (c : N) : bool := (97 <=? c) && (c <=? 122).
Definition is_upper (c : N) : bool := (65 <=? c) && (c <=? 90).
(* [a-zA-Z0-9_:] *)
Definition is_word (c : N) : bool :=
  is_lower c || is_upper c || is_digit c || (c =? 95) || (c =? 58).
Definition is_hexdigit (c : N) : bool :=
  is_digit c || ((97 <=? c) && (c <=? 102)) || ((65 <=? c) && (c <=? 70)).
Definition is_blank (c : N) : bool := (c =? 32) || (c =? 9).
Definition is_eol (c : N) : bool := (c =? 10) || (c =? 13).
(* the Punct class: every ASCII punctuation byte except backquote, tilde and backslash *)
Definition is_punct (c : N) : bool :=
  (c =? 45) || (c =? 91) || (c =? 33) || (c =? 64) || (c =? 37) || (c =? 94) || (c =? 38)
  || (c =? 35) || (c =? 36) || (c =? 42) || (c =? 40) || (c =? 41) || (c =? 43) || (c =? 95)
  || (c =? 61) || (c =? 123) || (c =? 125) || (c =? 124) || (c =? 58) || (c =? 59) || (c =? 34)
  || (c =? 39) || (c =? 60) || (c =? 44) || (c =? 62) || (c =? 46) || (c =? 63) || (c =? 47)
  || (c =? 93).
Definition in_domain (c : N) : bool :=
  ((32 <=? c) && (c <=? 126)) || (c =? 9) || (c =? 10) || (c =? 13).

(* ---------- generic pieces ---------- *)
(* longest prefix of [s] whose bytes satisfy [p], and the rest *)
Fixpoint span (p : N -> bool) (s : bytes) : bytes * bytes :=
  match s with
  | [] => ([], [])
  | c :: s' => if p c then let '(a, r) := span p s' in (c :: a, r) else ([], s)
  end.

(* [strip lit s] = Some rest when [s = lit ++ rest] *)
Fixpoint strip (lit s : bytes) : option bytes :=
  match lit with
  | [] => Some s
  | x :: lit' =>
      match s with
      | y :: s' => if N.eqb x y then strip lit' s' else None
      | [] => None
      end
  end.

(* ordered alternation of literals *)
Fixpoint first_lit (lits : list bytes) (s : bytes) : option (bytes * bytes) :=
  match lits with
  | [] => None
  | l :: lits' =>
      match strip l s with
      | Some r => Some (l, r)
      | None => first_lit lits' s
      end
  end.

(* p+ *)
Definition span1 (p : N -> bool) (s : bytes) : option (bytes * bytes) :=
  match span p s with
  | ([], _) => None
  | (a, r) => Some (a, r)
  end.

(* ---------- one recogniser per rule: Some (matched text, rest) ---------- *)
Definition lits_keyword : list bytes :=
  Eval compute in [bs "check if"; bs "allow if"; bs "deny if"].
Definition lits_function : list bytes :=
  Eval compute in [bs "prefix"; bs "suffix"; bs "matches"; bs "length"; bs "contains"].
Definition lits_operator : list bytes :=
  Eval compute in [bs "=="; bs ">="; bs "<="; bs ">"; bs "<"; bs "+"; bs "-"; bs "*"].
Definition lits_bool : list bytes := Eval compute in [bs "true"; bs "false"].
Definition lit_hex : bytes := Eval compute in bs "hex:".

Definition rec_keyword (s : bytes) := first_lit lits_keyword s.
Definition rec_function (s : bytes) := first_lit lits_function s.

(* ([0-9a-fA-F]{2})* *)
Fixpoint hex_pairs (s : bytes) : bytes * bytes :=
  match s with
  | a :: ((b :: r) as s1) =>
      if is_hexdigit a && is_hexdigit b
      then let '(m, r') := hex_pairs r in (a :: b :: m, r')
      else ([], s)
  | _ => ([], s)
  end.
Definition rec_hex (s : bytes) : option (bytes * bytes) :=
  match strip lit_hex s with
  | Some r => let '(m, r') := hex_pairs r in Some (lit_hex ++ m, r')
  | None => None
  end.
Definition rec_dot (s : bytes) := first_lit [[46]] s.
Definition rec_arrow (s : bytes) := first_lit [[60; 45]] s.
Definition rec_or (s : bytes) := first_lit [[124; 124]] s.
Definition rec_and (s : bytes) := first_lit [[38; 38]] s.
Definition rec_operator (s : bytes) := first_lit lits_operator s.
(* //[^\n]* *)
Definition rec_comment (s : bytes) : option (bytes * bytes) :=
  match s with
  | a :: s1 =>
      if a =? 47 then
        match s1 with
        | b :: r =>
            if b =? 47
            then let '(m, r') := span (fun c => negb (c =? 10)) r in Some (a :: b :: m, r')
            else None
        | [] => None
        end
      else None
  | [] => None
  end.
(* String rule: quote, non-quotes, quote.  Returns Some (content, rest): the token
   text is the content between the quotes (participle.Unquote) *)
Definition rec_string (s : bytes) : option (bytes * bytes) :=
  match s with
  | q :: r =>
      if q =? 34 then
        let '(m, r') := span (fun c => negb (c =? 34)) r in
        match r' with
        | _ :: r'' => Some (m, r'')      (* the byte [span] stopped at: the closing quote *)
        | [] => None
        end
      else None
  | [] => None
  end.
(* \$[a-zA-Z0-9_:]+ *)
Definition rec_variable (s : bytes) : option (bytes * bytes) :=
  match s with
  | c :: r =>
      if c =? 36 then
        match span1 is_word r with Some (m, r') => Some (c :: m, r') | None => None end
      else None
  | [] => None
  end.
(* \{[a-zA-Z0-9_:]+\} *)
Definition rec_parameter (s : bytes) : option (bytes * bytes) :=
  match s with
  | c :: r =>
      if c =? 123 then
        match span1 is_word r with
        | Some (m, e :: r') => if e =? 125 then Some (c :: m ++ [e], r') else None
        | _ => None
        end
      else None
  | [] => None
  end.
(* \d\d\d\d-\d\d-\d\dT\d\d:\d\d:\d\d(\.\d+)?(Z|([-+]\d\d:\d\d))? *)
Definition dt_frac (r : bytes) : bytes * bytes :=
  match r with
  | p :: r0 =>
      if p =? 46 then
        match span1 is_digit r0 with
        | Some (m, r') => (p :: m, r')
        | None => ([], r)
        end
      else ([], r)
  | [] => ([], r)
  end.
Definition dt_zone (r1 : bytes) : bytes * bytes :=
  match r1 with
  | z :: r' =>
      if z =? 90 then ([z], r')
      else
        match r' with
        | a :: b :: cl :: c :: d :: r'' =>
            if ((z =? 45) || (z =? 43)) && is_digit a && is_digit b && (cl =? 58) && is_digit c && is_digit d
            then ([z; a; b; cl; c; d], r'') else ([], r1)
        | _ => ([], r1)
        end
  | [] => ([], r1)
  end.
Definition obind {A B} (o : option A) (k : A -> option B) : option B :=
  match o with Some a => k a | None => None end.
(* one digit / one given byte *)
Definition take_digit (s : bytes) : option (N * bytes) :=
  match s with c :: r => if is_digit c then Some (c, r) else None | [] => None end.
Definition take_byte (k : N) (s : bytes) : option (N * bytes) :=
  match s with c :: r => if c =? k then Some (c, r) else None | [] => None end.
Definition rec_datetime (s : bytes) : option (bytes * bytes) :=
  obind (take_digit s) (fun '(y1, s) =>
  obind (take_digit s) (fun '(y2, s) =>
  obind (take_digit s) (fun '(y3, s) =>
  obind (take_digit s) (fun '(y4, s) =>
  obind (take_byte 45 s) (fun '(a1, s) =>
  obind (take_digit s) (fun '(m1, s) =>
  obind (take_digit s) (fun '(m2, s) =>
  obind (take_byte 45 s) (fun '(a2, s) =>
  obind (take_digit s) (fun '(d1, s) =>
  obind (take_digit s) (fun '(d2, s) =>
  obind (take_byte 84 s) (fun '(tc, s) =>
  obind (take_digit s) (fun '(h1, s) =>
  obind (take_digit s) (fun '(h2, s) =>
  obind (take_byte 58 s) (fun '(b1, s) =>
  obind (take_digit s) (fun '(i1, s) =>
  obind (take_digit s) (fun '(i2, s) =>
  obind (take_byte 58 s) (fun '(b2, s) =>
  obind (take_digit s) (fun '(s1, s) =>
  obind (take_digit s) (fun '(s2, r) =>
    let base := [y1; y2; y3; y4; a1; m1; m2; a2; d1; d2; tc; h1; h2; b1; i1; i2; b2; s1; s2] in
    let '(frac, r1) := dt_frac r in
    let '(zone, r2) := dt_zone r1 in
    Some (base ++ frac ++ zone, r2)))))))))))))))))))).
Definition rec_int (s : bytes) := span1 is_digit s.
Definition rec_bool (s : bytes) := first_lit lits_bool s.
(* [a-z][a-zA-Z0-9_:]* *)
Definition rec_ident (s : bytes) : option (bytes * bytes) :=
  match s with
  | c :: r => if is_lower c then let '(m, r') := span is_word r in Some (c :: m, r') else None
  | [] => None
  end.
Definition rec_whitespace (s : bytes) := span1 is_blank s.
Definition rec_eol (s : bytes) := span1 is_eol s.
Definition rec_punct (s : bytes) : option (bytes * bytes) :=
  match s with
  | c :: r => if is_punct c then Some ([c], r) else None
  | [] => None
  end.

(* the rule list, in the order of BiscuitLexerRules *)
Definition rules : list (kind * (bytes -> option (bytes * bytes))) :=
  [(KKeyword, rec_keyword); (KFunction, rec_function); (KHex, rec_hex); (KDot, rec_dot);
   (KArrow, rec_arrow); (KOr, rec_or); (KAnd, rec_and); (KOperator, rec_operator);
   (KComment, rec_comment); (KString, rec_string); (KVariable, rec_variable);
   (KParameter, rec_parameter); (KDateTime, rec_datetime); (KInt, rec_int); (KBool, rec_bool);
   (KIdent, rec_ident); (KWhitespace, rec_whitespace); (KEOL, rec_eol); (KPunct, rec_punct)].

Fixpoint first_rule (rs : list (kind * (bytes -> option (bytes * bytes)))) (s : bytes)
  : option (token * bytes) :=
  match rs with
  | [] => None
  | (k, f) :: rs' =>
      match f s with
      | Some (m, r) => Some (Tok k m, r)
      | None => first_rule rs' s
      end
  end.

(* the first rule that matches at the head of [s] *)
Definition next_token (s : bytes) : option (token * bytes) := first_rule rules s.

Definition elided (k : kind) : bool :=
  match k with KWhitespace | KEOL => true | _ => false end.

Definition has_backslash (s : bytes) : bool := existsb (fun c => c =? 92) s.

(* every rule consumes at least one byte, so [length s] steps are enough *)
Fixpoint lex_loop (fuel : nat) (s : bytes) : res (list token) :=
  match s with
  | [] => Ok []
  | _ :: _ =>
      match fuel with
      | O => Err EOther
      | S f =>
          match next_token s with
          | None => Err EParse
          | Some (t, r) =>
              if elided (tk t) then lex_loop f r
              else if kind_eqb (tk t) KString && has_backslash (tx t) then Err EOther
              else do ts <- lex_loop f r; Ok (t :: ts)
          end
      end
  end.

Definition lex (s : bytes) : res (list token) :=
  if forallb in_domain s then lex_loop (List.length s) s else Err EOther.
