(* ChanLTSProofs.v — C11 (c): no stranded goroutines in the current
   Run / Apply / combine protocol, for every number of rule applications, every
   number of combinations per application and every interleaving; and the
   protocol before the repair does strand them. *)
From BV Require Import Base ChanLTS.
From Coq Require Import Arith Lia.
Local Open Scope nat_scope.

(* ---------- plumbing ---------- *)

Ltac inv_in H :=
  repeat match type of H with
    | In _ (_ ++ _) => apply in_app_or in H; destruct H as [H|H]
    | In _ [] => destruct H
    | In _ (_ :: _) => destruct H as [H|H]
    | _ \/ _ => destruct H as [H|H]
    | False => destruct H
    end.

Ltac find_in := simpl; repeat (first [left; reflexivity | right]).

Lemma in_lstep fixed s l s' :
  In (l, s') (lstep fixed s) <->
  In (l, s') (timeout_steps s) \/ In (l, s') (caller_steps fixed s) \/
  In (l, s') (worker_steps fixed s) \/ In (l, s') (prod_steps s) \/
  In (l, s') (orphan_steps fixed s).
Proof. unfold lstep. rewrite !in_app_iff. tauto. Qed.

Lemma in_orphan_steps fixed s l s' :
  In (l, s') (orphan_steps fixed s) ->
  exists o, l = LOrphan /\ s' = set_orphans o s /\ In o (orph fixed [] (orphans s)).
Proof.
  unfold orphan_steps. intros H. apply in_map_iff in H. destruct H as (o & Ho & Hin).
  exists o. injection Ho as H1 H2. auto.
Qed.

Lemma steps_trans fixed a b c : steps_gen fixed a b -> steps_gen fixed b c -> steps_gen fixed a c.
Proof.
  intros Hab Hbc. induction Hab as [s|s l s1 s2 Hin Hst IH]; [exact Hbc|].
  eapply steps_cons; [exact Hin | apply IH; exact Hbc].
Qed.

Lemma steps_one fixed s l s' : In (l, s') (lstep fixed s) -> steps_gen fixed s s'.
Proof. intros H. eapply steps_cons; [exact H | apply steps_refl]. Qed.

Lemma reachable_steps fixed s s' :
  reachable_gen fixed s -> steps_gen fixed s s' -> reachable_gen fixed s'.
Proof.
  intros Hr Hs. induction Hs as [s|s l s1 s2 Hin Hst IH]; [exact Hr|].
  apply IH. eapply reach_step; [exact Hr | exact Hin].
Qed.

(* ---------- the invariant ---------- *)

(* (1) the done buffer is filled only by the worker's last action;
   (2) outside Apply there is no producer in progress (it is done or orphaned);
   (3) once the caller has returned, ctx.Done() is closed (timeout, or cancel()). *)
Definition invb (s : state) : bool :=
  (negb (dbuf s) || match worker s with WExit => true | _ => false end) &&
  match worker s with
  | WTop | WSendDone | WExit => match prod s with PDone => true | _ => false end
  | WRet false => match prod s with PDone => true | _ => false end
  | _ => true
  end &&
  match caller s with CSelect => true | _ => ctx s end.

Lemma inv_initial ns b : invb (initial ns b) = true.
Proof. destruct b; reflexivity. Qed.

Lemma inv_step s l s' : In (l, s') (lstep true s) -> invb s = true -> invb s' = true.
Proof.
  intros H Hi. apply in_lstep in H. destruct H as [H|[H|[H|[H|H]]]].
  - destruct s as [c x d w t p o]. unfold timeout_steps in H. simpl in H.
    destruct x; inv_in H. injection H as <- <-.
    destruct c, d, w as [| |[|]| |], p as [[|m]|]; simpl in *; try discriminate; reflexivity.
  - destruct s as [c x d w t p o]. unfold caller_steps in H. simpl in H.
    destruct c; [|destruct H|destruct H].
    destruct x, d; simpl in H; inv_in H; injection H as <- <-;
      destruct w as [| |[|]| |], p as [[|m]|]; simpl in *; try discriminate; reflexivity.
  - destruct s as [c x d w t p o]. unfold worker_steps, abandon in H. simpl in H.
    destruct w as [| |[|]| |].
    + destruct x; [|destruct t as [|n r]]; simpl in H; inv_in H; injection H as <- <-;
        destruct c, d, p as [[|m]|]; simpl in *; try discriminate; reflexivity.
    + destruct p as [[|m]|]; simpl in H; inv_in H; injection H as <- <-;
        destruct c, d, x; simpl in *; try discriminate; reflexivity.
    + simpl in H; inv_in H; injection H as <- <-;
        destruct c, d, x, p as [[|m]|]; simpl in *; try discriminate; reflexivity.
    + simpl in H; inv_in H; injection H as <- <-;
        destruct c, d, x, p as [[|m]|]; simpl in *; try discriminate; reflexivity.
    + destruct d; simpl in H; inv_in H; injection H as <- <-;
        destruct c, x, p as [[|m]|]; simpl in *; try discriminate; reflexivity.
    + destruct H.
  - destruct s as [c x d w t p o]. unfold prod_steps in H. simpl in H.
    destruct p as [[|m]|]; inv_in H. injection H as <- <-.
    destruct c, d, x, w as [| |[|]| |]; simpl in *; try discriminate; reflexivity.
  - apply in_orphan_steps in H. destruct H as (o' & -> & -> & _).
    destruct s as [c x d w t p o]. exact Hi.
Qed.

Lemma reachable_inv s : reachable s -> invb s = true.
Proof.
  intros H. induction H as [ns b|s l s' Hr IH Hin]; [apply inv_initial|].
  eapply inv_step; [exact Hin | exact IH].
Qed.

Lemma inv_steps s s' : steps s s' -> invb s = true -> invb s' = true.
Proof.
  intros H. induction H as [s|s l s1 s2 Hin Hst IH]; intros Hi; [exact Hi|].
  apply IH. eapply inv_step; [exact Hin | exact Hi].
Qed.

(* ---------- termination: every step lowers the measure ---------- *)

Lemma osum_app a b : osum (a ++ b) = osum a + osum b.
Proof. induction a as [|m a IH]; simpl; [reflexivity | rewrite IH; lia]. Qed.

Lemma orph_decreases : forall l pre o,
  In o (orph true pre l) -> osum o < osum pre + osum l.
Proof.
  induction l as [|m r IH]; intros pre o H; simpl in H; [destruct H|].
  apply in_app_or in H. destruct H as [H|H].
  - destruct m as [|m']; simpl in H; destruct H as [H|[]]; subst o;
      rewrite osum_app; simpl; lia.
  - apply IH in H. rewrite osum_app in H. simpl in *. lia.
Qed.

Theorem step_decreases s l s' : In (l, s') (lstep true s) -> measure s' < measure s.
Proof.
  intros H. apply in_lstep in H. destruct H as [H|[H|[H|[H|H]]]].
  - destruct s as [c x d w t p o]. unfold timeout_steps in H. simpl in H.
    destruct x; inv_in H. injection H as <- <-. unfold measure. simpl. lia.
  - destruct s as [c x d w t p o]. unfold caller_steps in H. simpl in H.
    destruct c; [|destruct H|destruct H].
    destruct x, d; simpl in H; inv_in H; injection H as <- <-; unfold measure; simpl; lia.
  - destruct s as [c x d w t p o]. unfold worker_steps, abandon in H. simpl in H.
    destruct w as [| |[|]| |].
    + destruct x; [|destruct t as [|n r]]; simpl in H; inv_in H; injection H as <- <-;
        unfold measure; simpl; lia.
    + destruct p as [[|m]|]; simpl in H; inv_in H; injection H as <- <-;
        unfold measure; simpl; lia.
    + simpl in H; inv_in H; injection H as <- <-; unfold measure; simpl;
        destruct p as [[|m]|]; simpl; lia.
    + simpl in H; inv_in H; injection H as <- <-; unfold measure; simpl;
        destruct p as [[|m]|]; simpl; lia.
    + destruct d; simpl in H; inv_in H; injection H as <- <-; unfold measure; simpl; lia.
    + destruct H.
  - destruct s as [c x d w t p o]. unfold prod_steps in H. simpl in H.
    destruct p as [[|m]|]; inv_in H. injection H as <- <-. unfold measure. simpl. lia.
  - apply in_orphan_steps in H. destruct H as (o' & -> & -> & Hin).
    apply orph_decreases in Hin. destruct s as [c x d w t p o].
    unfold measure. simpl in *. lia.
Qed.

(* a run of k steps *)
Inductive steps_n : nat -> state -> state -> Prop :=
| sn_refl s : steps_n 0 s s
| sn_cons k s l s1 s2 : In (l, s1) (lstep true s) -> steps_n k s1 s2 -> steps_n (S k) s s2.

Theorem run_length_bounded k s s' : steps_n k s s' -> measure s' + k <= measure s.
Proof.
  intros H. induction H as [s|k s l s1 s2 Hin Hst IH]; [lia|].
  apply step_decreases in Hin. lia.
Qed.

(* no infinite run, from any state whatsoever *)
Theorem no_infinite_run : forall f : nat -> state, ~ (forall i, step (f i) (f (S i))).
Proof.
  intros f H.
  assert (Hk : forall i, measure (f i) + i <= measure (f 0)).
  { induction i as [|i IH]; [lia|]. destruct (H i) as [l Hl].
    apply step_decreases in Hl. lia. }
  specialize (Hk (S (measure (f 0)))). lia.
Qed.

Theorem step_wf : well_founded (fun s' s => step s s').
Proof.
  apply (well_founded_lt_compat _ measure). intros s' s [l Hl].
  eapply step_decreases; exact Hl.
Qed.

(* ---------- progress: a state that is not finished has a transition ---------- *)

Lemma progress_inv s :
  invb s = true -> all_finishedb s = false -> exists l s', In (l, s') (lstep true s).
Proof.
  intros Hi Hf.
  assert (Hne : match lstep true s with [] => false | _ => true end = true).
  { destruct s as [c x d w t p o].
    destruct c, x, d, w as [| |[|]| |], p as [[|m]|], t as [|n r], o as [|[|k] o'];
      try discriminate Hi; try discriminate Hf; reflexivity. }
  destruct (lstep true s) as [|[l s'] rest]; [discriminate Hne|].
  exists l, s'. left. reflexivity.
Qed.

Theorem progress s :
  reachable s -> ~ all_finished s -> exists s', step s s'.
Proof.
  intros Hr Hf. unfold all_finished in Hf.
  destruct (all_finishedb s) eqn:E; [contradiction Hf; reflexivity|].
  destruct (progress_inv s (reachable_inv s Hr) E) as (l & s' & H).
  exists s', l. exact H.
Qed.

(* finished states are terminal: a maximal run is one that ends in a state without successor *)
Lemma finished_terminal s : invb s = true -> all_finished s -> lstep true s = [].
Proof.
  unfold all_finished. intros Hi Hf. destruct s as [c x d w t p o].
  destruct c, x, d, w as [| |[|]| |], p as [[|m]|], o as [|k o'];
    try discriminate Hi; try discriminate Hf; reflexivity.
Qed.

(* ---------- main theorems ---------- *)

Lemma can_finish_from : forall k s,
  measure s <= k -> invb s = true -> exists s', steps s s' /\ all_finished s'.
Proof.
  induction k as [|k IH]; intros s Hm Hi.
  - destruct (all_finishedb s) eqn:E.
    + exists s. split; [apply steps_refl | exact E].
    + destruct (progress_inv s Hi E) as (l & s1 & H1).
      apply step_decreases in H1. lia.
  - destruct (all_finishedb s) eqn:E.
    + exists s. split; [apply steps_refl | exact E].
    + destruct (progress_inv s Hi E) as (l & s1 & H1).
      destruct (IH s1) as (s' & Hst & Hfin).
      * apply step_decreases in H1. lia.
      * eapply inv_step; [exact H1 | exact Hi].
      * exists s'. split; [eapply steps_cons; [exact H1 | exact Hst] | exact Hfin].
Qed.

(* from every reachable state, all processes can still terminate *)
Theorem no_stranded : forall s, reachable s -> exists s', steps s s' /\ all_finished s'.
Proof.
  intros s Hr. apply (can_finish_from (measure s)); [lia | apply reachable_inv; exact Hr].
Qed.

(* every run that cannot be extended has ended with every process terminated;
   with [no_infinite_run] / [run_length_bounded]: under any scheduling, after at
   most [measure s] further transitions everything has finished. *)
Theorem every_maximal_run_finishes : forall s s',
  reachable s -> steps s s' -> (forall s'', ~ step s' s'') -> all_finished s'.
Proof.
  intros s s' Hr Hst Hmax.
  assert (Hr' : reachable s') by (eapply reachable_steps; [exact Hr | exact Hst]).
  unfold all_finished. destruct (all_finishedb s') eqn:E; [reflexivity|].
  destruct (progress_inv s' (reachable_inv s' Hr') E) as (l & s'' & H).
  exfalso. apply (Hmax s''). exists l. exact H.
Qed.

Theorem finished_is_terminal : forall s, reachable s -> all_finished s -> forall s', ~ step s s'.
Proof.
  intros s Hr Hf s' [l Hl]. rewrite (finished_terminal s (reachable_inv s Hr) Hf) in Hl.
  destruct Hl.
Qed.

(* the statement of DESIGN.md: after the caller has returned *)
Corollary C11_no_stranded : forall s,
  reachable s -> caller_returned s ->
  (exists s', steps s s' /\ all_finished s') /\
  (forall k s', steps_n k s s' -> k <= measure s) /\
  (forall s', steps s s' -> (forall s'', ~ step s' s'') -> all_finished s').
Proof.
  intros s Hr _. split; [apply no_stranded; exact Hr|]. split.
  - intros k s' H. apply run_length_bounded in H. lia.
  - intros s' Hst Hmax. eapply every_maximal_run_finishes; eauto.
Qed.

(* the caller returns on its own: at most the deadline firing and its own
   select are needed — no step of the worker or of any producer; and if a
   result is already in the buffer the done branch is enabled at once. *)
Theorem caller_returns_independent : forall s,
  caller s = CSelect ->
  (exists s1, (s1 = s \/ In (LTimeout, s1) (lstep true s)) /\
              In (LCaller, set_caller CRetTimeout s1) (lstep true s1) /\
              caller_returned (set_caller CRetTimeout s1)) /\
  (dbuf s = true ->
   In (LCaller, set_ctx true (set_dbuf false (set_caller CRetDone s))) (lstep true s) /\
   caller_returned (set_ctx true (set_dbuf false (set_caller CRetDone s)))).
Proof.
  intros s Hc. destruct s as [c x d w t p o]. simpl in Hc. subst c. split.
  - destruct x.
    + eexists. split; [left; reflexivity|]. split; [|discriminate].
      apply in_lstep. right. left. unfold caller_steps. simpl. left. reflexivity.
    + exists (set_ctx true (mkState CSelect false d w t p o)). split; [right|split].
      * apply in_lstep. left. left. reflexivity.
      * apply in_lstep. right. left. unfold caller_steps. simpl. left. reflexivity.
      * discriminate.
  - simpl. intros ->. split; [|discriminate].
    apply in_lstep. right. left. unfold caller_steps. simpl.
    apply in_or_app. right. left. reflexivity.
Qed.

(* ---------- no process is blocked forever ---------- *)

Lemma can_move_intro fixed p s l s' :
  In (l, s') (lstep fixed s) -> involves l p = true -> can_move fixed p s = true.
Proof.
  intros Hin Hl. unfold can_move. apply existsb_exists. exists (l, s'). auto.
Qed.

(* an active process gets a transition after at most one step of another process *)
Lemma enabled_soon s p :
  invb s = true -> active p s = true ->
  exists s', steps s s' /\ can_move true p s' = true.
Proof.
  intros Hi Ha. destruct s as [c x d w t p0 o]. destruct p.
  - (* caller: needs ctx.Done() or a buffered result; the deadline can always fire *)
    destruct c; try discriminate Ha. destruct x.
    + eexists. split; [apply steps_refl|].
      eapply (can_move_intro _ _ _ LCaller); [|reflexivity].
      apply in_lstep. right. left. unfold caller_steps. simpl. left. reflexivity.
    + exists (set_ctx true (mkState CSelect false d w t p0 o)). split.
      * eapply steps_one. apply in_lstep. left. left. reflexivity.
      * eapply (can_move_intro _ _ _ LCaller); [|reflexivity].
        apply in_lstep. right. left. unfold caller_steps. simpl. left. reflexivity.
  - (* worker *)
    destruct w as [| |e| |]; try discriminate Ha.
    + eexists. split; [apply steps_refl|].
      destruct x.
      * eapply (can_move_intro _ _ _ LWorker); [|reflexivity].
        apply in_lstep. right. right. left. unfold worker_steps. simpl. left. reflexivity.
      * eapply (can_move_intro _ _ _ LWorker (set_worker WSendDone _)); [|reflexivity].
        apply in_lstep. right. right. left. unfold worker_steps. simpl.
        apply in_or_app. right. left. reflexivity.
    + destruct p0 as [[|m]|].
      * (* nothing offered yet and c open: the producer's close(c) comes first *)
        exists (set_prod PDone (mkState c x d WRange t (PSend 0) o)). split.
        -- eapply steps_one. apply in_lstep. right. right. right. left. left. reflexivity.
        -- eapply (can_move_intro _ _ _ LWorker); [|reflexivity].
           apply in_lstep. right. right. left. unfold worker_steps. simpl. left. reflexivity.
      * eexists. split; [apply steps_refl|].
        eapply (can_move_intro _ _ _ LSync); [|reflexivity].
        apply in_lstep. right. right. left. unfold worker_steps. simpl. left. reflexivity.
      * eexists. split; [apply steps_refl|].
        eapply (can_move_intro _ _ _ LWorker); [|reflexivity].
        apply in_lstep. right. right. left. unfold worker_steps. simpl. left. reflexivity.
    + eexists. split; [apply steps_refl|].
      eapply (can_move_intro _ _ _ LWorker (set_worker WSendDone _)); [|reflexivity].
      apply in_lstep. right. right. left. unfold worker_steps. simpl.
      destruct e; simpl; [left; reflexivity | right; left; reflexivity].
    + (* done <- x : the buffer is free, by the invariant *)
      destruct d; [destruct c, x, p0 as [[|m]|]; discriminate Hi|].
      eexists. split; [apply steps_refl|].
      eapply (can_move_intro _ _ _ LWorker); [|reflexivity].
      apply in_lstep. right. right. left. unfold worker_steps. simpl. left. reflexivity.
  - (* producers *)
    destruct o as [|k o'].
    + destruct p0 as [[|m]|]; try discriminate Ha.
      * eexists. split; [apply steps_refl|].
        eapply (can_move_intro _ _ _ LProd); [|reflexivity].
        apply in_lstep. right. right. right. left. left. reflexivity.
      * (* at the select: the consumer is receiving, or Apply is returning and will close stop *)
        destruct w as [| |e| |]; try (destruct c, x, d; discriminate Hi).
        -- eexists. split; [apply steps_refl|].
           eapply (can_move_intro _ _ _ LSync); [|reflexivity].
           apply in_lstep. right. right. left. unfold worker_steps. simpl. left. reflexivity.
        -- exists (set_worker WSendDone (abandon (mkState c x d (WRet e) t (PSend (S m)) []))).
           split.
           ++ eapply steps_one. apply in_lstep. right. right. left. unfold worker_steps. simpl.
              destruct e; simpl; [left; reflexivity | right; left; reflexivity].
           ++ eapply (can_move_intro _ _ _ LOrphan); [|reflexivity].
              apply in_lstep. right. right. right. right. unfold orphan_steps, abandon. simpl.
              left. reflexivity.
    + destruct k as [|k'];
        (eexists; split; [apply steps_refl|];
         eapply (can_move_intro _ _ _ LOrphan); [|reflexivity];
         apply in_lstep; right; right; right; right; unfold orphan_steps; simpl;
         left; reflexivity).
Qed.

Theorem no_blocked_forever : forall s p, reachable s -> ~ blocked_forever p s.
Proof.
  intros s p Hr [Ha Hb].
  destruct (enabled_soon s p (reachable_inv s Hr) Ha) as (s' & Hst & Hm).
  rewrite (Hb s' Hst) in Hm. discriminate Hm.
Qed.

(* ---------- the protocol before the repair ---------- *)

(* Run over one rule whose producer has 2 combinations; the consumer returns on
   the first (InvalidRuleError); the caller takes the timeout branch. *)
Definition old_s0 := initial [2] false.
Definition old_s1 := mkState CSelect false false WRange [] (PSend 2) [].
Definition old_s2 := mkState CSelect false false (WRet true) [] (PSend 1) [].
Definition old_s3 := mkState CSelect false false WSendDone [] PDone [1].
Definition old_s4 := mkState CSelect true false WSendDone [] PDone [1].
Definition old_bad := mkState CRetTimeout true false WSendDone [] PDone [1].

Lemma old_bad_reachable : reachable_old old_bad.
Proof.
  assert (H0 : reachable_old old_s0) by apply reach_init.
  assert (H1 : reachable_old old_s1) by (apply (reach_step _ old_s0 LWorker); [exact H0 | find_in]).
  assert (H2 : reachable_old old_s2) by (apply (reach_step _ old_s1 LSync); [exact H1 | find_in]).
  assert (H3 : reachable_old old_s3) by (apply (reach_step _ old_s2 LWorker); [exact H2 | find_in]).
  assert (H4 : reachable_old old_s4) by (apply (reach_step _ old_s3 LTimeout); [exact H3 | find_in]).
  apply (reach_step _ old_s4 LCaller); [exact H4 | find_in].
Qed.

Lemma old_bad_dead : forall s', steps_old old_bad s' -> s' = old_bad.
Proof.
  intros s' H. inversion H as [s|s l s1 s2 Hin Hst]; subst; [reflexivity|].
  vm_compute in Hin. destruct Hin.
Qed.

(* the caller has returned; the worker is blocked on  done <- err  and the
   producer on  c <- x : neither can ever finish *)
Theorem old_protocol_strands :
  exists s, reachable_old s /\ caller_returned s /\
            ~ exists s', steps_old s s' /\ all_finished s'.
Proof.
  exists old_bad. split; [apply old_bad_reachable|]. split; [discriminate|].
  intros (s' & Hst & Hfin). apply old_bad_dead in Hst. subst s'. discriminate Hfin.
Qed.

Theorem old_protocol_blocked_forever :
  blocked_forever_old PWorker old_bad /\ blocked_forever_old PProducers old_bad.
Proof.
  split; (split; [reflexivity|]); intros s' Hst; apply old_bad_dead in Hst; subst s';
    reflexivity.
Qed.

(* each defect alone.  (a) stop channel missing: the run itself succeeds (the
   caller receives the error over done) and the producer stays behind *)
Definition old_bad_a := mkState CRetDone true false WExit [] PDone [1].
Theorem old_strands_producer_only :
  reachable_old old_bad_a /\ caller_returned old_bad_a /\ worker old_bad_a = WExit /\
  blocked_forever_old PProducers old_bad_a.
Proof.
  split.
  - assert (H0 : reachable_old old_s0) by apply reach_init.
    assert (H1 : reachable_old old_s1) by (apply (reach_step _ old_s0 LWorker); [exact H0 | find_in]).
    assert (H2 : reachable_old old_s2) by (apply (reach_step _ old_s1 LSync); [exact H1 | find_in]).
    assert (H3 : reachable_old old_s3) by (apply (reach_step _ old_s2 LWorker); [exact H2 | find_in]).
    apply (reach_step _ old_s3 LDoneSync); [exact H3 | find_in].
  - split; [discriminate|]. split; [reflexivity|]. split; [reflexivity|].
    intros s' Hst. inversion Hst as [s|s l s1 s2 Hin Hst']; subst; [reflexivity|].
    vm_compute in Hin. destruct Hin.
Qed.

(* (b) unbuffered done: a rule-less world, the caller times out first *)
Definition old_bad_b := mkState CRetTimeout true false WSendDone [] PDone [].
Theorem old_strands_worker_only :
  reachable_old old_bad_b /\ caller_returned old_bad_b /\ blocked_forever_old PWorker old_bad_b.
Proof.
  split.
  - assert (H0 : reachable_old (initial [] false)) by apply reach_init.
    assert (H1 : reachable_old (mkState CSelect false false WSendDone [] PDone []))
      by (apply (reach_step _ (initial [] false) LWorker); [exact H0 | find_in]).
    assert (H2 : reachable_old (mkState CSelect true false WSendDone [] PDone []))
      by (eapply (reach_step _ _ LTimeout); [exact H1 | find_in]).
    eapply (reach_step _ _ LCaller); [exact H2 | find_in].
  - split; [discriminate|]. split; [reflexivity|].
    intros s' Hst. inversion Hst as [s|s l s1 s2 Hin Hst']; subst; [reflexivity|].
    vm_compute in Hin. destruct Hin.
Qed.

(* the same history under the current protocol: the state is reachable and finishes *)
Example fixed_same_history :
  reachable old_bad /\ can_finish true 10 old_bad = true.
Proof.
  split; [|vm_compute; reflexivity].
  assert (H0 : reachable old_s0) by apply reach_init.
  assert (H1 : reachable old_s1) by (apply (reach_step _ old_s0 LWorker); [exact H0 | find_in]).
  assert (H2 : reachable old_s2) by (apply (reach_step _ old_s1 LSync); [exact H1 | find_in]).
  assert (H3 : reachable old_s3) by (apply (reach_step _ old_s2 LWorker); [exact H2 | find_in]).
  assert (H4 : reachable old_s4) by (apply (reach_step _ old_s3 LTimeout); [exact H3 | find_in]).
  apply (reach_step _ old_s4 LCaller); [exact H4 | find_in].
Qed.

(* ---------- non-vacuity and concrete instances by computation ---------- *)

(* the hypotheses of the main theorems are satisfiable by non-trivial states *)
Example nonvacuous_reachable :
  reachable old_s2 /\ caller_returned old_bad /\ reachable old_bad /\
  ~ all_finished old_bad /\ measure (initial [2; 1] false) = 17.
Proof.
  destruct fixed_same_history as [Hr _].
  split.
  { assert (H0 : reachable old_s0) by apply reach_init.
    assert (H1 : reachable old_s1) by (apply (reach_step _ old_s0 LWorker); [exact H0 | find_in]).
    apply (reach_step _ old_s1 LSync); [exact H1 | find_in]. }
  split; [discriminate|]. split; [exact Hr|]. split; [discriminate | reflexivity].
Qed.

(* whole state space of two Applies (2 and 1 combinations), both start modes:
   every reachable state can finish, every terminal state is finished, the
   invariant holds, and there are states where the caller has returned while
   worker and producers are still running *)
Definition space_21 : list state :=
  explore true 18 [initial [2; 1] false; initial [2; 1] true].

Example explore_21 :
  forallb (fun s => can_finish true 18 s) space_21 = true /\
  forallb (fun s => match lstep true s with [] => all_finishedb s | _ => true end) space_21 = true /\
  forallb invb space_21 = true /\
  existsb (fun s => negb (cpc_eqb (caller s) CSelect) && negb (wpc_eqb (worker s) WExit)
                    && negb (list_eqb Nat.eqb (orphans s) [])) space_21 = true /\
  (* closed under step: one more round adds nothing *)
  length (explore true 1 space_21) = length space_21.
Proof. vm_compute. repeat split; reflexivity. Qed.

(* the same space under the old protocol contains states that cannot finish *)
Example explore_21_old :
  let sp := explore false 18 [initial [2; 1] false] in
  existsb (fun s => negb (can_finish false 18 s)) sp = true /\
  existsb (fun s => match lstep false s with [] => negb (all_finishedb s) | _ => false end) sp = true.
Proof. vm_compute. split; reflexivity. Qed.

Print Assumptions no_stranded.
Print Assumptions every_maximal_run_finishes.
Print Assumptions no_infinite_run.
Print Assumptions step_decreases.
Print Assumptions run_length_bounded.
Print Assumptions step_wf.
Print Assumptions progress.
Print Assumptions finished_is_terminal.
Print Assumptions C11_no_stranded.
Print Assumptions caller_returns_independent.
Print Assumptions no_blocked_forever.
Print Assumptions old_protocol_strands.
Print Assumptions old_protocol_blocked_forever.
Print Assumptions old_strands_producer_only.
Print Assumptions old_strands_worker_only.
