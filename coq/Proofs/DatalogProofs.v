(* DatalogProofs.v — the evaluator of Model/Datalog.v computes exactly the least
   fixpoint (C05) and honours its limits (C11 a).

   Set-freeness.  [term_eqb] on [TSet] is Go's Set.Equal, which is neither
   structural nor symmetric when elements repeat; the exactness theorems are
   therefore stated for programs whose base facts and rule *heads* carry no set
   constant.  Rule bodies and expressions are unrestricted: a set constant in a
   body position simply never matches a set-free fact, and expression values
   never flow into facts.  Soundness, [run_extends] and [run_nodup] need no
   such hypothesis. *)
From Coq Require Import Arith PeanoNat Permutation.
From BV Require Import Base Term Expr Datalog.

Local Open Scope nat_scope.

(* ------------------------------------------------------------------ *)
(** * Equality on set-free terms *)

Definition setfree_term (t : term) : bool :=
  match t with TSet _ => false | TA _ => true end.
Definition setfree_pred (p : pred) : bool := forallb setfree_term (p_terms p).
Definition setfree_facts (fs : list pred) : Prop :=
  Forall (fun f => setfree_pred f = true) fs.
Definition setfree_rules (rs : list rule) : Prop :=
  Forall (fun r => setfree_pred (r_head r) = true) rs.

Lemma atom_eqb_true a b : atom_eqb a b = true -> a = b.
Proof.
  destruct a as [x|x|x|x|x|x], b as [y|y|y|y|y|y]; cbn [atom_eqb]; intro H;
    try discriminate H; f_equal.
  - apply bytes_eqb_eq; exact H.
  - apply Z.eqb_eq; exact H.
  - apply bytes_eqb_eq; exact H.
  - apply N.eqb_eq; exact H.
  - apply bytes_eqb_eq; exact H.
  - apply Bool.eqb_prop; exact H.
Qed.

Lemma atom_eqb_refl a : atom_eqb a a = true.
Proof.
  destruct a as [x|x|x|x|x|x]; cbn [atom_eqb].
  - apply bytes_eqb_refl.
  - apply Z.eqb_refl.
  - apply bytes_eqb_refl.
  - apply N.eqb_refl.
  - apply bytes_eqb_refl.
  - apply Bool.eqb_reflx.
Qed.

Lemma atom_eqb_eq a b : atom_eqb a b = true <-> a = b.
Proof. split; [apply atom_eqb_true | intros ->; apply atom_eqb_refl]. Qed.

Lemma set_contains_in s a : In a s -> set_contains s a = true.
Proof.
  intro H. unfold set_contains. apply existsb_exists. exists a.
  split; [exact H | apply atom_eqb_refl].
Qed.

Lemma set_equal_refl s : set_equal s s = true.
Proof.
  unfold set_equal. rewrite Nat.eqb_refl. cbn [andb].
  apply forallb_forall. intros x Hx. apply set_contains_in; exact Hx.
Qed.

Lemma term_eqb_refl t : term_eqb t t = true.
Proof. destruct t as [a|s]; cbn [term_eqb]; [apply atom_eqb_refl | apply set_equal_refl]. Qed.

Lemma term_eqb_true_l a b : setfree_term a = true -> term_eqb a b = true -> a = b.
Proof.
  destruct a as [x|x], b as [y|y]; cbn [term_eqb setfree_term]; intros Hs H;
    try discriminate. f_equal. apply atom_eqb_true; exact H.
Qed.

Lemma term_eqb_true_r a b : setfree_term b = true -> term_eqb a b = true -> a = b.
Proof.
  destruct a as [x|x], b as [y|y]; cbn [term_eqb setfree_term]; intros Hs H;
    try discriminate. f_equal. apply atom_eqb_true; exact H.
Qed.

(* requested form *)
Lemma term_eqb_eq a b : setfree_term a = true -> (term_eqb a b = true <-> a = b).
Proof.
  intro Hs. split; [apply term_eqb_true_l; exact Hs | intros ->; apply term_eqb_refl].
Qed.

Lemma terms_eqb_refl ts : list_eqb term_eqb ts ts = true.
Proof.
  induction ts as [|t ts IH]; [reflexivity|]. cbn [list_eqb].
  rewrite term_eqb_refl, IH. reflexivity.
Qed.

Lemma terms_eqb_true_l ts us :
  forallb setfree_term ts = true -> list_eqb term_eqb ts us = true -> ts = us.
Proof.
  revert us. induction ts as [|t ts IH]; intros [|u us] Hs H; cbn [list_eqb] in H;
    try discriminate H; [reflexivity|].
  cbn [forallb] in Hs. apply andb_true_iff in Hs as [Hs1 Hs2].
  apply andb_true_iff in H as [H1 H2].
  apply term_eqb_true_l in H1; [|exact Hs1]. apply IH in H2; [|exact Hs2].
  subst. reflexivity.
Qed.

Lemma terms_eqb_true_r ts us :
  forallb setfree_term us = true -> list_eqb term_eqb ts us = true -> ts = us.
Proof.
  revert us. induction ts as [|t ts IH]; intros [|u us] Hs H; cbn [list_eqb] in H;
    try discriminate H; [reflexivity|].
  cbn [forallb] in Hs. apply andb_true_iff in Hs as [Hs1 Hs2].
  apply andb_true_iff in H as [H1 H2].
  apply term_eqb_true_r in H1; [|exact Hs1]. apply IH in H2; [|exact Hs2].
  subst. reflexivity.
Qed.

Lemma pred_eqb_refl p : pred_eqb p p = true.
Proof. unfold pred_eqb. rewrite bytes_eqb_refl, terms_eqb_refl. reflexivity. Qed.

Lemma pred_eqb_true_l p q : setfree_pred p = true -> pred_eqb p q = true -> p = q.
Proof.
  destruct p as [n ts], q as [m us]. unfold pred_eqb, setfree_pred. cbn [p_name p_terms].
  intros Hs H. apply andb_true_iff in H as [H1 H2].
  apply bytes_eqb_eq in H1. apply terms_eqb_true_l in H2; [|exact Hs]. subst. reflexivity.
Qed.

Lemma pred_eqb_true_r p q : setfree_pred q = true -> pred_eqb p q = true -> p = q.
Proof.
  destruct p as [n ts], q as [m us]. unfold pred_eqb, setfree_pred. cbn [p_name p_terms].
  intros Hs H. apply andb_true_iff in H as [H1 H2].
  apply bytes_eqb_eq in H1. apply terms_eqb_true_r in H2; [|exact Hs]. subst. reflexivity.
Qed.

(* requested form *)
Lemma pred_eqb_eq p q : setfree_pred p = true -> (pred_eqb p q = true <-> p = q).
Proof.
  intro Hs. split; [apply pred_eqb_true_l; exact Hs | intros ->; apply pred_eqb_refl].
Qed.

(* the restriction is necessary: Set.Equal is not symmetric, hence not equality *)
Example term_eqb_sets_not_symmetric :
  term_eqb (TSet [AInt 1; AInt 1]) (TSet [AInt 1; AInt 2]) = true /\
  term_eqb (TSet [AInt 1; AInt 2]) (TSet [AInt 1; AInt 1]) = false.
Proof. split; vm_compute; reflexivity. Qed.

(* ------------------------------------------------------------------ *)
(** * fact_in / insert_fact / insert_all *)

Lemma In_fact_in f fs : In f fs -> fact_in f fs = true.
Proof.
  intro H. unfold fact_in. apply existsb_exists. exists f.
  split; [exact H | apply pred_eqb_refl].
Qed.

Lemma fact_in_In f fs : setfree_facts fs -> fact_in f fs = true -> In f fs.
Proof.
  intros Hs H. unfold fact_in in H. apply existsb_exists in H as [g [Hg He]].
  assert (Hgf : g = f).
  { apply pred_eqb_true_l; [|exact He].
    unfold setfree_facts in Hs. rewrite Forall_forall in Hs. apply Hs; exact Hg. }
  subst g. exact Hg.
Qed.

Lemma fact_in_mono g fs fs' :
  (forall x, In x fs -> In x fs') -> fact_in g fs = true -> fact_in g fs' = true.
Proof.
  intros Hi H. unfold fact_in in *. apply existsb_exists in H as [x [Hx He]].
  apply existsb_exists. exists x. split; [apply Hi; exact Hx | exact He].
Qed.

Lemma insert_fact_in_inv fs f g : In g (insert_fact fs f) -> In g fs \/ g = f.
Proof.
  unfold insert_fact. destruct (fact_in f fs); intro H; [left; exact H|].
  apply in_app_or in H as [H|H]; [left; exact H|].
  cbn [In] in H. destruct H as [H|[]]. right; symmetry; exact H.
Qed.

Lemma insert_fact_incl fs f g : In g fs -> In g (insert_fact fs f).
Proof.
  unfold insert_fact. destruct (fact_in f fs); intro H; [exact H|].
  apply in_or_app; left; exact H.
Qed.

Lemma insert_fact_self fs f : fact_in f (insert_fact fs f) = true.
Proof.
  unfold insert_fact. destruct (fact_in f fs) eqn:H; [exact H|].
  apply In_fact_in. apply in_or_app. right. left. reflexivity.
Qed.

Lemma insert_fact_NoDup fs f : NoDup fs -> NoDup (insert_fact fs f).
Proof.
  unfold insert_fact. destruct (fact_in f fs) eqn:H; intro Hn; [exact Hn|].
  apply (Permutation_NoDup (Permutation_cons_append fs f)).
  constructor; [|exact Hn].
  intro Hin. apply In_fact_in in Hin. rewrite Hin in H. discriminate H.
Qed.

Lemma insert_fact_length fs f : length fs <= length (insert_fact fs f).
Proof.
  unfold insert_fact. destruct (fact_in f fs); [lia|]. rewrite app_length. cbn [length]. lia.
Qed.

Lemma insert_fact_len_eq fs f :
  length (insert_fact fs f) = length fs -> fact_in f fs = true /\ insert_fact fs f = fs.
Proof.
  unfold insert_fact. destruct (fact_in f fs); [auto|].
  rewrite app_length. cbn [length]. lia.
Qed.

Lemma insert_all_nil fs : insert_all fs [] = fs.
Proof. reflexivity. Qed.

Lemma insert_all_cons fs f nf : insert_all fs (f :: nf) = insert_all (insert_fact fs f) nf.
Proof. reflexivity. Qed.

Lemma insert_all_in_inv nf : forall fs g, In g (insert_all fs nf) -> In g fs \/ In g nf.
Proof.
  induction nf as [|f nf IH]; intros fs g H.
  - left; exact H.
  - rewrite insert_all_cons in H. apply IH in H as [H|H].
    + apply insert_fact_in_inv in H as [H|H]; [left; exact H | right; left; symmetry; exact H].
    + right; right; exact H.
Qed.

Lemma insert_all_incl nf : forall fs g, In g fs -> In g (insert_all fs nf).
Proof.
  induction nf as [|f nf IH]; intros fs g H; [exact H|].
  rewrite insert_all_cons. apply IH. apply insert_fact_incl. exact H.
Qed.

Lemma insert_all_NoDup nf : forall fs, NoDup fs -> NoDup (insert_all fs nf).
Proof.
  induction nf as [|f nf IH]; intros fs H; [exact H|].
  rewrite insert_all_cons. apply IH. apply insert_fact_NoDup. exact H.
Qed.

Lemma insert_all_length nf : forall fs, length fs <= length (insert_all fs nf).
Proof.
  induction nf as [|f nf IH]; intros fs; [cbn; lia|].
  rewrite insert_all_cons. pose proof (IH (insert_fact fs f)) as H1.
  pose proof (insert_fact_length fs f) as H2. lia.
Qed.

Lemma insert_all_same_len nf : forall fs,
  length (insert_all fs nf) = length fs ->
  insert_all fs nf = fs /\ forall f, In f nf -> fact_in f fs = true.
Proof.
  induction nf as [|g nf IH]; intros fs H.
  - split; [reflexivity | intros f []].
  - rewrite insert_all_cons in H.
    pose proof (insert_all_length nf (insert_fact fs g)) as H1.
    pose proof (insert_fact_length fs g) as H2.
    assert (H3 : length (insert_fact fs g) = length fs) by lia.
    apply insert_fact_len_eq in H3 as [Hin Heq].
    rewrite insert_all_cons. rewrite Heq in *.
    destruct (IH fs H) as [Ha Hb]. split; [exact Ha|].
    intros f [Hf|Hf]; [subst f; exact Hin | apply Hb; exact Hf].
Qed.

(* ------------------------------------------------------------------ *)
(** * Values in bindings come from the matched facts *)

Definition vals_ok (P : term -> Prop) (b : bindings) : Prop :=
  Forall (fun kv => P (snd kv)) b.

Lemma lookup_ok P b k v : vals_ok P b -> lookup b k = Some v -> P v.
Proof.
  induction b as [|[k0 t0] b IH]; intros Hb H; cbn [lookup] in H; [discriminate H|].
  inversion Hb as [|x l Hx Hl]; subst.
  destruct (bytes_eqb k0 k).
  - injection H as H. subst. exact Hx.
  - apply IH; assumption.
Qed.

Lemma bind_terms_ok P pt : forall ft b b',
  Forall P ft -> vals_ok P b -> bind_terms pt ft b = Some b' -> vals_ok P b'.
Proof.
  induction pt as [|t pt IH]; intros ft b b' Hft Hb H.
  - cbn [bind_terms] in H. injection H as H. subst. exact Hb.
  - destruct ft as [|v ft].
    + destruct t as [[k|z|s|d|bs|bo]|l]; cbn [bind_terms] in H;
        injection H as H; subst; exact Hb.
    + inversion Hft as [|x l Hv Hft']; subst.
      destruct t as [[k|z|s|d|bs|bo]|l]; cbn [bind_terms] in H;
        try (eapply IH; eassumption).
      destruct (lookup b k) as [ex|] eqn:Hl.
      * destruct (term_eqb v ex); [eapply IH; eassumption | discriminate H].
      * eapply IH; [exact Hft' | | exact H].
        unfold vals_ok. apply Forall_app. split; [exact Hb|].
        constructor; [exact Hv | constructor].
Qed.

Lemma bind_all_ok P ps : forall c b b',
  Forall (fun f => Forall P (p_terms f)) c -> vals_ok P b ->
  bind_all ps c b = Some b' -> vals_ok P b'.
Proof.
  induction ps as [|p ps IH]; intros c b b' Hc Hb H.
  - cbn [bind_all] in H. injection H as H. subst. exact Hb.
  - destruct c as [|f c].
    + cbn [bind_all] in H. injection H as H. subst. exact Hb.
    + cbn [bind_all] in H. inversion Hc as [|x l Hf Hc']; subst.
      destruct (bind_terms (p_terms p) (p_terms f) b) as [b1|] eqn:Hbt; [|discriminate H].
      eapply IH; [exact Hc' | | exact H].
      eapply bind_terms_ok; eassumption.
Qed.

Lemma inst_terms_ok P ts : forall b ts',
  Forall P ts -> vals_ok P b -> inst_terms ts b = Some ts' -> Forall P ts'.
Proof.
  induction ts as [|t ts IH]; intros b ts' Hts Hb H.
  - cbn [inst_terms] in H. injection H as H. subst. constructor.
  - inversion Hts as [|x l Ht Hts']; subst.
    destruct t as [[k|z|s|d|bs|bo]|l]; cbn [inst_terms] in H.
    + destruct (lookup b k) as [v|] eqn:Hl; [|discriminate H].
      destruct (inst_terms ts b) as [r|] eqn:Hr; [|discriminate H].
      injection H as H. subst. constructor.
      * eapply lookup_ok; eassumption.
      * eapply IH; [exact Hts' | exact Hb | exact Hr].
    + destruct (inst_terms ts b) as [r|] eqn:Hr; [|discriminate H].
      injection H as H. subst. constructor; [exact Ht | eapply IH; eassumption].
    + destruct (inst_terms ts b) as [r|] eqn:Hr; [|discriminate H].
      injection H as H. subst. constructor; [exact Ht | eapply IH; eassumption].
    + destruct (inst_terms ts b) as [r|] eqn:Hr; [|discriminate H].
      injection H as H. subst. constructor; [exact Ht | eapply IH; eassumption].
    + destruct (inst_terms ts b) as [r|] eqn:Hr; [|discriminate H].
      injection H as H. subst. constructor; [exact Ht | eapply IH; eassumption].
    + destruct (inst_terms ts b) as [r|] eqn:Hr; [|discriminate H].
      injection H as H. subst. constructor; [exact Ht | eapply IH; eassumption].
    + destruct (inst_terms ts b) as [r|] eqn:Hr; [|discriminate H].
      injection H as H. subst. constructor; [exact Ht | eapply IH; eassumption].
Qed.

Lemma setfree_pred_Forall p :
  setfree_pred p = true <-> Forall (fun t => setfree_term t = true) (p_terms p).
Proof.
  unfold setfree_pred. rewrite forallb_forall, Forall_forall. reflexivity.
Qed.

Lemma inst_head_setfree c b h f ps :
  Forall (fun g => setfree_pred g = true) c -> setfree_pred h = true ->
  bind_all ps c [] = Some b -> inst_head h b = Some f -> setfree_pred f = true.
Proof.
  intros Hc Hh Hb Hi.
  assert (Hv : vals_ok (fun t => setfree_term t = true) b).
  { eapply bind_all_ok; [| constructor | exact Hb].
    eapply Forall_impl; [|exact Hc]. intros g Hg. apply setfree_pred_Forall. exact Hg. }
  unfold inst_head in Hi.
  destruct (inst_terms (p_terms h) b) as [ts|] eqn:Ht; [|discriminate Hi].
  injection Hi as Hi. subst f. apply setfree_pred_Forall. cbn [p_terms].
  eapply inst_terms_ok; [| exact Hv | exact Ht].
  apply setfree_pred_Forall. exact Hh.
Qed.

(* ------------------------------------------------------------------ *)
(** * The tuples enumerated by [combos] *)

Lemma combos_in ps fs : forall c,
  In c (combos ps fs) <->
  Forall (fun g => In g fs) c /\ Forall2 (fun g p => pred_match g p = true) c ps.
Proof.
  induction ps as [|p ps IH]; intros c; cbn [combos].
  - split.
    + intros [H|[]]. subst c. split; constructor.
    + intros [_ H]. inversion H; subst. left; reflexivity.
  - rewrite in_flat_map. split.
    + intros [f [Hf Hc]]. apply filter_In in Hf as [Hf Hm].
      apply in_map_iff in Hc as [c' [Hc Hc']]. subst c.
      apply IH in Hc' as [Ha Hb]. split; constructor; assumption.
    + intros [Ha Hb]. inversion Hb as [|f p' c' ps' Hm Hb']; subst.
      inversion Ha as [|x l Hf Ha']; subst.
      exists f. split.
      * apply filter_In. split; assumption.
      * apply in_map. apply IH. split; assumption.
Qed.

(* ------------------------------------------------------------------ *)
(** * Outcomes of expression evaluation: never Panic, only expression errors *)

Definition expr_err (e : err) : bool :=
  match e with
  | EDivZero | EOverflow | EIllTyped | EUnknownVar | ERegex => true
  | _ => false
  end.

Definition good_res {A} (x : res A) : Prop :=
  match x with Ok _ => True | Err e => expr_err e = true | Panic _ => False end.

Lemma bind_good {A B} (r : res A) (f : A -> res B) :
  good_res r -> (forall a, good_res (f a)) -> good_res (bind r f).
Proof.
  destruct r as [a|e|s]; cbn [bind good_res]; intros H Hf; [apply Hf | exact H | exact H].
Qed.

Lemma checked_good z : good_res (checked z).
Proof. unfold checked. destruct (in_int64 z); [exact I | exact eq_refl]. Qed.

Lemma eval_unary_good u v : good_res (eval_unary u v).
Proof.
  destruct u; destruct v as [[k|z|s|d|bs|bo]|l]; cbn [eval_unary];
    first [exact I | exact eq_refl].
Qed.

Lemma push_good st v : good_res (push st v).
Proof. unfold push. destruct (max_stack <=? length st); [exact eq_refl | exact I]. Qed.

Section WithRx.
Variable rx : bytes -> bytes -> option bool.

Lemma eval_binary_good o l r : good_res (eval_binary rx o l r).
Proof.
  destruct o; destruct l as [[lk|lz|ls|ld|lb|lo]|ll]; destruct r as [[rk|rz|rs|rd|rb|ro]|rl];
    cbn -[checked Z.quot Z.eqb Z.add Z.sub Z.mul];
    try exact I; try exact eq_refl; try apply checked_good.
  all: try (destruct (rx _ _); [exact I | exact eq_refl]).
  all: try (destruct (Z.eqb _ _); [exact eq_refl | apply checked_good]).
Qed.

Lemma step_good b st o : good_res (step rx b st o).
Proof.
  destruct o as [t|u|o].
  - destruct t as [[k|z|s|d|bs|bo]|l]; cbn [step]; try apply push_good.
    destruct (lookup b k); [apply push_good | exact eq_refl].
  - cbn [step]. destruct st as [|v st]; [exact eq_refl|].
    apply bind_good; [apply eval_unary_good | intros a; apply push_good].
  - cbn [step]. destruct st as [|r [|l st]]; try exact eq_refl.
    apply bind_good; [apply eval_binary_good | intros a; apply push_good].
Qed.

Lemma run_ops_good b e : forall st, good_res (run_ops rx b st e).
Proof.
  induction e as [|o e IH]; intros st; cbn [run_ops]; [exact I|].
  apply bind_good; [apply step_good | intros st'; apply IH].
Qed.

Lemma eval_good e b : good_res (eval rx e b).
Proof.
  unfold eval. apply bind_good; [apply run_ops_good|].
  intros st. destruct st as [|v [|w st]]; first [exact I | exact eq_refl].
Qed.

Lemma eval_exprs_good es b : good_res (eval_exprs rx es b).
Proof.
  induction es as [|e es IH]; cbn [eval_exprs]; [exact I|].
  apply bind_good; [apply eval_good|].
  intros v. destruct (term_eqb v (TA (ABool true))); [exact IH | exact I].
Qed.

(* ------------------------------------------------------------------ *)
(** * One candidate tuple, the stream consumer, one rule, one round *)

Definition fires (r : rule) (c : list pred) (b : bindings) (f : pred) : Prop :=
  bind_all (r_body r) c [] = Some b /\
  eval_exprs rx (r_exprs r) b = Ok true /\
  inst_head (r_head r) b = Some f.

Inductive tout := TSkip | TEmit (f : pred) | TStop (e : err).

Definition tuple_out (r : rule) (c : list pred) : tout :=
  match bind_all (r_body r) c [] with
  | None => TSkip
  | Some b =>
      match eval_exprs rx (r_exprs r) b with
      | Err e => TStop e
      | Panic _ => TStop EOther
      | Ok false => TSkip
      | Ok true =>
          match inst_head (r_head r) b with
          | None => TStop EInvalidRule
          | Some f => TEmit f
          end
      end
  end.

Lemma consume_step r c cs acc :
  consume rx r (c :: cs) acc =
  match tuple_out r c with
  | TSkip => consume rx r cs acc
  | TEmit f => consume rx r cs (insert_fact acc f)
  | TStop e => (acc, Some e)
  end.
Proof.
  unfold tuple_out. cbn [consume].
  destruct (bind_all (r_body r) c []) as [b|]; [|reflexivity].
  destruct (eval_exprs rx (r_exprs r) b) as [[|]|e|s]; try reflexivity.
  destruct (inst_head (r_head r) b); reflexivity.
Qed.

Lemma tuple_out_emit r c f : tuple_out r c = TEmit f <-> exists b, fires r c b f.
Proof.
  unfold tuple_out, fires. split.
  - destruct (bind_all (r_body r) c []) as [b|] eqn:Hb; [|discriminate].
    destruct (eval_exprs rx (r_exprs r) b) as [[|]|e|s] eqn:He; try discriminate.
    destruct (inst_head (r_head r) b) as [g|] eqn:Hh; try discriminate.
    intro H. injection H as H. subst g. exists b. auto.
  - intros [b [Hb [He Hh]]]. rewrite Hb, He, Hh. reflexivity.
Qed.

Lemma tuple_out_stop r c e :
  tuple_out r c = TStop e ->
  exists b, bind_all (r_body r) c [] = Some b /\
    ((eval_exprs rx (r_exprs r) b = Err e /\ expr_err e = true) \/
     (eval_exprs rx (r_exprs r) b = Ok true /\ inst_head (r_head r) b = None /\ e = EInvalidRule)).
Proof.
  unfold tuple_out.
  destruct (bind_all (r_body r) c []) as [b|] eqn:Hb; [|discriminate].
  pose proof (eval_exprs_good (r_exprs r) b) as Hg.
  destruct (eval_exprs rx (r_exprs r) b) as [[|]|e0|s] eqn:He; cbn [good_res] in Hg.
  - destruct (inst_head (r_head r) b) as [g|] eqn:Hh; [discriminate|].
    intro H. injection H as H. subst e. exists b. split; [reflexivity|]. right. auto.
  - discriminate.
  - intro H. injection H as H. subst e0. exists b. split; [reflexivity|]. left. auto.
  - destruct Hg.
Qed.

Lemma consume_in r cs : forall acc acc' e,
  consume rx r cs acc = (acc', e) ->
  forall f, In f acc' -> In f acc \/ exists c b, In c cs /\ fires r c b f.
Proof.
  induction cs as [|c cs IH]; intros acc acc' e H f Hf.
  - cbn [consume] in H. injection H as H1 H2. subst. left; exact Hf.
  - rewrite consume_step in H. destruct (tuple_out r c) as [|g|e0] eqn:Ht.
    + destruct (IH _ _ _ H f Hf) as [Hi|[c0 [b [Hc Hfi]]]]; [left; exact Hi|].
      right. exists c0, b. split; [right; exact Hc | exact Hfi].
    + destruct (IH _ _ _ H f Hf) as [Hi|[c0 [b [Hc Hfi]]]].
      * apply insert_fact_in_inv in Hi as [Hi|Hi]; [left; exact Hi|].
        subst g. apply tuple_out_emit in Ht as [b Hb].
        right. exists c, b. split; [left; reflexivity | exact Hb].
      * right. exists c0, b. split; [right; exact Hc | exact Hfi].
    + injection H as H1 H2. subst. left; exact Hf.
Qed.

Lemma consume_incl r cs : forall acc acc' e,
  consume rx r cs acc = (acc', e) -> forall g, In g acc -> In g acc'.
Proof.
  induction cs as [|c cs IH]; intros acc acc' e H g Hg.
  - cbn [consume] in H. injection H as H1 H2. subst. exact Hg.
  - rewrite consume_step in H. destruct (tuple_out r c) as [|f|e0].
    + eapply IH; eassumption.
    + eapply IH; [exact H|]. apply insert_fact_incl. exact Hg.
    + injection H as H1 H2. subst. exact Hg.
Qed.

Lemma consume_complete r cs : forall acc acc' c f,
  consume rx r cs acc = (acc', None) -> In c cs -> tuple_out r c = TEmit f ->
  fact_in f acc' = true.
Proof.
  induction cs as [|c0 cs IH]; intros acc acc' c f H Hc Ht; [destruct Hc|].
  rewrite consume_step in H. destruct Hc as [Hc|Hc].
  - subst c0. rewrite Ht in H.
    eapply fact_in_mono; [eapply consume_incl; exact H | apply insert_fact_self].
  - destruct (tuple_out r c0) as [|g|e0].
    + eapply IH; eassumption.
    + eapply IH; eassumption.
    + discriminate H.
Qed.

Lemma consume_err_indep r cs : forall acc acc2,
  snd (consume rx r cs acc) = snd (consume rx r cs acc2).
Proof.
  induction cs as [|c cs IH]; intros acc acc2; [reflexivity|].
  rewrite !consume_step. destruct (tuple_out r c) as [|g|e0]; [apply IH | apply IH | reflexivity].
Qed.

Lemma consume_err r cs : forall acc acc' e,
  consume rx r cs acc = (acc', Some e) -> exists c, In c cs /\ tuple_out r c = TStop e.
Proof.
  induction cs as [|c cs IH]; intros acc acc' e H.
  - cbn [consume] in H. discriminate H.
  - rewrite consume_step in H. destruct (tuple_out r c) as [|g|e0] eqn:Ht.
    + destruct (IH _ _ _ H) as [c0 [Hc Hs]]. exists c0. split; [right; exact Hc | exact Hs].
    + destruct (IH _ _ _ H) as [c0 [Hc Hs]]. exists c0. split; [right; exact Hc | exact Hs].
    + injection H as H1 H2. subst. exists c. split; [left; reflexivity | exact Ht].
Qed.

Lemma apply_rules_cons r rs fs acc :
  apply_rules rx (r :: rs) fs acc =
  match apply_rule rx r fs acc with
  | (acc', None) => apply_rules rx rs fs acc'
  | (acc', Some e) => (acc', Some e)
  end.
Proof. reflexivity. Qed.

Lemma apply_rules_in rs fs : forall acc acc' e,
  apply_rules rx rs fs acc = (acc', e) ->
  forall f, In f acc' ->
  In f acc \/ exists r c b, In r rs /\ In c (combos (r_body r) fs) /\ fires r c b f.
Proof.
  induction rs as [|r rs IH]; intros acc acc' e H f Hf.
  - cbn [apply_rules] in H. injection H as H1 H2. subst. left; exact Hf.
  - rewrite apply_rules_cons in H.
    destruct (apply_rule rx r fs acc) as [acc1 [e1|]] eqn:Hr.
    + injection H as H1 H2. subst. unfold apply_rule in Hr.
      destruct (consume_in _ _ _ _ _ Hr f Hf) as [Hi|[c [b [Hc Hfi]]]]; [left; exact Hi|].
      right. exists r, c, b. split; [left; reflexivity | split; assumption].
    + destruct (IH _ _ _ H f Hf) as [Hi|[r0 [c [b [Hr0 [Hc Hfi]]]]]].
      * unfold apply_rule in Hr.
        destruct (consume_in _ _ _ _ _ Hr f Hi) as [Hi'|[c [b [Hc Hfi]]]]; [left; exact Hi'|].
        right. exists r, c, b. split; [left; reflexivity | split; assumption].
      * right. exists r0, c, b. split; [right; exact Hr0 | split; assumption].
Qed.

Lemma apply_rules_incl rs fs : forall acc acc' e,
  apply_rules rx rs fs acc = (acc', e) -> forall g, In g acc -> In g acc'.
Proof.
  induction rs as [|r rs IH]; intros acc acc' e H g Hg.
  - cbn [apply_rules] in H. injection H as H1 H2. subst. exact Hg.
  - rewrite apply_rules_cons in H.
    destruct (apply_rule rx r fs acc) as [acc1 [e1|]] eqn:Hr; unfold apply_rule in Hr.
    + injection H as H1 H2. subst. eapply consume_incl; eassumption.
    + eapply IH; [exact H|]. eapply consume_incl; eassumption.
Qed.

Lemma apply_rules_complete rs fs : forall acc acc' r c f,
  apply_rules rx rs fs acc = (acc', None) ->
  In r rs -> In c (combos (r_body r) fs) -> tuple_out r c = TEmit f ->
  fact_in f acc' = true.
Proof.
  induction rs as [|r0 rs IH]; intros acc acc' r c f H Hr Hc Ht; [destruct Hr|].
  rewrite apply_rules_cons in H.
  destruct (apply_rule rx r0 fs acc) as [acc1 [e1|]] eqn:Hr0; [discriminate H|].
  destruct Hr as [Hr|Hr].
  - subst r0. unfold apply_rule in Hr0.
    eapply fact_in_mono; [eapply apply_rules_incl; exact H|].
    eapply consume_complete; eassumption.
  - eapply IH; eassumption.
Qed.

Lemma apply_rules_ok_each rs fs : forall acc acc' r,
  apply_rules rx rs fs acc = (acc', None) -> In r rs -> snd (apply_rule rx r fs []) = None.
Proof.
  induction rs as [|r0 rs IH]; intros acc acc' r H Hr; [destruct Hr|].
  rewrite apply_rules_cons in H.
  destruct (apply_rule rx r0 fs acc) as [acc1 [e1|]] eqn:Hr0; [discriminate H|].
  destruct Hr as [Hr|Hr].
  - subst r0. unfold apply_rule in *.
    rewrite (consume_err_indep r (combos (r_body r) fs) [] acc). rewrite Hr0. reflexivity.
  - eapply IH; eassumption.
Qed.

Lemma apply_rules_err rs fs : forall acc acc' e,
  apply_rules rx rs fs acc = (acc', Some e) ->
  exists r c, In r rs /\ In c (combos (r_body r) fs) /\ tuple_out r c = TStop e.
Proof.
  induction rs as [|r rs IH]; intros acc acc' e H.
  - cbn [apply_rules] in H. discriminate H.
  - rewrite apply_rules_cons in H.
    destruct (apply_rule rx r fs acc) as [acc1 [e1|]] eqn:Hr.
    + injection H as H1 H2. subst. unfold apply_rule in Hr.
      apply consume_err in Hr as [c [Hc Hs]].
      exists r, c. split; [left; reflexivity | split; assumption].
    + destruct (IH _ _ _ H) as [r0 [c [Hr0 [Hc Hs]]]].
      exists r0, c. split; [right; exact Hr0 | split; assumption].
Qed.

(* an error that comes out of a round is an expression error or InvalidRule *)
Lemma apply_rules_err_class rs fs acc acc' e :
  apply_rules rx rs fs acc = (acc', Some e) -> expr_err e = true \/ e = EInvalidRule.
Proof.
  intro H. apply apply_rules_err in H as [r [c [_ [_ Hs]]]].
  apply tuple_out_stop in Hs as [b [_ [[_ He]|[_ [_ He]]]]]; [left; exact He | right; exact He].
Qed.

(* ------------------------------------------------------------------ *)
(** * The iteration *)

Lemma run_loop_S fuel mf rs cur :
  run_loop rx (S fuel) mf rs cur =
  match apply_rules rx rs cur [] with
  | (_, Some e) => (cur, Some e)
  | (nf, None) =>
      if (mf <=? lenN (insert_all cur nf))%N then (insert_all cur nf, Some EMaxFacts)
      else if Nat.eqb (length (insert_all cur nf)) (length cur) then (insert_all cur nf, None)
      else run_loop rx fuel mf rs (insert_all cur nf)
  end.
Proof. reflexivity. Qed.

(* every outcome's world is reached from the start by error-free rounds *)
Lemma run_loop_inv (I : list pred -> Prop) mf rs :
  (forall cur nf, I cur -> apply_rules rx rs cur [] = (nf, None) -> I (insert_all cur nf)) ->
  forall fuel cur fs e, I cur -> run_loop rx fuel mf rs cur = (fs, e) -> I fs.
Proof.
  intros Hstep. induction fuel as [|fuel IH]; intros cur fs e Hc H.
  - cbn [run_loop] in H. injection H as H1 H2. subst. exact Hc.
  - rewrite run_loop_S in H.
    destruct (apply_rules rx rs cur []) as [nf [e1|]] eqn:Ha.
    + injection H as H1 H2. subst. exact Hc.
    + pose proof (Hstep cur nf Hc Ha) as Hn.
      destruct (mf <=? lenN (insert_all cur nf))%N.
      * injection H as H1 H2. subst. exact Hn.
      * destruct (Nat.eqb (length (insert_all cur nf)) (length cur)).
        -- injection H as H1 H2. subst. exact Hn.
        -- eapply IH; eassumption.
Qed.

(* success: the last round was error-free and added nothing *)
Lemma run_loop_ok mf rs : forall fuel cur fs,
  run_loop rx fuel mf rs cur = (fs, None) ->
  exists nf, apply_rules rx rs fs [] = (nf, None) /\ insert_all fs nf = fs /\
             (lenN fs < mf)%N.
Proof.
  induction fuel as [|fuel IH]; intros cur fs H.
  - cbn [run_loop] in H. discriminate H.
  - rewrite run_loop_S in H.
    destruct (apply_rules rx rs cur []) as [nf [e1|]] eqn:Ha; [discriminate H|].
    destruct (mf <=? lenN (insert_all cur nf))%N eqn:Hm; [discriminate H|].
    destruct (Nat.eqb (length (insert_all cur nf)) (length cur)) eqn:Hl.
    + injection H as Hfs. apply Nat.eqb_eq in Hl.
      apply insert_all_same_len in Hl as [Heq _].
      rewrite Heq in Hfs, Hm. subst fs. exists nf.
      split; [exact Ha | split; [exact Heq | apply N.leb_gt; exact Hm]].
    + eapply IH; exact H.
Qed.

(* errors: which, and what they certify *)
Lemma run_loop_err mf rs : forall fuel cur fs e,
  run_loop rx fuel mf rs cur = (fs, Some e) ->
  (e = EMaxFacts /\ (mf <= lenN fs)%N) \/
  (e = EMaxIterations /\ length cur + fuel <= length fs) \/
  (exists nf, apply_rules rx rs fs [] = (nf, Some e)).
Proof.
  induction fuel as [|fuel IH]; intros cur fs e H.
  - cbn [run_loop] in H. injection H as H1 H2. subst. right; left. split; [reflexivity | lia].
  - rewrite run_loop_S in H.
    destruct (apply_rules rx rs cur []) as [nf [e1|]] eqn:Ha.
    + injection H as H1 H2. subst. right; right. exists nf. exact Ha.
    + destruct (mf <=? lenN (insert_all cur nf))%N eqn:Hm.
      * injection H as H1 H2. subst. left. split; [reflexivity | apply N.leb_le; exact Hm].
      * destruct (Nat.eqb (length (insert_all cur nf)) (length cur)) eqn:Hl; [discriminate H|].
        apply Nat.eqb_neq in Hl. pose proof (insert_all_length nf cur) as Hlen.
        destruct (IH _ _ _ H) as [H1|[[H1 H2]|H1]].
        -- left; exact H1.
        -- right; left. split; [exact H1 | lia].
        -- right; right; exact H1.
Qed.

(* ------------------------------------------------------------------ *)
(** * Declarative semantics *)

Inductive Derivable (rules : list rule) (facts : list pred) : pred -> Prop :=
| D_base f : In f facts -> Derivable rules facts f
| D_rule r c b f :
    In r rules ->
    Forall (Derivable rules facts) c ->
    Forall2 (fun g p => pred_match g p = true) c (r_body r) ->
    bind_all (r_body r) c [] = Some b ->
    eval_exprs rx (r_exprs r) b = Ok true ->
    inst_head (r_head r) b = Some f ->
    Derivable rules facts f.

Section DerivableInd.
  Variable rules : list rule.
  Variable facts : list pred.
  Variable P : pred -> Prop.
  Hypothesis Hbase : forall f, In f facts -> P f.
  Hypothesis Hrule : forall r c b f,
    In r rules ->
    Forall (Derivable rules facts) c -> Forall P c ->
    Forall2 (fun g p => pred_match g p = true) c (r_body r) ->
    bind_all (r_body r) c [] = Some b ->
    eval_exprs rx (r_exprs r) b = Ok true ->
    inst_head (r_head r) b = Some f ->
    P f.

  Lemma Derivable_strong_ind : forall f, Derivable rules facts f -> P f.
  Proof.
    fix IH 2. intros f d. destruct d as [f H | r c b f Hr Hc Hm Hb He Hh].
    - apply Hbase; exact H.
    - assert (Hall : Forall P c).
      { clear Hr Hm Hb He Hh. revert c Hc. fix IHc 2. intros c Hc.
        destruct Hc as [|x l Hx Hl].
        - constructor.
        - constructor; [apply IH; exact Hx | apply IHc; exact Hl]. }
      eapply Hrule; eassumption.
  Qed.
End DerivableInd.

Lemma Derivable_incl rules rules' facts facts' :
  incl rules rules' -> incl facts facts' ->
  forall f, Derivable rules facts f -> Derivable rules' facts' f.
Proof.
  intros Hr Hf. apply Derivable_strong_ind.
  - intros f H. apply D_base. apply Hf; exact H.
  - intros r c b f Hin _ Hall Hm Hb He Hh.
    eapply D_rule; [apply Hr; exact Hin | exact Hall | exact Hm | exact Hb | exact He | exact Hh].
Qed.

Lemma Derivable_perm rules rules' facts facts' :
  Permutation rules rules' -> Permutation facts facts' ->
  forall f, Derivable rules facts f <-> Derivable rules' facts' f.
Proof.
  intros Pr Pf f. split; apply Derivable_incl; intros x Hx.
  - eapply Permutation_in; eassumption.
  - eapply Permutation_in; eassumption.
  - eapply Permutation_in; [apply Permutation_sym|]; eassumption.
  - eapply Permutation_in; [apply Permutation_sym|]; eassumption.
Qed.

(* a tuple of world facts that fires gives a derivable head instance *)
Lemma fires_derivable rules facts cur r c b f :
  (forall g, In g cur -> Derivable rules facts g) ->
  In r rules -> In c (combos (r_body r) cur) -> fires r c b f -> Derivable rules facts f.
Proof.
  intros Hcur Hr Hc [Hb [He Hh]]. apply combos_in in Hc as [Ha Hm].
  eapply D_rule; [exact Hr | | exact Hm | exact Hb | exact He | exact Hh].
  eapply Forall_impl; [|exact Ha]. exact Hcur.
Qed.

(* ------------------------------------------------------------------ *)
(** * 2. Soundness — for every outcome, no set-free hypothesis *)

Theorem run_sound : forall lim rules facts fs e,
  run rx lim rules facts = (fs, e) ->
  forall f, In f fs -> Derivable rules facts f.
Proof.
  intros lim rules facts fs e H. unfold run in H.
  eapply (run_loop_inv (fun cur => forall f, In f cur -> Derivable rules facts f));
    [ | | exact H].
  - intros cur nf Hcur Ha f Hf. apply insert_all_in_inv in Hf as [Hf|Hf]; [apply Hcur; exact Hf|].
    destruct (apply_rules_in _ _ _ _ _ Ha f Hf) as [[]|[r [c [b [Hr [Hc Hfi]]]]]].
    eapply fires_derivable; eassumption.
  - intros f Hf. apply D_base; exact Hf.
Qed.

(** * 4. The world only grows, and stays duplicate-free *)

Theorem run_extends : forall lim rules facts fs e,
  run rx lim rules facts = (fs, e) -> forall f, In f facts -> In f fs.
Proof.
  intros lim rules facts fs e H. unfold run in H.
  eapply (run_loop_inv (fun cur => forall f, In f facts -> In f cur)); [ | | exact H].
  - intros cur nf Hcur _ f Hf. apply insert_all_incl. apply Hcur; exact Hf.
  - intros f Hf; exact Hf.
Qed.

(* stronger than asked: no set-free hypothesis is needed, [pred_eqb] is reflexive *)
Theorem run_nodup_gen : forall lim rules facts fs e,
  NoDup facts -> run rx lim rules facts = (fs, e) -> NoDup fs.
Proof.
  intros lim rules facts fs e Hn H. unfold run in H.
  eapply (run_loop_inv (@NoDup pred)); [ | exact Hn | exact H].
  intros cur nf Hcur _. apply insert_all_NoDup; exact Hcur.
Qed.

Theorem run_nodup : forall lim rules facts fs e,
  NoDup facts -> setfree_facts facts -> setfree_rules rules ->
  run rx lim rules facts = (fs, e) -> NoDup fs.
Proof. intros lim rules facts fs e Hn _ _ H. eapply run_nodup_gen; eassumption. Qed.

(* set-freeness of the world is an invariant *)
Lemma round_setfree rules cur nf e :
  setfree_rules rules -> setfree_facts cur ->
  apply_rules rx rules cur [] = (nf, e) -> setfree_facts nf.
Proof.
  intros Hr Hc Ha. unfold setfree_facts. apply Forall_forall. intros f Hf.
  destruct (apply_rules_in _ _ _ _ _ Ha f Hf) as [[]|[r [c [b [Hin [Hcm [Hb [_ Hh]]]]]]]].
  apply combos_in in Hcm as [Hall _].
  eapply inst_head_setfree; [ | | exact Hb | exact Hh].
  - eapply Forall_impl; [|exact Hall]. intros g Hg.
    unfold setfree_facts in Hc. rewrite Forall_forall in Hc. apply Hc; exact Hg.
  - unfold setfree_rules in Hr. rewrite Forall_forall in Hr. apply Hr; exact Hin.
Qed.

Lemma insert_all_setfree cur nf :
  setfree_facts cur -> setfree_facts nf -> setfree_facts (insert_all cur nf).
Proof.
  unfold setfree_facts. rewrite !Forall_forall. intros Hc Hn f Hf.
  apply insert_all_in_inv in Hf as [Hf|Hf]; [apply Hc | apply Hn]; exact Hf.
Qed.

Theorem run_setfree : forall lim rules facts fs e,
  setfree_facts facts -> setfree_rules rules ->
  run rx lim rules facts = (fs, e) -> setfree_facts fs.
Proof.
  intros lim rules facts fs e Hf Hr H. unfold run in H.
  eapply (run_loop_inv setfree_facts); [ | exact Hf | exact H].
  intros cur nf Hcur Ha. apply insert_all_setfree; [exact Hcur|].
  eapply round_setfree; eassumption.
Qed.

(** * 8 (first part). Success is only reported for a world closed under one more round *)

(* no hypothesis at all: the literal content of "the last round added nothing" *)
Theorem run_ok_round : forall lim rules facts fs,
  run rx lim rules facts = (fs, None) ->
  exists nf, apply_rules rx rules fs [] = (nf, None) /\ insert_all fs nf = fs /\
             (forall f, In f nf -> fact_in f fs = true) /\
             (lenN fs < max_facts lim)%N.
Proof.
  intros lim rules facts fs H. unfold run in H.
  apply run_loop_ok in H as [nf [Ha [Heq Hlt]]]. exists nf.
  split; [exact Ha | split; [exact Heq | split; [|exact Hlt]]].
  assert (Hl : length (insert_all fs nf) = length fs) by (rewrite Heq; reflexivity).
  apply insert_all_same_len in Hl as [_ Hall]. exact Hall.
Qed.

Theorem run_ok_no_rule_error : forall lim rules facts fs,
  run rx lim rules facts = (fs, None) ->
  forall r, In r rules -> snd (apply_rule rx r fs []) = None.
Proof.
  intros lim rules facts fs H r Hr.
  apply run_ok_round in H as [nf [Ha _]]. eapply apply_rules_ok_each; eassumption.
Qed.

(* closure: every head instance over the final world is already in it *)
Lemma run_ok_closed : forall lim rules facts fs,
  setfree_facts facts -> setfree_rules rules ->
  run rx lim rules facts = (fs, None) ->
  forall r c b f, In r rules -> In c (combos (r_body r) fs) -> fires r c b f -> In f fs.
Proof.
  intros lim rules facts fs Hsf Hsr H r c b f Hr Hc Hfi.
  pose proof (run_setfree _ _ _ _ _ Hsf Hsr H) as Hfs.
  apply run_ok_round in H as [nf [Ha [_ [Hall _]]]].
  assert (Ht : tuple_out r c = TEmit f) by (apply tuple_out_emit; exists b; exact Hfi).
  pose proof (apply_rules_complete _ _ _ _ _ _ _ Ha Hr Hc Ht) as Hin.
  pose proof (round_setfree _ _ _ _ Hsr Hfs Ha) as Hnf.
  apply fact_in_In in Hin; [|exact Hnf].
  apply fact_in_In; [exact Hfs | apply Hall; exact Hin].
Qed.

Theorem run_ok_is_fixpoint : forall lim rules facts fs,
  setfree_facts facts -> setfree_rules rules ->
  run rx lim rules facts = (fs, None) ->
  forall r, In r rules -> forall nf, apply_rule rx r fs [] = (nf, None) ->
  forall f, In f nf -> fact_in f fs = true.
Proof.
  intros lim rules facts fs Hsf Hsr H r Hr nf Hap f Hf.
  unfold apply_rule in Hap.
  destruct (consume_in _ _ _ _ _ Hap f Hf) as [[]|[c [b [Hc Hfi]]]].
  apply In_fact_in. eapply run_ok_closed; eassumption.
Qed.

(** * 3. Completeness *)

Theorem run_complete : forall lim rules facts fs,
  setfree_facts facts -> setfree_rules rules ->
  run rx lim rules facts = (fs, None) ->
  forall f, Derivable rules facts f -> In f fs.
Proof.
  intros lim rules facts fs Hsf Hsr H. apply Derivable_strong_ind.
  - intros f Hf. eapply run_extends; eassumption.
  - intros r c b f Hr _ Hall Hm Hb He Hh.
    eapply (run_ok_closed _ _ _ _ Hsf Hsr H r c b f Hr).
    + apply combos_in. split; [exact Hall | exact Hm].
    + unfold fires. auto.
Qed.

(** * 5. C05: the result is exactly the least model *)

Theorem C05_least_model : forall lim rules facts fs,
  NoDup facts -> setfree_facts facts -> setfree_rules rules ->
  run rx lim rules facts = (fs, None) ->
  (forall f, In f fs <-> Derivable rules facts f) /\ NoDup fs.
Proof.
  intros lim rules facts fs Hn Hsf Hsr H. split.
  - intros f. split.
    + eapply run_sound; exact H.
    + eapply run_complete; eassumption.
  - eapply run_nodup_gen; eassumption.
Qed.

(* "least": any set of facts that contains the base facts and is closed under
   the rules contains every derivable fact, hence the result of [run] *)
Theorem Derivable_least : forall rules facts (M : pred -> Prop),
  (forall f, In f facts -> M f) ->
  (forall r c b f, In r rules -> Forall M c ->
     Forall2 (fun g p => pred_match g p = true) c (r_body r) ->
     bind_all (r_body r) c [] = Some b -> eval_exprs rx (r_exprs r) b = Ok true ->
     inst_head (r_head r) b = Some f -> M f) ->
  forall f, Derivable rules facts f -> M f.
Proof.
  intros rules facts M Hb Hc. apply Derivable_strong_ind; [exact Hb|].
  intros r c b f Hr _ Hall Hm Hbd He Hh. eapply Hc; eassumption.
Qed.

(** * 6. Queries *)

Theorem query_exact : forall r fs,
  setfree_facts fs -> setfree_pred (r_head r) = true ->
  snd (apply_rule rx r fs []) = None ->
  forall h, In h (query_rule rx r fs) <->
    exists c b,
      Forall (fun g => In g fs) c /\
      Forall2 (fun g p => pred_match g p = true) c (r_body r) /\
      bind_all (r_body r) c [] = Some b /\
      eval_exprs rx (r_exprs r) b = Ok true /\
      inst_head (r_head r) b = Some h.
Proof.
  intros r fs Hfs Hh Hno h. unfold query_rule.
  destruct (apply_rule rx r fs []) as [res e] eqn:Hap. cbn [fst snd] in *. subst e.
  unfold apply_rule in Hap. split.
  - intro Hin. destruct (consume_in _ _ _ _ _ Hap h Hin) as [[]|[c [b [Hc [Hb [He Hi]]]]]].
    apply combos_in in Hc as [Ha Hm]. exists c, b. auto.
  - intros [c [b [Ha [Hm [Hb [He Hi]]]]]].
    assert (Hc : In c (combos (r_body r) fs)) by (apply combos_in; split; assumption).
    assert (Ht : tuple_out r c = TEmit h).
    { apply tuple_out_emit. exists b. unfold fires. auto. }
    pose proof (consume_complete _ _ _ _ _ _ Hap Hc Ht) as Hfi.
    unfold fact_in in Hfi. apply existsb_exists in Hfi as [g [Hg Heq]].
    assert (Hsh : setfree_pred h = true).
    { eapply inst_head_setfree; [ | exact Hh | exact Hb | exact Hi].
      eapply Forall_impl; [|exact Ha]. intros x Hx.
      unfold setfree_facts in Hfs. rewrite Forall_forall in Hfs. apply Hfs; exact Hx. }
    apply pred_eqb_true_r in Heq; [|exact Hsh]. subst g. exact Hg.
Qed.

(* the left-to-right direction holds for every rule, every world and every outcome *)
Theorem query_sound : forall r fs h,
  In h (query_rule rx r fs) ->
  exists c b,
    Forall (fun g => In g fs) c /\
    Forall2 (fun g p => pred_match g p = true) c (r_body r) /\
    bind_all (r_body r) c [] = Some b /\
    eval_exprs rx (r_exprs r) b = Ok true /\
    inst_head (r_head r) b = Some h.
Proof.
  intros r fs h. unfold query_rule.
  destruct (apply_rule rx r fs []) as [res e] eqn:Hap. cbn [fst]. unfold apply_rule in Hap.
  intro Hin. destruct (consume_in _ _ _ _ _ Hap h Hin) as [[]|[c [b [Hc [Hb [He Hi]]]]]].
  apply combos_in in Hc as [Ha Hm]. exists c, b. auto.
Qed.

(** * 8 (rest). Limits *)

Theorem run_max_facts : forall lim rules facts fs,
  run rx lim rules facts = (fs, Some EMaxFacts) -> (max_facts lim <= lenN fs)%N.
Proof.
  intros lim rules facts fs H. unfold run in H.
  apply run_loop_err in H as [[_ H]|[[H _]|[nf H]]].
  - exact H.
  - discriminate H.
  - apply apply_rules_err_class in H as [H|H]; discriminate H.
Qed.

Theorem run_ok_below_max_facts : forall lim rules facts fs,
  run rx lim rules facts = (fs, None) -> (lenN fs < max_facts lim)%N.
Proof.
  intros lim rules facts fs H. apply run_ok_round in H as [nf [_ [_ [_ H]]]]. exact H.
Qed.

Theorem run_max_iterations_zero : forall lim rules facts,
  max_iterations lim = 0%N -> run rx lim rules facts = (facts, Some EMaxIterations).
Proof. intros lim rules facts H. unfold run. rewrite H. reflexivity. Qed.

(* MaxIterations certifies that every one of the [max_iterations] rounds grew the world *)
Theorem run_max_iterations_grew : forall lim rules facts fs,
  run rx lim rules facts = (fs, Some EMaxIterations) ->
  length facts + N.to_nat (max_iterations lim) <= length fs.
Proof.
  intros lim rules facts fs H. unfold run in H.
  apply run_loop_err in H as [[H _]|[[_ H]|[nf H]]].
  - discriminate H.
  - exact H.
  - apply apply_rules_err_class in H as [H|H]; discriminate H.
Qed.

Theorem run_error_cases : forall lim rules facts fs e,
  run rx lim rules facts = (fs, Some e) ->
  e = EMaxFacts \/ e = EMaxIterations \/
  exists r c b,
    In r rules /\
    Forall (fun g => In g fs) c /\
    Forall2 (fun g p => pred_match g p = true) c (r_body r) /\
    bind_all (r_body r) c [] = Some b /\
    ((eval_exprs rx (r_exprs r) b = Err e /\ expr_err e = true) \/
     (eval_exprs rx (r_exprs r) b = Ok true /\ inst_head (r_head r) b = None /\
      e = EInvalidRule)).
Proof.
  intros lim rules facts fs e H. unfold run in H.
  apply run_loop_err in H as [[H _]|[[H _]|[nf H]]].
  - left; exact H.
  - right; left; exact H.
  - right; right. apply apply_rules_err in H as [r [c [Hr [Hc Hs]]]].
    apply combos_in in Hc as [Ha Hm]. apply tuple_out_stop in Hs as [b [Hb Hcase]].
    exists r, c, b. auto.
Qed.

(* the three error families are disjoint: a rule error is never a limit error *)
Lemma expr_err_not_limit e :
  expr_err e = true \/ e = EInvalidRule -> e <> EMaxFacts /\ e <> EMaxIterations.
Proof. intros [H|H]; split; intro Hc; subst; discriminate. Qed.

(** * 7. Order independence *)

Theorem run_perm : forall lim lim' rules rules' facts facts' a b,
  setfree_facts facts -> setfree_rules rules -> NoDup facts ->
  Permutation facts facts' -> Permutation rules rules' ->
  run rx lim rules facts = (a, None) -> run rx lim' rules' facts' = (b, None) ->
  Permutation a b.
Proof.
  intros lim lim' rules rules' facts facts' a b Hsf Hsr Hn Pf Pr Ha Hb.
  assert (Hsf' : setfree_facts facts').
  { unfold setfree_facts in *. rewrite Forall_forall in *. intros x Hx. apply Hsf.
    eapply Permutation_in; [apply Permutation_sym; exact Pf | exact Hx]. }
  assert (Hsr' : setfree_rules rules').
  { unfold setfree_rules in *. rewrite Forall_forall in *. intros x Hx. apply Hsr.
    eapply Permutation_in; [apply Permutation_sym; exact Pr | exact Hx]. }
  assert (Hn' : NoDup facts') by (eapply Permutation_NoDup; eassumption).
  destruct (C05_least_model _ _ _ _ Hn Hsf Hsr Ha) as [Hma Hna].
  destruct (C05_least_model _ _ _ _ Hn' Hsf' Hsr' Hb) as [Hmb Hnb].
  apply NoDup_Permutation; [exact Hna | exact Hnb|].
  intros f. rewrite Hma, Hmb. apply Derivable_perm; assumption.
Qed.

End WithRx.

(* ------------------------------------------------------------------ *)
(** * 9. Concrete programs *)

Definition rx0 : bytes -> bytes -> option bool := fun _ _ => None.
Definition lim0 : limits := {| max_facts := 1000%N; max_iterations := 100%N |}.

Definition tstr (n : N) : term := TA (AStr [n]).
Definition tvar (n : N) : term := TA (AVar [n]).
Definition tint (z : Z) : term := TA (AInt z).

(* parent = "p", ancestor = "a"; $x $y $z = 120 121 122 *)
Definition parent (a b : term) : pred := {| p_name := [112%N]; p_terms := [a; b] |}.
Definition ancestor (a b : term) : pred := {| p_name := [97%N]; p_terms := [a; b] |}.

Definition anc_facts : list pred :=
  [parent (tstr 1) (tstr 2); parent (tstr 2) (tstr 3); parent (tstr 3) (tstr 4)].

Definition anc_rules : list rule :=
  [ {| r_head := ancestor (tvar 120) (tvar 121);
       r_body := [parent (tvar 120) (tvar 121)];
       r_exprs := [] |};
    {| r_head := ancestor (tvar 120) (tvar 122);
       r_body := [parent (tvar 120) (tvar 121); ancestor (tvar 121) (tvar 122)];
       r_exprs := [] |} ].

(* two-way join + recursion: 3 parent facts, 6 ancestor facts, in the order the
   rounds produce them *)
Example anc_run :
  run rx0 lim0 anc_rules anc_facts =
  (anc_facts ++
   [ancestor (tstr 1) (tstr 2); ancestor (tstr 2) (tstr 3); ancestor (tstr 3) (tstr 4);
    ancestor (tstr 1) (tstr 3); ancestor (tstr 2) (tstr 4); ancestor (tstr 1) (tstr 4)],
   None).
Proof. vm_compute. reflexivity. Qed.

Example anc_run_length :
  length (fst (run rx0 lim0 anc_rules anc_facts)) = 9 /\
  snd (run rx0 lim0 anc_rules anc_facts) = None.
Proof. split; vm_compute; reflexivity. Qed.

(* the hypotheses of the main theorems hold of this program *)
Example anc_setfree_facts : setfree_facts anc_facts.
Proof. repeat constructor. Qed.
Example anc_setfree_rules : setfree_rules anc_rules.
Proof. repeat constructor. Qed.
Example anc_nodup : NoDup anc_facts.
Proof. repeat constructor; cbn [In anc_facts]; intuition discriminate. Qed.

(* C05 instantiated: membership in the computed world is derivability *)
Example anc_least_model :
  (forall f, In f (fst (run rx0 lim0 anc_rules anc_facts)) <-> Derivable rx0 anc_rules anc_facts f)
  /\ NoDup (fst (run rx0 lim0 anc_rules anc_facts)).
Proof.
  apply (C05_least_model rx0 lim0); [exact anc_nodup | exact anc_setfree_facts
    | exact anc_setfree_rules | vm_compute; reflexivity].
Qed.

Example anc_derivable_1_4 : Derivable rx0 anc_rules anc_facts (ancestor (tstr 1) (tstr 4)).
Proof.
  destruct anc_least_model as [H _]. refine (proj1 (H _) _). vm_compute.
  repeat ((left; reflexivity) || right).
Qed.

(* order independence on the same program with both lists reversed *)
Example anc_perm :
  Permutation (fst (run rx0 lim0 anc_rules anc_facts))
              (fst (run rx0 lim0 (rev anc_rules) (rev anc_facts))).
Proof.
  eapply (run_perm rx0 lim0 lim0 anc_rules (rev anc_rules) anc_facts (rev anc_facts));
    [exact anc_setfree_facts | exact anc_setfree_rules | exact anc_nodup
    | apply Permutation_rev | apply Permutation_rev
    | vm_compute; reflexivity | vm_compute; reflexivity].
Qed.

(* the reversed program really produces a different order, same set *)
Example anc_perm_order_differs :
  fst (run rx0 lim0 (rev anc_rules) (rev anc_facts)) <> fst (run rx0 lim0 anc_rules anc_facts).
Proof. vm_compute. discriminate. Qed.

(* a query with a repeated variable, a constant and an expression:
   big($x) <- n($x, $x, 7), $x > 1 *)
Definition nfact (a b c : term) : pred := {| p_name := [110%N]; p_terms := [a; b; c] |}.
Definition big (a : term) : pred := {| p_name := [98%N]; p_terms := [a] |}.
Definition q_facts : list pred :=
  [nfact (tint 1) (tint 1) (tint 7); nfact (tint 2) (tint 2) (tint 7);
   nfact (tint 3) (tint 4) (tint 7); nfact (tint 5) (tint 5) (tint 8);
   nfact (tint 6) (tint 6) (tint 7)].
Definition q_rule : rule :=
  {| r_head := big (tvar 120);
     r_body := [nfact (tvar 120) (tvar 120) (tint 7)];
     r_exprs := [[OVal (tvar 120); OVal (tint 1); OBin BGreaterThan]] |}.

Example q_run : query_rule rx0 q_rule q_facts = [big (tint 2); big (tint 6)].
Proof. vm_compute. reflexivity. Qed.

Example q_hyps :
  setfree_facts q_facts /\ setfree_pred (r_head q_rule) = true /\
  snd (apply_rule rx0 q_rule q_facts []) = None.
Proof. split; [repeat constructor | split; vm_compute; reflexivity]. Qed.

Example q_exact_instance :
  exists c b,
    Forall (fun g => In g q_facts) c /\
    Forall2 (fun g p => pred_match g p = true) c (r_body q_rule) /\
    bind_all (r_body q_rule) c [] = Some b /\
    eval_exprs rx0 (r_exprs q_rule) b = Ok true /\
    inst_head (r_head q_rule) b = Some (big (tint 6)).
Proof.
  destruct q_hyps as [H1 [H2 H3]].
  apply (query_exact rx0 q_rule q_facts H1 H2 H3). vm_compute. tauto.
Qed.

(* an expression error ends the stream; the query keeps what was produced before:
   big($x) <- n($x, $y, $z), 12 / ($y - 4) < 0 *)
Definition q_rule_err : rule :=
  {| r_head := big (tvar 120);
     r_body := [nfact (tvar 120) (tvar 121) (tvar 122)];
     r_exprs := [[OVal (tint 12); OVal (tvar 121); OVal (tint 4); OBin BSub; OBin BDiv;
                  OVal (tint 0); OBin BLessThan]] |}.
Example q_err_run :
  apply_rule rx0 q_rule_err q_facts [] = ([big (tint 1); big (tint 2)], Some EDivZero) /\
  run rx0 lim0 [q_rule_err] q_facts = (q_facts, Some EDivZero).
Proof. split; vm_compute; reflexivity. Qed.

(* a head variable missing from the body *)
Definition q_rule_invalid : rule :=
  {| r_head := big (tvar 119); r_body := [nfact (tvar 120) (tvar 121) (tvar 122)]; r_exprs := [] |}.
Example q_invalid_run :
  run rx0 lim0 [q_rule_invalid] q_facts = (q_facts, Some EInvalidRule).
Proof. vm_compute. reflexivity. Qed.

(* the set-free hypothesis of [run_complete] is necessary: with set constants
   Set.Equal identifies {1,1} with {1,2} (in that direction), so a derivable
   fact is swallowed by [insert_fact] *)
Definition sp (t : term) : pred := {| p_name := [112%N]; p_terms := [t] |}.
Definition sq (t : term) : pred := {| p_name := [113%N]; p_terms := [t] |}.
Definition set11 : term := TSet [AInt 1; AInt 1].
Definition set12 : term := TSet [AInt 1; AInt 2].
Definition set_rule : rule :=
  {| r_head := sq (tvar 120); r_body := [sp (tvar 120)]; r_exprs := [] |}.

Example run_complete_needs_setfree :
  run rx0 lim0 [set_rule] [sp set11; sp set12] = ([sp set11; sp set12; sq set11], None) /\
  Derivable rx0 [set_rule] [sp set11; sp set12] (sq set12) /\
  ~ In (sq set12) [sp set11; sp set12; sq set11].
Proof.
  split; [vm_compute; reflexivity | split].
  - apply (D_rule rx0 [set_rule] [sp set11; sp set12] set_rule [sp set12] [([120%N], set12)]).
    + left; reflexivity.
    + constructor; [apply D_base; right; left; reflexivity | constructor].
    + constructor; [vm_compute; reflexivity | constructor].
    + vm_compute; reflexivity.
    + vm_compute; reflexivity.
    + vm_compute; reflexivity.
  - cbn [In]. intuition discriminate.
Qed.

(* limits: a chain c1 <- c0, c2 <- c1, ..., c5 <- c4 over the single fact c0.
   (Heads only take body variables and constants, so no program of this model
   has an infinite least model; a chain longer than the limits plays the part
   of the diverging program.) *)
Definition cpred (i : N) : pred := {| p_name := [99%N; i]; p_terms := [] |}.
Definition crule (i : N) : rule :=
  {| r_head := cpred (i + 1); r_body := [cpred i]; r_exprs := [] |}.
Definition chain_rules : list rule := map crule [0; 1; 2; 3; 4]%N.

Example chain_ok :
  run rx0 lim0 chain_rules [cpred 0] = (map cpred [0; 1; 2; 3; 4; 5]%N, None).
Proof. vm_compute. reflexivity. Qed.

Example chain_hits_max_facts :
  run rx0 {| max_facts := 3%N; max_iterations := 100%N |} chain_rules [cpred 0]
  = (map cpred [0; 1; 2]%N, Some EMaxFacts).
Proof. vm_compute. reflexivity. Qed.

Example chain_hits_max_iterations :
  run rx0 {| max_facts := 1000%N; max_iterations := 2%N |} chain_rules [cpred 0]
  = (map cpred [0; 1; 2]%N, Some EMaxIterations).
Proof. vm_compute. reflexivity. Qed.

(* the limit is [>=]: a program whose least model has exactly max_facts facts fails *)
Example chain_exact_max_facts_fails :
  run rx0 {| max_facts := 6%N; max_iterations := 100%N |} chain_rules [cpred 0]
  = (map cpred [0; 1; 2; 3; 4; 5]%N, Some EMaxFacts).
Proof. vm_compute. reflexivity. Qed.

(* the fixpoint needs one more round than it has growing rounds: 5 growing rounds
   with max_iterations = 5 is an error although the world is already the least model *)
Example chain_exact_max_iterations_fails :
  run rx0 {| max_facts := 1000%N; max_iterations := 5%N |} chain_rules [cpred 0]
  = (map cpred [0; 1; 2; 3; 4; 5]%N, Some EMaxIterations).
Proof. vm_compute. reflexivity. Qed.

Print Assumptions run_sound.
Print Assumptions run_complete.
Print Assumptions C05_least_model.
Print Assumptions query_exact.
Print Assumptions run_perm.
Print Assumptions run_nodup.
Print Assumptions run_extends.
Print Assumptions run_ok_is_fixpoint.
Print Assumptions run_max_facts.
Print Assumptions run_max_iterations_grew.
Print Assumptions run_error_cases.
