(* DatalogProofs.v — the evaluator of Model/Datalog.v computes exactly the least
   fixpoint (C05) and honours its limits (C11 a).

   Equality.  [term_eqb] on [TSet] is Go's Set.Equal: same length and the same
   elements.  It is an equivalence relation ([term_eqb_refl/sym/trans], and
   [pred_eqb_refl/sym/trans] for facts) but not structural equality: [1,2] and
   [2,1] are Equal.  [insert_fact] keeps the first representative of a class, so
   the exactness theorems speak of facts up to Predicate.Equal ([fact_eqv], with
   the library's [InA], [NoDupA], [equivlistA], [PermutationA]).

   No fragment.  Matching, variable binding, head instantiation and every
   operator of the expression language respect Set.Equal ([eval_binary_rel];
   for [intersection] and [union] this is [set_intersect_equal] /
   [set_union_equal], true since these operators return each element once).
   Hence completeness modulo Equal ([run_complete]), the least-model theorem
   ([C05_least_model]), [query_exact] and order-independence ([run_equivlist],
   [run_perm]) hold for EVERY program: set constants with repeated elements
   and set operators included.  For set-free programs the statements with
   syntactic membership are kept as corollaries ([*_setfree]). *)
From Coq Require Import Arith PeanoNat Permutation SetoidList SetoidPermutation.
From BV Require Import Base Term Expr Datalog.

Local Open Scope nat_scope.

(* ------------------------------------------------------------------ *)
(** * Equality: Term.Equal, Predicate.Equal, and the set-free case *)

Definition setfree_term (t : term) : bool :=
  match t with TSet _ => false | TA _ => true end.
Definition setfree_pred (p : pred) : bool := forallb setfree_term (p_terms p).
Definition setfree_facts (fs : list pred) : Prop :=
  Forall (fun f => setfree_pred f = true) fs.
Definition setfree_rules (rs : list rule) : Prop :=
  Forall (fun r => setfree_pred (r_head r) = true) rs.

Lemma atom_eqb_true a b : atom_eqb a b = true -> a = b.
Proof.
  destruct a as [x|x|x|x|x|x], b as [y|y|y|y|y|y]; cbn [atom_eqb]; intro H;
    try discriminate H; f_equal.
  - apply bytes_eqb_eq; exact H.
  - apply Z.eqb_eq; exact H.
  - apply bytes_eqb_eq; exact H.
  - apply N.eqb_eq; exact H.
  - apply bytes_eqb_eq; exact H.
  - apply Bool.eqb_prop; exact H.
Qed.

Lemma atom_eqb_refl a : atom_eqb a a = true.
Proof.
  destruct a as [x|x|x|x|x|x]; cbn [atom_eqb].
  - apply bytes_eqb_refl.
  - apply Z.eqb_refl.
  - apply bytes_eqb_refl.
  - apply N.eqb_refl.
  - apply bytes_eqb_refl.
  - apply Bool.eqb_reflx.
Qed.

Lemma atom_eqb_eq a b : atom_eqb a b = true <-> a = b.
Proof. split; [apply atom_eqb_true | intros ->; apply atom_eqb_refl]. Qed.

Lemma set_contains_in s a : In a s -> set_contains s a = true.
Proof.
  intro H. unfold set_contains. apply existsb_exists. exists a.
  split; [exact H | apply atom_eqb_refl].
Qed.

Lemma set_contains_iff s a : set_contains s a = true <-> In a s.
Proof.
  split; [|apply set_contains_in]. unfold set_contains. rewrite existsb_exists.
  intros [x [Hx He]]. apply atom_eqb_true in He. subst x. exact Hx.
Qed.

(* Set.Equal, as repaired: same length and the same elements *)
Lemma set_equal_iff s c :
  set_equal s c = true <-> length c = length s /\ (forall x, In x s <-> In x c).
Proof.
  unfold set_equal. rewrite !andb_true_iff, Nat.eqb_eq, !forallb_forall. split.
  - intros [[Hl H1] H2]. split; [exact Hl|]. intro x. split; intro Hx.
    + apply set_contains_iff. apply H1. exact Hx.
    + apply set_contains_iff. apply H2. exact Hx.
  - intros [Hl H]. split; [split; [exact Hl|]|]; intros x Hx; apply set_contains_iff; apply H; exact Hx.
Qed.

Lemma set_equal_refl s : set_equal s s = true.
Proof. apply set_equal_iff. split; [reflexivity | intro x; reflexivity]. Qed.

Lemma set_equal_sym s c : set_equal s c = set_equal c s.
Proof.
  apply Bool.eq_true_iff_eq. rewrite !set_equal_iff. split; intros [Hl H];
    (split; [symmetry; exact Hl | intro x; symmetry; apply H]).
Qed.

Lemma set_equal_trans a b c : set_equal a b = true -> set_equal b c = true -> set_equal a c = true.
Proof.
  rewrite !set_equal_iff. intros [Hl1 H1] [Hl2 H2]. split; [congruence|].
  intro x. rewrite (H1 x). apply H2.
Qed.

Lemma atom_eqb_sym a b : atom_eqb a b = atom_eqb b a.
Proof. apply Bool.eq_true_iff_eq. rewrite !atom_eqb_eq. split; intro H; symmetry; exact H. Qed.

Lemma atom_eqb_trans a b c : atom_eqb a b = true -> atom_eqb b c = true -> atom_eqb a c = true.
Proof. rewrite !atom_eqb_eq. congruence. Qed.

(** [term_eqb] (Go's Term.Equal) is an equivalence relation *)
Lemma term_eqb_refl t : term_eqb t t = true.
Proof. destruct t as [a|s]; cbn [term_eqb]; [apply atom_eqb_refl | apply set_equal_refl]. Qed.

Lemma term_eqb_sym a b : term_eqb a b = term_eqb b a.
Proof.
  destruct a as [x|x], b as [y|y]; cbn [term_eqb];
    [apply atom_eqb_sym | reflexivity | reflexivity | apply set_equal_sym].
Qed.

Lemma term_eqb_trans a b c : term_eqb a b = true -> term_eqb b c = true -> term_eqb a c = true.
Proof.
  destruct a as [x|x], b as [y|y], c as [z|z]; cbn [term_eqb]; try discriminate;
    [apply atom_eqb_trans | apply set_equal_trans].
Qed.

Lemma term_eqb_true_l a b : setfree_term a = true -> term_eqb a b = true -> a = b.
Proof.
  destruct a as [x|x], b as [y|y]; cbn [term_eqb setfree_term]; intros Hs H;
    try discriminate. f_equal. apply atom_eqb_true; exact H.
Qed.

Lemma term_eqb_true_r a b : setfree_term b = true -> term_eqb a b = true -> a = b.
Proof.
  destruct a as [x|x], b as [y|y]; cbn [term_eqb setfree_term]; intros Hs H;
    try discriminate. f_equal. apply atom_eqb_true; exact H.
Qed.

(* requested form *)
Lemma term_eqb_eq a b : setfree_term a = true -> (term_eqb a b = true <-> a = b).
Proof.
  intro Hs. split; [apply term_eqb_true_l; exact Hs | intros ->; apply term_eqb_refl].
Qed.

Lemma terms_eqb_refl ts : list_eqb term_eqb ts ts = true.
Proof.
  induction ts as [|t ts IH]; [reflexivity|]. cbn [list_eqb].
  rewrite term_eqb_refl, IH. reflexivity.
Qed.

Lemma terms_eqb_true_l ts us :
  forallb setfree_term ts = true -> list_eqb term_eqb ts us = true -> ts = us.
Proof.
  revert us. induction ts as [|t ts IH]; intros [|u us] Hs H; cbn [list_eqb] in H;
    try discriminate H; [reflexivity|].
  cbn [forallb] in Hs. apply andb_true_iff in Hs as [Hs1 Hs2].
  apply andb_true_iff in H as [H1 H2].
  apply term_eqb_true_l in H1; [|exact Hs1]. apply IH in H2; [|exact Hs2].
  subst. reflexivity.
Qed.

Lemma terms_eqb_true_r ts us :
  forallb setfree_term us = true -> list_eqb term_eqb ts us = true -> ts = us.
Proof.
  revert us. induction ts as [|t ts IH]; intros [|u us] Hs H; cbn [list_eqb] in H;
    try discriminate H; [reflexivity|].
  cbn [forallb] in Hs. apply andb_true_iff in Hs as [Hs1 Hs2].
  apply andb_true_iff in H as [H1 H2].
  apply term_eqb_true_r in H1; [|exact Hs1]. apply IH in H2; [|exact Hs2].
  subst. reflexivity.
Qed.

Lemma terms_eqb_sym ts : forall us, list_eqb term_eqb ts us = list_eqb term_eqb us ts.
Proof.
  induction ts as [|t ts IH]; intros [|u us]; cbn [list_eqb]; try reflexivity.
  rewrite term_eqb_sym, IH. reflexivity.
Qed.

Lemma terms_eqb_trans ts : forall us vs,
  list_eqb term_eqb ts us = true -> list_eqb term_eqb us vs = true -> list_eqb term_eqb ts vs = true.
Proof.
  induction ts as [|t ts IH]; intros [|u us] [|v vs] H1 H2; cbn [list_eqb] in *;
    try discriminate; [reflexivity|].
  apply andb_true_iff in H1 as [H1 H1']. apply andb_true_iff in H2 as [H2 H2'].
  rewrite (term_eqb_trans _ _ _ H1 H2), (IH _ _ H1' H2'). reflexivity.
Qed.

Lemma bytes_eqb_sym a b : bytes_eqb a b = bytes_eqb b a.
Proof. apply Bool.eq_true_iff_eq. rewrite !bytes_eqb_eq. split; intro H; symmetry; exact H. Qed.

(** [pred_eqb] (Predicate.Equal, the test of FactSet.Insert) is an equivalence relation *)
Lemma pred_eqb_refl p : pred_eqb p p = true.
Proof. unfold pred_eqb. rewrite bytes_eqb_refl, terms_eqb_refl. reflexivity. Qed.

Lemma pred_eqb_sym p q : pred_eqb p q = pred_eqb q p.
Proof. unfold pred_eqb. rewrite bytes_eqb_sym, terms_eqb_sym. reflexivity. Qed.

Lemma pred_eqb_trans p q r : pred_eqb p q = true -> pred_eqb q r = true -> pred_eqb p r = true.
Proof.
  unfold pred_eqb. intros H1 H2.
  apply andb_true_iff in H1 as [H1 H1']. apply andb_true_iff in H2 as [H2 H2'].
  apply bytes_eqb_eq in H1. apply bytes_eqb_eq in H2.
  rewrite H1, H2, bytes_eqb_refl, (terms_eqb_trans _ _ _ H1' H2'). reflexivity.
Qed.

Lemma pred_eqb_true_l p q : setfree_pred p = true -> pred_eqb p q = true -> p = q.
Proof.
  destruct p as [n ts], q as [m us]. unfold pred_eqb, setfree_pred. cbn [p_name p_terms].
  intros Hs H. apply andb_true_iff in H as [H1 H2].
  apply bytes_eqb_eq in H1. apply terms_eqb_true_l in H2; [|exact Hs]. subst. reflexivity.
Qed.

Lemma pred_eqb_true_r p q : setfree_pred q = true -> pred_eqb p q = true -> p = q.
Proof.
  destruct p as [n ts], q as [m us]. unfold pred_eqb, setfree_pred. cbn [p_name p_terms].
  intros Hs H. apply andb_true_iff in H as [H1 H2].
  apply bytes_eqb_eq in H1. apply terms_eqb_true_r in H2; [|exact Hs]. subst. reflexivity.
Qed.

(* requested form *)
Lemma pred_eqb_eq p q : setfree_pred p = true -> (pred_eqb p q = true <-> p = q).
Proof.
  intro Hs. split; [apply pred_eqb_true_l; exact Hs | intros ->; apply pred_eqb_refl].
Qed.

Theorem Equal_is_equivalence :
  (forall t, term_eqb t t = true) /\
  (forall a b, term_eqb a b = term_eqb b a) /\
  (forall a b c, term_eqb a b = true -> term_eqb b c = true -> term_eqb a c = true) /\
  (forall p, pred_eqb p p = true) /\
  (forall p q, pred_eqb p q = pred_eqb q p) /\
  (forall p q r, pred_eqb p q = true -> pred_eqb q r = true -> pred_eqb p r = true).
Proof.
  exact (conj term_eqb_refl (conj term_eqb_sym (conj term_eqb_trans
          (conj pred_eqb_refl (conj pred_eqb_sym pred_eqb_trans))))).
Qed.

(* repeated elements: [1,1] and [1,2] differ, in both directions; [1,2] and
   [2,1] are Equal; [1,1] and [1] differ (by their length) — two different
   values, consistently *)
Example term_eqb_sets_repeats :
  term_eqb (TSet [AInt 1; AInt 1]) (TSet [AInt 1; AInt 2]) = false /\
  term_eqb (TSet [AInt 1; AInt 2]) (TSet [AInt 1; AInt 1]) = false /\
  term_eqb (TSet [AInt 1; AInt 2]) (TSet [AInt 2; AInt 1]) = true /\
  term_eqb (TSet [AInt 2; AInt 1]) (TSet [AInt 1; AInt 2]) = true /\
  term_eqb (TSet [AInt 1; AInt 1]) (TSet [AInt 1]) = false /\
  term_eqb (TSet [AInt 1]) (TSet [AInt 1; AInt 1]) = false.
Proof. vm_compute. repeat split; reflexivity. Qed.

(* Equal sets need not be the same list: on terms with sets [term_eqb] is an
   equivalence that is coarser than equality *)
Example term_eqb_sets_not_eq :
  term_eqb (TSet [AInt 1; AInt 2]) (TSet [AInt 2; AInt 1]) = true /\
  TSet [AInt 1; AInt 2] <> TSet [AInt 2; AInt 1].
Proof. split; [vm_compute; reflexivity | discriminate]. Qed.

(* ------------------------------------------------------------------ *)
(** * fact_in / insert_fact / insert_all *)

Lemma In_fact_in f fs : In f fs -> fact_in f fs = true.
Proof.
  intro H. unfold fact_in. apply existsb_exists. exists f.
  split; [exact H | apply pred_eqb_refl].
Qed.

Lemma fact_in_In f fs : setfree_facts fs -> fact_in f fs = true -> In f fs.
Proof.
  intros Hs H. unfold fact_in in H. apply existsb_exists in H as [g [Hg He]].
  assert (Hgf : g = f).
  { apply pred_eqb_true_l; [|exact He].
    unfold setfree_facts in Hs. rewrite Forall_forall in Hs. apply Hs; exact Hg. }
  subst g. exact Hg.
Qed.

Lemma fact_in_mono g fs fs' :
  (forall x, In x fs -> In x fs') -> fact_in g fs = true -> fact_in g fs' = true.
Proof.
  intros Hi H. unfold fact_in in *. apply existsb_exists in H as [x [Hx He]].
  apply existsb_exists. exists x. split; [apply Hi; exact Hx | exact He].
Qed.

Lemma insert_fact_in_inv fs f g : In g (insert_fact fs f) -> In g fs \/ g = f.
Proof.
  unfold insert_fact. destruct (fact_in f fs); intro H; [left; exact H|].
  apply in_app_or in H as [H|H]; [left; exact H|].
  cbn [In] in H. destruct H as [H|[]]. right; symmetry; exact H.
Qed.

Lemma insert_fact_incl fs f g : In g fs -> In g (insert_fact fs f).
Proof.
  unfold insert_fact. destruct (fact_in f fs); intro H; [exact H|].
  apply in_or_app; left; exact H.
Qed.

Lemma insert_fact_self fs f : fact_in f (insert_fact fs f) = true.
Proof.
  unfold insert_fact. destruct (fact_in f fs) eqn:H; [exact H|].
  apply In_fact_in. apply in_or_app. right. left. reflexivity.
Qed.

Lemma insert_fact_NoDup fs f : NoDup fs -> NoDup (insert_fact fs f).
Proof.
  unfold insert_fact. destruct (fact_in f fs) eqn:H; intro Hn; [exact Hn|].
  apply (Permutation_NoDup (Permutation_cons_append fs f)).
  constructor; [|exact Hn].
  intro Hin. apply In_fact_in in Hin. rewrite Hin in H. discriminate H.
Qed.

Lemma insert_fact_length fs f : length fs <= length (insert_fact fs f).
Proof.
  unfold insert_fact. destruct (fact_in f fs); [lia|]. rewrite app_length. cbn [length]. lia.
Qed.

Lemma insert_fact_len_eq fs f :
  length (insert_fact fs f) = length fs -> fact_in f fs = true /\ insert_fact fs f = fs.
Proof.
  unfold insert_fact. destruct (fact_in f fs); [auto|].
  rewrite app_length. cbn [length]. lia.
Qed.

Lemma insert_all_nil fs : insert_all fs [] = fs.
Proof. reflexivity. Qed.

Lemma insert_all_cons fs f nf : insert_all fs (f :: nf) = insert_all (insert_fact fs f) nf.
Proof. reflexivity. Qed.

Lemma insert_all_in_inv nf : forall fs g, In g (insert_all fs nf) -> In g fs \/ In g nf.
Proof.
  induction nf as [|f nf IH]; intros fs g H.
  - left; exact H.
  - rewrite insert_all_cons in H. apply IH in H as [H|H].
    + apply insert_fact_in_inv in H as [H|H]; [left; exact H | right; left; symmetry; exact H].
    + right; right; exact H.
Qed.

Lemma insert_all_incl nf : forall fs g, In g fs -> In g (insert_all fs nf).
Proof.
  induction nf as [|f nf IH]; intros fs g H; [exact H|].
  rewrite insert_all_cons. apply IH. apply insert_fact_incl. exact H.
Qed.

Lemma insert_all_NoDup nf : forall fs, NoDup fs -> NoDup (insert_all fs nf).
Proof.
  induction nf as [|f nf IH]; intros fs H; [exact H|].
  rewrite insert_all_cons. apply IH. apply insert_fact_NoDup. exact H.
Qed.

Lemma insert_all_length nf : forall fs, length fs <= length (insert_all fs nf).
Proof.
  induction nf as [|f nf IH]; intros fs; [cbn; lia|].
  rewrite insert_all_cons. pose proof (IH (insert_fact fs f)) as H1.
  pose proof (insert_fact_length fs f) as H2. lia.
Qed.

Lemma insert_all_same_len nf : forall fs,
  length (insert_all fs nf) = length fs ->
  insert_all fs nf = fs /\ forall f, In f nf -> fact_in f fs = true.
Proof.
  induction nf as [|g nf IH]; intros fs H.
  - split; [reflexivity | intros f []].
  - rewrite insert_all_cons in H.
    pose proof (insert_all_length nf (insert_fact fs g)) as H1.
    pose proof (insert_fact_length fs g) as H2.
    assert (H3 : length (insert_fact fs g) = length fs) by lia.
    apply insert_fact_len_eq in H3 as [Hin Heq].
    rewrite insert_all_cons. rewrite Heq in *.
    destruct (IH fs H) as [Ha Hb]. split; [exact Ha|].
    intros f [Hf|Hf]; [subst f; exact Hin | apply Hb; exact Hf].
Qed.

(* ------------------------------------------------------------------ *)
(** * Values in bindings come from the matched facts *)

Definition vals_ok (P : term -> Prop) (b : bindings) : Prop :=
  Forall (fun kv => P (snd kv)) b.

Lemma lookup_ok P b k v : vals_ok P b -> lookup b k = Some v -> P v.
Proof.
  induction b as [|[k0 t0] b IH]; intros Hb H; cbn [lookup] in H; [discriminate H|].
  inversion Hb as [|x l Hx Hl]; subst.
  destruct (bytes_eqb k0 k).
  - injection H as H. subst. exact Hx.
  - apply IH; assumption.
Qed.

Lemma bind_terms_ok P pt : forall ft b b',
  Forall P ft -> vals_ok P b -> bind_terms pt ft b = Some b' -> vals_ok P b'.
Proof.
  induction pt as [|t pt IH]; intros ft b b' Hft Hb H.
  - cbn [bind_terms] in H. injection H as H. subst. exact Hb.
  - destruct ft as [|v ft].
    + destruct t as [[k|z|s|d|bs|bo]|l]; cbn [bind_terms] in H;
        injection H as H; subst; exact Hb.
    + inversion Hft as [|x l Hv Hft']; subst.
      destruct t as [[k|z|s|d|bs|bo]|l]; cbn [bind_terms] in H;
        try (eapply IH; eassumption).
      destruct (lookup b k) as [ex|] eqn:Hl.
      * destruct (term_eqb v ex); [eapply IH; eassumption | discriminate H].
      * eapply IH; [exact Hft' | | exact H].
        unfold vals_ok. apply Forall_app. split; [exact Hb|].
        constructor; [exact Hv | constructor].
Qed.

Lemma bind_all_ok P ps : forall c b b',
  Forall (fun f => Forall P (p_terms f)) c -> vals_ok P b ->
  bind_all ps c b = Some b' -> vals_ok P b'.
Proof.
  induction ps as [|p ps IH]; intros c b b' Hc Hb H.
  - cbn [bind_all] in H. injection H as H. subst. exact Hb.
  - destruct c as [|f c].
    + cbn [bind_all] in H. injection H as H. subst. exact Hb.
    + cbn [bind_all] in H. inversion Hc as [|x l Hf Hc']; subst.
      destruct (bind_terms (p_terms p) (p_terms f) b) as [b1|] eqn:Hbt; [|discriminate H].
      eapply IH; [exact Hc' | | exact H].
      eapply bind_terms_ok; eassumption.
Qed.

Lemma inst_terms_ok P ts : forall b ts',
  Forall P ts -> vals_ok P b -> inst_terms ts b = Some ts' -> Forall P ts'.
Proof.
  induction ts as [|t ts IH]; intros b ts' Hts Hb H.
  - cbn [inst_terms] in H. injection H as H. subst. constructor.
  - inversion Hts as [|x l Ht Hts']; subst.
    destruct t as [[k|z|s|d|bs|bo]|l]; cbn [inst_terms] in H.
    + destruct (lookup b k) as [v|] eqn:Hl; [|discriminate H].
      destruct (inst_terms ts b) as [r|] eqn:Hr; [|discriminate H].
      injection H as H. subst. constructor.
      * eapply lookup_ok; eassumption.
      * eapply IH; [exact Hts' | exact Hb | exact Hr].
    + destruct (inst_terms ts b) as [r|] eqn:Hr; [|discriminate H].
      injection H as H. subst. constructor; [exact Ht | eapply IH; eassumption].
    + destruct (inst_terms ts b) as [r|] eqn:Hr; [|discriminate H].
      injection H as H. subst. constructor; [exact Ht | eapply IH; eassumption].
    + destruct (inst_terms ts b) as [r|] eqn:Hr; [|discriminate H].
      injection H as H. subst. constructor; [exact Ht | eapply IH; eassumption].
    + destruct (inst_terms ts b) as [r|] eqn:Hr; [|discriminate H].
      injection H as H. subst. constructor; [exact Ht | eapply IH; eassumption].
    + destruct (inst_terms ts b) as [r|] eqn:Hr; [|discriminate H].
      injection H as H. subst. constructor; [exact Ht | eapply IH; eassumption].
    + destruct (inst_terms ts b) as [r|] eqn:Hr; [|discriminate H].
      injection H as H. subst. constructor; [exact Ht | eapply IH; eassumption].
Qed.

Lemma setfree_pred_Forall p :
  setfree_pred p = true <-> Forall (fun t => setfree_term t = true) (p_terms p).
Proof.
  unfold setfree_pred. rewrite forallb_forall, Forall_forall. reflexivity.
Qed.

Lemma inst_head_setfree c b h f ps :
  Forall (fun g => setfree_pred g = true) c -> setfree_pred h = true ->
  bind_all ps c [] = Some b -> inst_head h b = Some f -> setfree_pred f = true.
Proof.
  intros Hc Hh Hb Hi.
  assert (Hv : vals_ok (fun t => setfree_term t = true) b).
  { eapply bind_all_ok; [| constructor | exact Hb].
    eapply Forall_impl; [|exact Hc]. intros g Hg. apply setfree_pred_Forall. exact Hg. }
  unfold inst_head in Hi.
  destruct (inst_terms (p_terms h) b) as [ts|] eqn:Ht; [|discriminate Hi].
  injection Hi as Hi. subst f. apply setfree_pred_Forall. cbn [p_terms].
  eapply inst_terms_ok; [| exact Hv | exact Ht].
  apply setfree_pred_Forall. exact Hh.
Qed.

(* ------------------------------------------------------------------ *)
(** * Facts modulo Predicate.Equal

    [fact_eqv] is the equivalence [insert_fact] works with; membership, absence
    of duplicates, "same facts" and "permutation" modulo it are the standard
    [InA], [NoDupA], [equivlistA], [PermutationA] of the library. *)

Definition fact_eqv (f g : pred) : Prop := pred_eqb f g = true.

#[global] Instance fact_eqv_Equivalence : Equivalence fact_eqv.
Proof.
  split.
  - intro f. apply pred_eqb_refl.
  - intros f g H. unfold fact_eqv. rewrite pred_eqb_sym. exact H.
  - intros f g h. apply pred_eqb_trans.
Qed.

Lemma fact_in_iff f fs : fact_in f fs = true <-> exists g, In g fs /\ pred_eqb g f = true.
Proof. unfold fact_in. apply existsb_exists. Qed.

Lemma InA_fact_in f fs : InA fact_eqv f fs <-> fact_in f fs = true.
Proof.
  rewrite InA_alt, fact_in_iff. unfold fact_eqv. split; intros [g [H1 H2]]; exists g.
  - split; [exact H2 | rewrite pred_eqb_sym; exact H1].
  - split; [rewrite pred_eqb_sym; exact H2 | exact H1].
Qed.

Lemma In_InA_fact f fs : In f fs -> InA fact_eqv f fs.
Proof. intro H. apply InA_fact_in. apply In_fact_in. exact H. Qed.

Lemma fact_in_eqv f g fs : pred_eqb f g = true -> fact_in f fs = fact_in g fs.
Proof.
  intro H. apply Bool.eq_true_iff_eq. rewrite <- !InA_fact_in.
  split; apply InA_eqA; try exact fact_eqv_Equivalence.
  - exact H.
  - unfold fact_eqv. rewrite pred_eqb_sym. exact H.
Qed.

Lemma fact_in_trans f fs gs :
  fact_in f fs = true -> (forall x, In x fs -> fact_in x gs = true) -> fact_in f gs = true.
Proof.
  intros H Hall. apply fact_in_iff in H as [x [Hx He]].
  rewrite <- (fact_in_eqv x f gs He). apply Hall. exact Hx.
Qed.

Lemma insert_fact_InA fs f g :
  InA fact_eqv g (insert_fact fs f) <-> InA fact_eqv g fs \/ fact_eqv g f.
Proof.
  unfold insert_fact. destruct (fact_in f fs) eqn:H.
  - split; [intro Hg; left; exact Hg|]. intros [Hg|Hg]; [exact Hg|].
    apply InA_fact_in. rewrite (fact_in_eqv g f fs Hg). exact H.
  - rewrite InA_app_iff. split; (intros [Hg|Hg]; [left; exact Hg | right]).
    + inversion Hg as [x l He|x l Hn]; subst; [exact He | inversion Hn].
    + constructor. exact Hg.
Qed.

Lemma insert_all_InA nf : forall fs g,
  InA fact_eqv g (insert_all fs nf) <-> InA fact_eqv g fs \/ InA fact_eqv g nf.
Proof.
  induction nf as [|f nf IH]; intros fs g.
  - rewrite insert_all_nil. split; [intro H; left; exact H|]. intros [H|H]; [exact H | inversion H].
  - rewrite insert_all_cons, IH, insert_fact_InA, InA_cons. tauto.
Qed.

Lemma insert_fact_NoDupA fs f : NoDupA fact_eqv fs -> NoDupA fact_eqv (insert_fact fs f).
Proof.
  unfold insert_fact. destruct (fact_in f fs) eqn:H; intro Hn; [exact Hn|].
  apply NoDupA_app; [exact fact_eqv_Equivalence | exact Hn | apply NoDupA_singleton |].
  intros x Hx Hf. inversion Hf as [y l He|y l Hnil]; subst; [|inversion Hnil].
  apply InA_fact_in in Hx. rewrite (fact_in_eqv x f fs He) in Hx. congruence.
Qed.

Lemma insert_all_NoDupA nf : forall fs, NoDupA fact_eqv fs -> NoDupA fact_eqv (insert_all fs nf).
Proof.
  induction nf as [|f nf IH]; intros fs H; [exact H|].
  rewrite insert_all_cons. apply IH. apply insert_fact_NoDupA. exact H.
Qed.

(* a list loaded through [insert_fact] has no two Equal facts *)
Lemma insert_all_nil_NoDupA l : NoDupA fact_eqv (insert_all [] l).
Proof. apply insert_all_NoDupA. constructor. Qed.

Lemma NoDupA_fact_NoDup fs : NoDupA fact_eqv fs -> NoDup fs.
Proof.
  induction 1 as [|f fs Hf Hn IH]; constructor; [|exact IH].
  intro Hin. apply Hf. apply In_InA_fact. exact Hin.
Qed.

(* ------------------------------------------------------------------ *)
(** * Interchangeable values

    Every step of the evaluation respects Term.Equal: matching, variable
    binding, head instantiation, and — since Set.Intersect and Set.Union return
    each element once — every operator of the expression language.  The
    relation is spelled out structurally ([trel]: equal atoms, Equal sets) so
    that the congruence proofs can follow the shape of the values; [trel_iff]
    and [prel_iff] say that it is Term.Equal / Predicate.Equal. *)

(** ** The relation between interchangeable values *)

Definition srel (a b : list atom) : Prop := set_equal a b = true.

Definition trel (a b : term) : Prop :=
  match a, b with
  | TA x, TA y => x = y
  | TSet x, TSet y => srel x y
  | _, _ => False
  end.

Definition prel (f g : pred) : Prop :=
  p_name f = p_name g /\ Forall2 trel (p_terms f) (p_terms g).

Lemma Permutation_set_equal a b : Permutation a b -> set_equal a b = true.
Proof.
  intro H. apply set_equal_iff. split; [symmetry; apply Permutation_length; exact H|].
  intro x. split; intro Hx.
  - eapply Permutation_in; eassumption.
  - eapply Permutation_in; [apply Permutation_sym|]; eassumption.
Qed.

Lemma srel_equal a b : srel a b -> set_equal a b = true.
Proof. intro H. exact H. Qed.

Lemma srel_refl a : srel a a.
Proof. apply set_equal_refl. Qed.

Lemma srel_sym a b : srel a b -> srel b a.
Proof. unfold srel. rewrite set_equal_sym. intro H. exact H. Qed.

Lemma srel_trans a b c : srel a b -> srel b c -> srel a c.
Proof. apply set_equal_trans. Qed.

Lemma srel_length a b : srel a b -> length a = length b.
Proof. intro H. apply srel_equal in H. apply set_equal_iff in H as [H _]. symmetry. exact H. Qed.

Lemma srel_contains a b x : srel a b -> set_contains a x = set_contains b x.
Proof.
  intro H. apply srel_equal in H. apply set_equal_iff in H as [_ H].
  apply Bool.eq_true_iff_eq. rewrite !set_contains_iff. apply H.
Qed.

Lemma trel_refl t : trel t t.
Proof. destruct t as [a|s]; cbn [trel]; [reflexivity | apply srel_refl]. Qed.

Lemma trel_sym a b : trel a b -> trel b a.
Proof.
  destruct a as [x|x], b as [y|y]; cbn [trel]; try (intro HF; contradiction);
    [intro H; symmetry; exact H | apply srel_sym].
Qed.

Lemma trel_trans a b c : trel a b -> trel b c -> trel a c.
Proof.
  destruct a as [x|x], b as [y|y], c as [z|z]; cbn [trel]; try (intro HF; contradiction); try (intros _ HF; contradiction);
    [congruence | apply srel_trans].
Qed.

Lemma trel_eqb a b : trel a b -> term_eqb a b = true.
Proof.
  destruct a as [x|x], b as [y|y]; cbn [trel term_eqb]; try (intro HF; contradiction).
  - intros ->. apply atom_eqb_refl.
  - apply srel_equal.
Qed.

Lemma trels_refl ts : Forall2 trel ts ts.
Proof. induction ts as [|t ts IH]; constructor; [apply trel_refl | exact IH]. Qed.

Lemma trels_sym ts us : Forall2 trel ts us -> Forall2 trel us ts.
Proof. induction 1 as [|t u ts us H _ IH]; constructor; [apply trel_sym; exact H | exact IH]. Qed.

Lemma trels_trans ts : forall us vs,
  Forall2 trel ts us -> Forall2 trel us vs -> Forall2 trel ts vs.
Proof.
  induction ts as [|t ts IH]; intros us vs H1 H2.
  - inversion H1; subst. inversion H2; subst. constructor.
  - inversion H1 as [|t0 u ts0 us0 Ht Hts]; subst. inversion H2 as [|u0 v us1 vs0 Hu Hus]; subst.
    constructor; [eapply trel_trans; eassumption | eapply IH; eassumption].
Qed.

Lemma trels_eqb ts us : Forall2 trel ts us -> list_eqb term_eqb ts us = true.
Proof.
  induction 1 as [|t u ts us H _ IH]; cbn [list_eqb]; [reflexivity|].
  rewrite (trel_eqb _ _ H), IH. reflexivity.
Qed.

Lemma prel_refl f : prel f f.
Proof. split; [reflexivity | apply trels_refl]. Qed.

Lemma prel_sym f g : prel f g -> prel g f.
Proof. intros [H1 H2]. split; [symmetry; exact H1 | apply trels_sym; exact H2]. Qed.

Lemma prel_trans f g h : prel f g -> prel g h -> prel f h.
Proof. intros [H1 H2] [H3 H4]. split; [congruence | eapply trels_trans; eassumption]. Qed.

Lemma prel_eqb f g : prel f g -> pred_eqb f g = true.
Proof.
  intros [H1 H2]. unfold pred_eqb. rewrite H1, bytes_eqb_refl, (trels_eqb _ _ H2). reflexivity.
Qed.

Lemma prels_sym c c' : Forall2 prel c c' -> Forall2 prel c' c.
Proof. induction 1 as [|f g c c' H _ IH]; constructor; [apply prel_sym; exact H | exact IH]. Qed.

Lemma trel_iff a b : trel a b <-> term_eqb a b = true.
Proof.
  split; [apply trel_eqb|].
  destruct a as [x|x], b as [y|y]; cbn [term_eqb trel]; try discriminate.
  - apply atom_eqb_true.
  - intro H. exact H.
Qed.

Lemma trels_iff ts : forall us, Forall2 trel ts us <-> list_eqb term_eqb ts us = true.
Proof.
  intro us. split; [apply trels_eqb|]. revert us.
  induction ts as [|t ts IH]; intros [|u us] H; cbn [list_eqb] in H; try discriminate H; [constructor|].
  apply andb_true_iff in H as [H H']. constructor; [apply trel_iff; exact H | apply IH; exact H'].
Qed.

Lemma prel_iff f g : prel f g <-> pred_eqb f g = true.
Proof.
  split; [apply prel_eqb|]. unfold pred_eqb. intro H. apply andb_true_iff in H as [Hn H].
  apply bytes_eqb_eq in Hn. split; [exact Hn | apply trels_iff; exact H].
Qed.

(** ** Matching, binding and head instantiation respect the relation *)

Lemma term_eqb_cong a a' b b' :
  term_eqb a a' = true -> term_eqb b b' = true -> term_eqb a b = term_eqb a' b'.
Proof.
  intros Ha Hb. apply Bool.eq_true_iff_eq. split; intro H.
  - rewrite term_eqb_sym in Ha. eapply term_eqb_trans; [exact Ha|]. eapply term_eqb_trans; eassumption.
  - rewrite term_eqb_sym in Hb. eapply term_eqb_trans; [exact Ha|]. eapply term_eqb_trans; eassumption.
Qed.

Lemma trel_is_var a b : trel a b -> is_var a = is_var b.
Proof.
  destruct a as [x|x], b as [y|y]; cbn [trel]; try (intro HF; contradiction); [intros ->|]; reflexivity.
Qed.

Lemma terms_match_rel ft ft' : Forall2 trel ft ft' ->
  forall pt, terms_match ft pt = terms_match ft' pt.
Proof.
  induction 1 as [|x x' ft ft' Hx _ IH]; intros [|y pt]; cbn [terms_match]; try reflexivity.
  rewrite (trel_is_var _ _ Hx), IH.
  rewrite (term_eqb_cong x x' y y (trel_eqb _ _ Hx) (term_eqb_refl y)). reflexivity.
Qed.

Lemma pred_match_rel g g' p : prel g g' -> pred_match g p = pred_match g' p.
Proof.
  intros [Hn Ht]. unfold pred_match. rewrite Hn, (terms_match_rel _ _ Ht). reflexivity.
Qed.

Definition orel {A} (R : A -> A -> Prop) (x y : option A) : Prop :=
  match x, y with Some a, Some b => R a b | None, None => True | _, _ => False end.

Definition brel (b b' : bindings) : Prop :=
  Forall2 (fun kv kv' => fst kv = fst kv' /\ trel (snd kv) (snd kv')) b b'.

Lemma lookup_rel b b' k : brel b b' -> orel trel (lookup b k) (lookup b' k).
Proof.
  induction 1 as [|[k0 t0] [k1 t1] b b' [Hk Ht] _ IH]; cbn [lookup orel]; [exact I|].
  cbn [fst snd] in Hk, Ht. subst k1. destruct (bytes_eqb k0 k); [exact Ht | exact IH].
Qed.

Lemma brel_snoc b b' k v v' : brel b b' -> trel v v' -> brel (b ++ [(k, v)]) (b' ++ [(k, v')]).
Proof.
  intros Hb Hv. apply Forall2_app; [exact Hb|]. constructor; [|constructor].
  split; [reflexivity | exact Hv].
Qed.

Lemma bind_terms_rel pt : forall ft ft' b b',
  Forall2 trel ft ft' -> brel b b' ->
  orel brel (bind_terms pt ft b) (bind_terms pt ft' b').
Proof.
  induction pt as [|t pt IH]; intros ft ft' b b' Hft Hb.
  - cbn [bind_terms orel]. exact Hb.
  - destruct Hft as [|v v' ft ft' Hv Hft].
    + destruct t as [[k|z|s|d|bs|bo]|l]; cbn [bind_terms orel]; exact Hb.
    + destruct t as [[k|z|s|d|bs|bo]|l]; cbn [bind_terms]; try (apply IH; assumption).
      pose proof (lookup_rel b b' k Hb) as Hl.
      destruct (lookup b k) as [ex|], (lookup b' k) as [ex'|]; cbn [orel] in Hl; try contradiction.
      * rewrite (term_eqb_cong v v' ex ex' (trel_eqb _ _ Hv) (trel_eqb _ _ Hl)).
        destruct (term_eqb v' ex'); [apply IH; assumption | exact I].
      * apply IH; [exact Hft | apply brel_snoc; assumption].
Qed.

Lemma bind_all_rel ps : forall c c' b b',
  Forall2 prel c c' -> brel b b' ->
  orel brel (bind_all ps c b) (bind_all ps c' b').
Proof.
  induction ps as [|p ps IH]; intros c c' b b' Hc Hb.
  - cbn [bind_all orel]. exact Hb.
  - destruct Hc as [|f f' c c' [_ Hf] Hc]; cbn [bind_all]; [exact Hb|].
    pose proof (bind_terms_rel (p_terms p) _ _ b b' Hf Hb) as H1.
    destruct (bind_terms (p_terms p) (p_terms f) b) as [b1|],
             (bind_terms (p_terms p) (p_terms f') b') as [b1'|]; cbn [orel] in H1; try contradiction;
      [apply IH; assumption | exact I].
Qed.

Lemma inst_terms_rel ts : forall b b',
  brel b b' -> orel (Forall2 trel) (inst_terms ts b) (inst_terms ts b').
Proof.
  induction ts as [|t ts IH]; intros b b' Hb; [cbn [inst_terms orel]; constructor|].
  specialize (IH b b' Hb).
  assert (Hconst : forall u : term,
    orel (Forall2 trel)
      (match inst_terms ts b with Some r => Some (u :: r) | None => None end)
      (match inst_terms ts b' with Some r => Some (u :: r) | None => None end)).
  { intro u. destruct (inst_terms ts b) as [r|], (inst_terms ts b') as [r'|]; cbn [orel] in *;
      try contradiction; [|exact I]. constructor; [apply trel_refl | exact IH]. }
  destruct t as [[k|z|s|d|bs|bo]|l]; cbn [inst_terms]; try apply Hconst.
  pose proof (lookup_rel b b' k Hb) as Hl.
  destruct (lookup b k) as [v|], (lookup b' k) as [v'|]; cbn [orel] in Hl; try contradiction; [|exact I].
  destruct (inst_terms ts b) as [r|], (inst_terms ts b') as [r'|]; cbn [orel] in *;
    try contradiction; [|exact I]. constructor; assumption.
Qed.

Lemma inst_head_rel h b b' : brel b b' -> orel prel (inst_head h b) (inst_head h b').
Proof.
  intro Hb. unfold inst_head. pose proof (inst_terms_rel (p_terms h) b b' Hb) as H.
  destruct (inst_terms (p_terms h) b) as [ts|], (inst_terms (p_terms h) b') as [ts'|];
    cbn [orel] in *; try contradiction; [|exact I]. split; [reflexivity | exact H].
Qed.

(* ------------------------------------------------------------------ *)
(** * The tuples enumerated by [combos] *)

Lemma combos_in ps fs : forall c,
  In c (combos ps fs) <->
  Forall (fun g => In g fs) c /\ Forall2 (fun g p => pred_match g p = true) c ps.
Proof.
  induction ps as [|p ps IH]; intros c; cbn [combos].
  - split.
    + intros [H|[]]. subst c. split; constructor.
    + intros [_ H]. inversion H; subst. left; reflexivity.
  - rewrite in_flat_map. split.
    + intros [f [Hf Hc]]. apply filter_In in Hf as [Hf Hm].
      apply in_map_iff in Hc as [c' [Hc Hc']]. subst c.
      apply IH in Hc' as [Ha Hb]. split; constructor; assumption.
    + intros [Ha Hb]. inversion Hb as [|f p' c' ps' Hm Hb']; subst.
      inversion Ha as [|x l Hf Ha']; subst.
      exists f. split.
      * apply filter_In. split; assumption.
      * apply in_map. apply IH. split; assumption.
Qed.

(* ------------------------------------------------------------------ *)
(** * Outcomes of expression evaluation: never Panic, only expression errors *)

Definition expr_err (e : err) : bool :=
  match e with
  | EDivZero | EOverflow | EIllTyped | EUnknownVar | ERegex => true
  | _ => false
  end.

Definition good_res {A} (x : res A) : Prop :=
  match x with Ok _ => True | Err e => expr_err e = true | Panic _ => False end.

Lemma bind_good {A B} (r : res A) (f : A -> res B) :
  good_res r -> (forall a, good_res (f a)) -> good_res (bind r f).
Proof.
  destruct r as [a|e|s]; cbn [bind good_res]; intros H Hf; [apply Hf | exact H | exact H].
Qed.

Lemma checked_good z : good_res (checked z).
Proof. unfold checked. destruct (in_int64 z); [exact I | exact eq_refl]. Qed.

Lemma eval_unary_good u v : good_res (eval_unary u v).
Proof.
  destruct u; destruct v as [[k|z|s|d|bs|bo]|l]; cbn [eval_unary];
    first [exact I | exact eq_refl].
Qed.

Lemma push_good st v : good_res (push st v).
Proof. unfold push. destruct (max_stack <=? length st); [exact eq_refl | exact I]. Qed.

Section WithRx.
Variable rx : bytes -> bytes -> option bool.

Lemma eval_binary_good o l r : good_res (eval_binary rx o l r).
Proof.
  destruct o; destruct l as [[lk|lz|ls|ld|lb|lo]|ll]; destruct r as [[rk|rz|rs|rd|rb|ro]|rl];
    cbn -[checked Z.quot Z.eqb Z.add Z.sub Z.mul];
    try exact I; try exact eq_refl; try apply checked_good.
  all: try (destruct (rx _ _); [exact I | exact eq_refl]).
  all: try (destruct (Z.eqb _ _); [exact eq_refl | apply checked_good]).
Qed.

Lemma step_good b st o : good_res (step rx b st o).
Proof.
  destruct o as [t|u|o].
  - destruct t as [[k|z|s|d|bs|bo]|l]; cbn [step]; try apply push_good.
    destruct (lookup b k); [apply push_good | exact eq_refl].
  - cbn [step]. destruct st as [|v st]; [exact eq_refl|].
    apply bind_good; [apply eval_unary_good | intros a; apply push_good].
  - cbn [step]. destruct st as [|r [|l st]]; try exact eq_refl.
    apply bind_good; [apply eval_binary_good | intros a; apply push_good].
Qed.

Lemma run_ops_good b e : forall st, good_res (run_ops rx b st e).
Proof.
  induction e as [|o e IH]; intros st; cbn [run_ops]; [exact I|].
  apply bind_good; [apply step_good | intros st'; apply IH].
Qed.

Lemma eval_good e b : good_res (eval rx e b).
Proof.
  unfold eval. apply bind_good; [apply run_ops_good|].
  intros st. destruct st as [|v [|w st]]; first [exact I | exact eq_refl].
Qed.

Lemma eval_exprs_good es b : good_res (eval_exprs rx es b).
Proof.
  induction es as [|e es IH]; cbn [eval_exprs]; [exact I|].
  apply bind_good; [apply eval_good|].
  intros v. destruct (term_eqb v (TA (ABool true))); [exact IH | exact I].
Qed.

(* ------------------------------------------------------------------ *)
(** * Expression evaluation respects the relation: every operator *)

Definition resrel {A} (R : A -> A -> Prop) (x y : res A) : Prop :=
  match x, y with
  | Ok a, Ok b => R a b
  | Err e, Err e' => e = e'
  | Panic s, Panic s' => s = s'
  | _, _ => False
  end.

Lemma resrel_refl {A} (R : A -> A -> Prop) (x : res A) : (forall a, R a a) -> resrel R x x.
Proof. intro H. destruct x as [a|e|s]; cbn [resrel]; [apply H | reflexivity | reflexivity]. Qed.

Lemma bind_rel {A B} (RA : A -> A -> Prop) (RB : B -> B -> Prop) x y (f g : A -> res B) :
  resrel RA x y -> (forall a a', RA a a' -> resrel RB (f a) (g a')) ->
  resrel RB (bind x f) (bind y g).
Proof.
  destruct x as [a|e|s], y as [a'|e'|s']; cbn [resrel bind]; intros H Hf;
    first [contradiction | exact H | apply Hf; exact H].
Qed.

Lemma eval_unary_rel u v v' :
  trel v v' -> resrel trel (eval_unary u v) (eval_unary u v').
Proof.
  destruct v as [a|s], v' as [a'|s']; cbn [trel]; try contradiction.
  - intros ->. apply resrel_refl. apply trel_refl.
  - intro H. destruct u; cbn [eval_unary resrel trel]; [reflexivity | exact H|].
    rewrite (srel_length _ _ H). reflexivity.
Qed.

Lemma existsb_mem_ext (f : atom -> bool) s s' :
  (forall x, In x s <-> In x s') -> existsb f s = existsb f s'.
Proof.
  intro H. apply Bool.eq_true_iff_eq. rewrite !existsb_exists.
  split; intros [x [Hx Hf]]; exists x; (split; [apply H; exact Hx | exact Hf]).
Qed.

Lemma forallb_mem_ext (f : atom -> bool) s s' :
  (forall x, In x s <-> In x s') -> forallb f s = forallb f s'.
Proof.
  intro H. apply Bool.eq_true_iff_eq. rewrite !forallb_forall.
  split; intros Hf x Hx; apply Hf; apply H; exact Hx.
Qed.

Lemma srel_mem a b : srel a b -> forall x, In x a <-> In x b.
Proof. intro H. apply srel_equal in H. apply set_equal_iff in H as [_ H]. exact H. Qed.

(* [set_add]/[set_intersect]/[set_union]: membership and absence of repetition *)
Lemma set_add_In acc a x : In x (set_add acc a) <-> In x acc \/ x = a.
Proof.
  unfold set_add. destruct (set_contains acc a) eqn:E.
  - apply set_contains_iff in E. split; [intro H; left; exact H|].
    intros [H|H]; [exact H | subst x; exact E].
  - rewrite in_app_iff. cbn [In]. split; (intros [H|H]; [left; exact H | right]).
    + destruct H as [H|[]]. symmetry. exact H.
    + left. symmetry. exact H.
Qed.

Lemma set_add_NoDup acc a : NoDup acc -> NoDup (set_add acc a).
Proof.
  intro Hn. unfold set_add. destruct (set_contains acc a) eqn:E; [exact Hn|].
  apply (Permutation_NoDup (Permutation_cons_append acc a)).
  constructor; [|exact Hn]. intro Hin. apply set_contains_iff in Hin. congruence.
Qed.

Lemma fold_set_add_In l : forall acc x, In x (fold_left set_add l acc) <-> In x acc \/ In x l.
Proof.
  induction l as [|a l IH]; intros acc x; cbn [fold_left In]; [tauto|].
  rewrite IH, set_add_In. split; [intros [[H|H]|H] | intros [H|[H|H]]]; auto.
Qed.

Lemma fold_set_add_NoDup l : forall acc, NoDup acc -> NoDup (fold_left set_add l acc).
Proof.
  induction l as [|a l IH]; intros acc Hn; cbn [fold_left]; [exact Hn|].
  apply IH. apply set_add_NoDup. exact Hn.
Qed.

Lemma fold_inter_In t l : forall acc x,
  In x (fold_left (fun acc a => if set_contains t a then set_add acc a else acc) l acc) <->
  In x acc \/ (In x l /\ In x t).
Proof.
  induction l as [|a l IH]; intros acc x; cbn [fold_left In]; [tauto|].
  rewrite IH. destruct (set_contains t a) eqn:E.
  - apply set_contains_iff in E. rewrite set_add_In. split.
    + intros [[H|H]|[H1 H2]]; [left; exact H | subst x; right; auto | right; auto].
    + intros [H|[[H|H] H2]]; [left; left; exact H | left; right; symmetry; exact H | right; auto].
  - split.
    + intros [H|[H1 H2]]; [left; exact H | right; auto].
    + intros [H|[[H|H] H2]]; [left; exact H | | right; auto].
      subst x. apply set_contains_iff in H2. congruence.
Qed.

Lemma fold_inter_NoDup t l : forall acc, NoDup acc ->
  NoDup (fold_left (fun acc a => if set_contains t a then set_add acc a else acc) l acc).
Proof.
  induction l as [|a l IH]; intros acc Hn; cbn [fold_left]; [exact Hn|].
  apply IH. destruct (set_contains t a); [apply set_add_NoDup|]; exact Hn.
Qed.

Lemma set_intersect_In s t x : In x (set_intersect s t) <-> In x s /\ In x t.
Proof. unfold set_intersect. rewrite fold_inter_In. cbn [In]. tauto. Qed.

Lemma set_union_In s t x : In x (set_union s t) <-> In x s \/ In x t.
Proof. unfold set_union. rewrite !fold_set_add_In. cbn [In]. tauto. Qed.

Lemma set_intersect_NoDup s t : NoDup (set_intersect s t).
Proof. unfold set_intersect. apply fold_inter_NoDup. constructor. Qed.

Lemma set_union_NoDup s t : NoDup (set_union s t).
Proof. unfold set_union. apply fold_set_add_NoDup. apply fold_set_add_NoDup. constructor. Qed.

(* two lists without repetition and with the same elements are Equal sets *)
Lemma NoDup_mem_set_equal a b :
  NoDup a -> NoDup b -> (forall x, In x a <-> In x b) -> set_equal a b = true.
Proof.
  intros Ha Hb H. apply set_equal_iff. split; [|exact H].
  symmetry. apply Permutation_length. apply NoDup_Permutation; assumption.
Qed.

(** Set.Intersect and Set.Union respect Set.Equal: Equal operands (repeated
    elements or not) give Equal results *)
Lemma set_intersect_equal a a' b b' :
  set_equal a a' = true -> set_equal b b' = true ->
  set_equal (set_intersect a b) (set_intersect a' b') = true.
Proof.
  intros Ha Hb. apply set_equal_iff in Ha as [_ Ha]. apply set_equal_iff in Hb as [_ Hb].
  apply NoDup_mem_set_equal; try apply set_intersect_NoDup.
  intro x. rewrite !set_intersect_In, (Ha x), (Hb x). reflexivity.
Qed.

Lemma set_union_equal a a' b b' :
  set_equal a a' = true -> set_equal b b' = true ->
  set_equal (set_union a b) (set_union a' b') = true.
Proof.
  intros Ha Hb. apply set_equal_iff in Ha as [_ Ha]. apply set_equal_iff in Hb as [_ Hb].
  apply NoDup_mem_set_equal; try apply set_union_NoDup.
  intro x. rewrite !set_union_In, (Ha x), (Hb x). reflexivity.
Qed.

Lemma eval_binary_rel o l l' r r' :
  trel l l' -> trel r r' ->
  resrel trel (eval_binary rx o l r) (eval_binary rx o l' r').
Proof.
  intros Hl Hr.
  destruct l as [la|ls], l' as [la'|ls']; cbn [trel] in Hl; try contradiction;
    destruct r as [ra|rs], r' as [ra'|rs']; cbn [trel] in Hr; try contradiction.
  - subst la' ra'. apply resrel_refl. apply trel_refl.
  - subst la'.
    destruct o; destruct la as [k|z|s|d|bs|bo];
      cbn [eval_binary cmp_op str_op int_op term_type atom_type ttype_eqb negb resrel];
      reflexivity.
  - subst ra'.
    destruct o; destruct ra as [k|z|s|d|bs|bo];
      cbn [eval_binary cmp_op str_op int_op term_type atom_type ttype_eqb negb resrel trel];
      try reflexivity;
      f_equal; apply existsb_mem_ext; apply (srel_mem); exact Hl.
  - destruct o;
      cbn [eval_binary cmp_op str_op int_op term_type atom_type ttype_eqb negb resrel trel term_eqb];
      try reflexivity.
    + f_equal.
      exact (term_eqb_cong (TSet ls) (TSet ls') (TSet rs) (TSet rs')
               (srel_equal _ _ Hl) (srel_equal _ _ Hr)).
    + f_equal. rewrite (forallb_mem_ext _ rs rs' (srel_mem _ _ Hr)).
      apply Bool.eq_true_iff_eq. rewrite !forallb_forall.
      split; intros H e He; specialize (H e He);
        rewrite (existsb_mem_ext (fun x => atom_eqb x e) ls ls' (srel_mem _ _ Hl)) in *; exact H.
    + apply set_intersect_equal; assumption.
    + apply set_union_equal; assumption.
Qed.

Definition strel : list term -> list term -> Prop := Forall2 trel.

Lemma Forall2_len {A B} (R : A -> B -> Prop) l l' : Forall2 R l l' -> length l = length l'.
Proof. induction 1 as [|x y l l' _ _ IH]; cbn [length]; congruence. Qed.

Lemma push_rel st st' v v' :
  strel st st' -> trel v v' -> resrel strel (push st v) (push st' v').
Proof.
  intros Hs Hv. unfold push. rewrite <- (Forall2_len _ _ _ Hs).
  destruct (max_stack <=? length st); cbn [resrel]; [reflexivity|]. constructor; assumption.
Qed.

Lemma step_rel b b' st st' o :
  brel b b' -> strel st st' ->
  resrel strel (step rx b st o) (step rx b' st' o).
Proof.
  intros Hb Hs. destruct o as [t|u|o].
  - destruct t as [[k|z|s|d|bs|bo]|l]; cbn [step];
      try (apply push_rel; [exact Hs | apply trel_refl]).
    pose proof (lookup_rel b b' k Hb) as Hl.
    destruct (lookup b k) as [v|], (lookup b' k) as [v'|]; cbn [orel] in Hl; try contradiction;
      [apply push_rel; assumption | reflexivity].
  - cbn [step]. destruct Hs as [|v v' st st' Hv Hs]; [reflexivity|].
    eapply (bind_rel trel); [apply (eval_unary_rel); exact Hv|].
    intros a a' Ha. apply push_rel; assumption.
  - cbn [step]. destruct Hs as [|r r' st st' Hr Hs]; [reflexivity|].
    destruct Hs as [|l l' st st' Hl Hs]; [reflexivity|].
    eapply (bind_rel trel); [apply (eval_binary_rel); assumption|].
    intros a a' Ha. apply push_rel; assumption.
Qed.

Lemma run_ops_rel b b' e : brel b b' ->
  forall st st', strel st st' -> resrel strel (run_ops rx b st e) (run_ops rx b' st' e).
Proof.
  intros Hb. induction e as [|o e IH]; intros st st' Hs; cbn [run_ops]; [exact Hs|].
  eapply bind_rel; [apply step_rel; eassumption|]. intros a a' Ha. apply IH; assumption.
Qed.

Lemma eval_rel b b' e : brel b b' ->
  resrel trel (eval rx e b) (eval rx e b').
Proof.
  intros Hb. unfold eval. eapply bind_rel; [apply run_ops_rel; try eassumption; constructor|].
  intros st st' Hs. destruct Hs as [|v v' st st' Hv Hs]; [reflexivity|].
  destruct Hs as [|w w' st st' Hw Hs]; [exact Hv | reflexivity].
Qed.

Lemma eval_exprs_rel b b' es : brel b b' ->
  eval_exprs rx es b = eval_exprs rx es b'.
Proof.
  intros Hb. induction es as [|e es IH]; cbn [eval_exprs]; [reflexivity|].
  pose proof (eval_rel b b' e Hb) as H.
  destruct (eval rx e b) as [v|er|s], (eval rx e b') as [v'|er'|s']; cbn [resrel] in H;
    try contradiction; cbn [bind]; [|congruence|congruence].
  rewrite (term_eqb_cong v v' (TA (ABool true)) (TA (ABool true)) (trel_eqb _ _ H) eq_refl).
  destruct (term_eqb v' (TA (ABool true))); [exact IH | reflexivity].
Qed.

(* ------------------------------------------------------------------ *)
(** * One candidate tuple, the stream consumer, one rule, one round *)

Definition fires (r : rule) (c : list pred) (b : bindings) (f : pred) : Prop :=
  bind_all (r_body r) c [] = Some b /\
  eval_exprs rx (r_exprs r) b = Ok true /\
  inst_head (r_head r) b = Some f.

Inductive tout := TSkip | TEmit (f : pred) | TStop (e : err).

Definition tuple_out (r : rule) (c : list pred) : tout :=
  match bind_all (r_body r) c [] with
  | None => TSkip
  | Some b =>
      match eval_exprs rx (r_exprs r) b with
      | Err e => TStop e
      | Panic _ => TStop EOther
      | Ok false => TSkip
      | Ok true =>
          match inst_head (r_head r) b with
          | None => TStop EInvalidRule
          | Some f => TEmit f
          end
      end
  end.

Lemma consume_step r c cs acc :
  consume rx r (c :: cs) acc =
  match tuple_out r c with
  | TSkip => consume rx r cs acc
  | TEmit f => consume rx r cs (insert_fact acc f)
  | TStop e => (acc, Some e)
  end.
Proof.
  unfold tuple_out. cbn [consume].
  destruct (bind_all (r_body r) c []) as [b|]; [|reflexivity].
  destruct (eval_exprs rx (r_exprs r) b) as [[|]|e|s]; try reflexivity.
  destruct (inst_head (r_head r) b); reflexivity.
Qed.

Lemma tuple_out_emit r c f : tuple_out r c = TEmit f <-> exists b, fires r c b f.
Proof.
  unfold tuple_out, fires. split.
  - destruct (bind_all (r_body r) c []) as [b|] eqn:Hb; [|discriminate].
    destruct (eval_exprs rx (r_exprs r) b) as [[|]|e|s] eqn:He; try discriminate.
    destruct (inst_head (r_head r) b) as [g|] eqn:Hh; try discriminate.
    intro H. injection H as H. subst g. exists b. auto.
  - intros [b [Hb [He Hh]]]. rewrite Hb, He, Hh. reflexivity.
Qed.

Lemma tuple_out_stop r c e :
  tuple_out r c = TStop e ->
  exists b, bind_all (r_body r) c [] = Some b /\
    ((eval_exprs rx (r_exprs r) b = Err e /\ expr_err e = true) \/
     (eval_exprs rx (r_exprs r) b = Ok true /\ inst_head (r_head r) b = None /\ e = EInvalidRule)).
Proof.
  unfold tuple_out.
  destruct (bind_all (r_body r) c []) as [b|] eqn:Hb; [|discriminate].
  pose proof (eval_exprs_good (r_exprs r) b) as Hg.
  destruct (eval_exprs rx (r_exprs r) b) as [[|]|e0|s] eqn:He; cbn [good_res] in Hg.
  - destruct (inst_head (r_head r) b) as [g|] eqn:Hh; [discriminate|].
    intro H. injection H as H. subst e. exists b. split; [reflexivity|]. right. auto.
  - discriminate.
  - intro H. injection H as H. subst e0. exists b. split; [reflexivity|]. left. auto.
  - destruct Hg.
Qed.

Lemma consume_in r cs : forall acc acc' e,
  consume rx r cs acc = (acc', e) ->
  forall f, In f acc' -> In f acc \/ exists c b, In c cs /\ fires r c b f.
Proof.
  induction cs as [|c cs IH]; intros acc acc' e H f Hf.
  - cbn [consume] in H. injection H as H1 H2. subst. left; exact Hf.
  - rewrite consume_step in H. destruct (tuple_out r c) as [|g|e0] eqn:Ht.
    + destruct (IH _ _ _ H f Hf) as [Hi|[c0 [b [Hc Hfi]]]]; [left; exact Hi|].
      right. exists c0, b. split; [right; exact Hc | exact Hfi].
    + destruct (IH _ _ _ H f Hf) as [Hi|[c0 [b [Hc Hfi]]]].
      * apply insert_fact_in_inv in Hi as [Hi|Hi]; [left; exact Hi|].
        subst g. apply tuple_out_emit in Ht as [b Hb].
        right. exists c, b. split; [left; reflexivity | exact Hb].
      * right. exists c0, b. split; [right; exact Hc | exact Hfi].
    + injection H as H1 H2. subst. left; exact Hf.
Qed.

Lemma consume_incl r cs : forall acc acc' e,
  consume rx r cs acc = (acc', e) -> forall g, In g acc -> In g acc'.
Proof.
  induction cs as [|c cs IH]; intros acc acc' e H g Hg.
  - cbn [consume] in H. injection H as H1 H2. subst. exact Hg.
  - rewrite consume_step in H. destruct (tuple_out r c) as [|f|e0].
    + eapply IH; eassumption.
    + eapply IH; [exact H|]. apply insert_fact_incl. exact Hg.
    + injection H as H1 H2. subst. exact Hg.
Qed.

Lemma consume_complete r cs : forall acc acc' c f,
  consume rx r cs acc = (acc', None) -> In c cs -> tuple_out r c = TEmit f ->
  fact_in f acc' = true.
Proof.
  induction cs as [|c0 cs IH]; intros acc acc' c f H Hc Ht; [destruct Hc|].
  rewrite consume_step in H. destruct Hc as [Hc|Hc].
  - subst c0. rewrite Ht in H.
    eapply fact_in_mono; [eapply consume_incl; exact H | apply insert_fact_self].
  - destruct (tuple_out r c0) as [|g|e0].
    + eapply IH; eassumption.
    + eapply IH; eassumption.
    + discriminate H.
Qed.

Lemma consume_err_indep r cs : forall acc acc2,
  snd (consume rx r cs acc) = snd (consume rx r cs acc2).
Proof.
  induction cs as [|c cs IH]; intros acc acc2; [reflexivity|].
  rewrite !consume_step. destruct (tuple_out r c) as [|g|e0]; [apply IH | apply IH | reflexivity].
Qed.

Lemma consume_err r cs : forall acc acc' e,
  consume rx r cs acc = (acc', Some e) -> exists c, In c cs /\ tuple_out r c = TStop e.
Proof.
  induction cs as [|c cs IH]; intros acc acc' e H.
  - cbn [consume] in H. discriminate H.
  - rewrite consume_step in H. destruct (tuple_out r c) as [|g|e0] eqn:Ht.
    + destruct (IH _ _ _ H) as [c0 [Hc Hs]]. exists c0. split; [right; exact Hc | exact Hs].
    + destruct (IH _ _ _ H) as [c0 [Hc Hs]]. exists c0. split; [right; exact Hc | exact Hs].
    + injection H as H1 H2. subst. exists c. split; [left; reflexivity | exact Ht].
Qed.

Lemma apply_rules_cons r rs fs acc :
  apply_rules rx (r :: rs) fs acc =
  match apply_rule rx r fs acc with
  | (acc', None) => apply_rules rx rs fs acc'
  | (acc', Some e) => (acc', Some e)
  end.
Proof. reflexivity. Qed.

Lemma apply_rules_in rs fs : forall acc acc' e,
  apply_rules rx rs fs acc = (acc', e) ->
  forall f, In f acc' ->
  In f acc \/ exists r c b, In r rs /\ In c (combos (r_body r) fs) /\ fires r c b f.
Proof.
  induction rs as [|r rs IH]; intros acc acc' e H f Hf.
  - cbn [apply_rules] in H. injection H as H1 H2. subst. left; exact Hf.
  - rewrite apply_rules_cons in H.
    destruct (apply_rule rx r fs acc) as [acc1 [e1|]] eqn:Hr.
    + injection H as H1 H2. subst. unfold apply_rule in Hr.
      destruct (consume_in _ _ _ _ _ Hr f Hf) as [Hi|[c [b [Hc Hfi]]]]; [left; exact Hi|].
      right. exists r, c, b. split; [left; reflexivity | split; assumption].
    + destruct (IH _ _ _ H f Hf) as [Hi|[r0 [c [b [Hr0 [Hc Hfi]]]]]].
      * unfold apply_rule in Hr.
        destruct (consume_in _ _ _ _ _ Hr f Hi) as [Hi'|[c [b [Hc Hfi]]]]; [left; exact Hi'|].
        right. exists r, c, b. split; [left; reflexivity | split; assumption].
      * right. exists r0, c, b. split; [right; exact Hr0 | split; assumption].
Qed.

Lemma apply_rules_incl rs fs : forall acc acc' e,
  apply_rules rx rs fs acc = (acc', e) -> forall g, In g acc -> In g acc'.
Proof.
  induction rs as [|r rs IH]; intros acc acc' e H g Hg.
  - cbn [apply_rules] in H. injection H as H1 H2. subst. exact Hg.
  - rewrite apply_rules_cons in H.
    destruct (apply_rule rx r fs acc) as [acc1 [e1|]] eqn:Hr; unfold apply_rule in Hr.
    + injection H as H1 H2. subst. eapply consume_incl; eassumption.
    + eapply IH; [exact H|]. eapply consume_incl; eassumption.
Qed.

Lemma apply_rules_complete rs fs : forall acc acc' r c f,
  apply_rules rx rs fs acc = (acc', None) ->
  In r rs -> In c (combos (r_body r) fs) -> tuple_out r c = TEmit f ->
  fact_in f acc' = true.
Proof.
  induction rs as [|r0 rs IH]; intros acc acc' r c f H Hr Hc Ht; [destruct Hr|].
  rewrite apply_rules_cons in H.
  destruct (apply_rule rx r0 fs acc) as [acc1 [e1|]] eqn:Hr0; [discriminate H|].
  destruct Hr as [Hr|Hr].
  - subst r0. unfold apply_rule in Hr0.
    eapply fact_in_mono; [eapply apply_rules_incl; exact H|].
    eapply consume_complete; eassumption.
  - eapply IH; eassumption.
Qed.

Lemma apply_rules_ok_each rs fs : forall acc acc' r,
  apply_rules rx rs fs acc = (acc', None) -> In r rs -> snd (apply_rule rx r fs []) = None.
Proof.
  induction rs as [|r0 rs IH]; intros acc acc' r H Hr; [destruct Hr|].
  rewrite apply_rules_cons in H.
  destruct (apply_rule rx r0 fs acc) as [acc1 [e1|]] eqn:Hr0; [discriminate H|].
  destruct Hr as [Hr|Hr].
  - subst r0. unfold apply_rule in *.
    rewrite (consume_err_indep r (combos (r_body r) fs) [] acc). rewrite Hr0. reflexivity.
  - eapply IH; eassumption.
Qed.

Lemma apply_rules_err rs fs : forall acc acc' e,
  apply_rules rx rs fs acc = (acc', Some e) ->
  exists r c, In r rs /\ In c (combos (r_body r) fs) /\ tuple_out r c = TStop e.
Proof.
  induction rs as [|r rs IH]; intros acc acc' e H.
  - cbn [apply_rules] in H. discriminate H.
  - rewrite apply_rules_cons in H.
    destruct (apply_rule rx r fs acc) as [acc1 [e1|]] eqn:Hr.
    + injection H as H1 H2. subst. unfold apply_rule in Hr.
      apply consume_err in Hr as [c [Hc Hs]].
      exists r, c. split; [left; reflexivity | split; assumption].
    + destruct (IH _ _ _ H) as [r0 [c [Hr0 [Hc Hs]]]].
      exists r0, c. split; [right; exact Hr0 | split; assumption].
Qed.

(* an error that comes out of a round is an expression error or InvalidRule *)
Lemma apply_rules_err_class rs fs acc acc' e :
  apply_rules rx rs fs acc = (acc', Some e) -> expr_err e = true \/ e = EInvalidRule.
Proof.
  intro H. apply apply_rules_err in H as [r [c [_ [_ Hs]]]].
  apply tuple_out_stop in Hs as [b [_ [[_ He]|[_ [_ He]]]]]; [left; exact He | right; exact He].
Qed.

(* ------------------------------------------------------------------ *)
(** * The iteration *)

Lemma run_loop_S fuel mf rs cur :
  run_loop rx (S fuel) mf rs cur =
  match apply_rules rx rs cur [] with
  | (_, Some e) => (cur, Some e)
  | (nf, None) =>
      if (mf <=? lenN (insert_all cur nf))%N then (insert_all cur nf, Some EMaxFacts)
      else if Nat.eqb (length (insert_all cur nf)) (length cur) then (insert_all cur nf, None)
      else run_loop rx fuel mf rs (insert_all cur nf)
  end.
Proof. reflexivity. Qed.

(* every outcome's world is reached from the start by error-free rounds *)
Lemma run_loop_inv (I : list pred -> Prop) mf rs :
  (forall cur nf, I cur -> apply_rules rx rs cur [] = (nf, None) -> I (insert_all cur nf)) ->
  forall fuel cur fs e, I cur -> run_loop rx fuel mf rs cur = (fs, e) -> I fs.
Proof.
  intros Hstep. induction fuel as [|fuel IH]; intros cur fs e Hc H.
  - cbn [run_loop] in H. injection H as H1 H2. subst. exact Hc.
  - rewrite run_loop_S in H.
    destruct (apply_rules rx rs cur []) as [nf [e1|]] eqn:Ha.
    + injection H as H1 H2. subst. exact Hc.
    + pose proof (Hstep cur nf Hc Ha) as Hn.
      destruct (mf <=? lenN (insert_all cur nf))%N.
      * injection H as H1 H2. subst. exact Hn.
      * destruct (Nat.eqb (length (insert_all cur nf)) (length cur)).
        -- injection H as H1 H2. subst. exact Hn.
        -- eapply IH; eassumption.
Qed.

(* success: the last round was error-free and added nothing *)
Lemma run_loop_ok mf rs : forall fuel cur fs,
  run_loop rx fuel mf rs cur = (fs, None) ->
  exists nf, apply_rules rx rs fs [] = (nf, None) /\ insert_all fs nf = fs /\
             (lenN fs < mf)%N.
Proof.
  induction fuel as [|fuel IH]; intros cur fs H.
  - cbn [run_loop] in H. discriminate H.
  - rewrite run_loop_S in H.
    destruct (apply_rules rx rs cur []) as [nf [e1|]] eqn:Ha; [discriminate H|].
    destruct (mf <=? lenN (insert_all cur nf))%N eqn:Hm; [discriminate H|].
    destruct (Nat.eqb (length (insert_all cur nf)) (length cur)) eqn:Hl.
    + injection H as Hfs. apply Nat.eqb_eq in Hl.
      apply insert_all_same_len in Hl as [Heq _].
      rewrite Heq in Hfs, Hm. subst fs. exists nf.
      split; [exact Ha | split; [exact Heq | apply N.leb_gt; exact Hm]].
    + eapply IH; exact H.
Qed.

(* errors: which, and what they certify *)
Lemma run_loop_err mf rs : forall fuel cur fs e,
  run_loop rx fuel mf rs cur = (fs, Some e) ->
  (e = EMaxFacts /\ (mf <= lenN fs)%N) \/
  (e = EMaxIterations /\ length cur + fuel <= length fs) \/
  (exists nf, apply_rules rx rs fs [] = (nf, Some e)).
Proof.
  induction fuel as [|fuel IH]; intros cur fs e H.
  - cbn [run_loop] in H. injection H as H1 H2. subst. right; left. split; [reflexivity | lia].
  - rewrite run_loop_S in H.
    destruct (apply_rules rx rs cur []) as [nf [e1|]] eqn:Ha.
    + injection H as H1 H2. subst. right; right. exists nf. exact Ha.
    + destruct (mf <=? lenN (insert_all cur nf))%N eqn:Hm.
      * injection H as H1 H2. subst. left. split; [reflexivity | apply N.leb_le; exact Hm].
      * destruct (Nat.eqb (length (insert_all cur nf)) (length cur)) eqn:Hl; [discriminate H|].
        apply Nat.eqb_neq in Hl. pose proof (insert_all_length nf cur) as Hlen.
        destruct (IH _ _ _ H) as [H1|[[H1 H2]|H1]].
        -- left; exact H1.
        -- right; left. split; [exact H1 | lia].
        -- right; right; exact H1.
Qed.

(* ------------------------------------------------------------------ *)
(** * Declarative semantics *)

Inductive Derivable (rules : list rule) (facts : list pred) : pred -> Prop :=
| D_base f : In f facts -> Derivable rules facts f
| D_rule r c b f :
    In r rules ->
    Forall (Derivable rules facts) c ->
    Forall2 (fun g p => pred_match g p = true) c (r_body r) ->
    bind_all (r_body r) c [] = Some b ->
    eval_exprs rx (r_exprs r) b = Ok true ->
    inst_head (r_head r) b = Some f ->
    Derivable rules facts f.

Section DerivableInd.
  Variable rules : list rule.
  Variable facts : list pred.
  Variable P : pred -> Prop.
  Hypothesis Hbase : forall f, In f facts -> P f.
  Hypothesis Hrule : forall r c b f,
    In r rules ->
    Forall (Derivable rules facts) c -> Forall P c ->
    Forall2 (fun g p => pred_match g p = true) c (r_body r) ->
    bind_all (r_body r) c [] = Some b ->
    eval_exprs rx (r_exprs r) b = Ok true ->
    inst_head (r_head r) b = Some f ->
    P f.

  Lemma Derivable_strong_ind : forall f, Derivable rules facts f -> P f.
  Proof.
    fix IH 2. intros f d. destruct d as [f H | r c b f Hr Hc Hm Hb He Hh].
    - apply Hbase; exact H.
    - assert (Hall : Forall P c).
      { clear Hr Hm Hb He Hh. revert c Hc. fix IHc 2. intros c Hc.
        destruct Hc as [|x l Hx Hl].
        - constructor.
        - constructor; [apply IH; exact Hx | apply IHc; exact Hl]. }
      eapply Hrule; eassumption.
  Qed.
End DerivableInd.

Lemma Derivable_incl rules rules' facts facts' :
  incl rules rules' -> incl facts facts' ->
  forall f, Derivable rules facts f -> Derivable rules' facts' f.
Proof.
  intros Hr Hf. apply Derivable_strong_ind.
  - intros f H. apply D_base. apply Hf; exact H.
  - intros r c b f Hin _ Hall Hm Hb He Hh.
    eapply D_rule; [apply Hr; exact Hin | exact Hall | exact Hm | exact Hb | exact He | exact Hh].
Qed.

Lemma Derivable_perm rules rules' facts facts' :
  Permutation rules rules' -> Permutation facts facts' ->
  forall f, Derivable rules facts f <-> Derivable rules' facts' f.
Proof.
  intros Pr Pf f. split; apply Derivable_incl; intros x Hx.
  - eapply Permutation_in; eassumption.
  - eapply Permutation_in; eassumption.
  - eapply Permutation_in; [apply Permutation_sym|]; eassumption.
  - eapply Permutation_in; [apply Permutation_sym|]; eassumption.
Qed.

(* a tuple of world facts that fires gives a derivable head instance *)
Lemma fires_derivable rules facts cur r c b f :
  (forall g, In g cur -> Derivable rules facts g) ->
  In r rules -> In c (combos (r_body r) cur) -> fires r c b f -> Derivable rules facts f.
Proof.
  intros Hcur Hr Hc [Hb [He Hh]]. apply combos_in in Hc as [Ha Hm].
  eapply D_rule; [exact Hr | | exact Hm | exact Hb | exact He | exact Hh].
  eapply Forall_impl; [|exact Ha]. exact Hcur.
Qed.

(* ------------------------------------------------------------------ *)
(** * 2. Soundness — for every outcome, no set-free hypothesis *)

Theorem run_sound : forall lim rules facts fs e,
  run rx lim rules facts = (fs, e) ->
  forall f, In f fs -> Derivable rules facts f.
Proof.
  intros lim rules facts fs e H. unfold run in H.
  eapply (run_loop_inv (fun cur => forall f, In f cur -> Derivable rules facts f));
    [ | | exact H].
  - intros cur nf Hcur Ha f Hf. apply insert_all_in_inv in Hf as [Hf|Hf]; [apply Hcur; exact Hf|].
    destruct (apply_rules_in _ _ _ _ _ Ha f Hf) as [[]|[r [c [b [Hr [Hc Hfi]]]]]].
    eapply fires_derivable; eassumption.
  - intros f Hf. apply D_base; exact Hf.
Qed.

(** * 4. The world only grows, and stays duplicate-free *)

Theorem run_extends : forall lim rules facts fs e,
  run rx lim rules facts = (fs, e) -> forall f, In f facts -> In f fs.
Proof.
  intros lim rules facts fs e H. unfold run in H.
  eapply (run_loop_inv (fun cur => forall f, In f facts -> In f cur)); [ | | exact H].
  - intros cur nf Hcur _ f Hf. apply insert_all_incl. apply Hcur; exact Hf.
  - intros f Hf; exact Hf.
Qed.

(* stronger than asked: no set-free hypothesis is needed, [pred_eqb] is reflexive *)
Theorem run_nodup_gen : forall lim rules facts fs e,
  NoDup facts -> run rx lim rules facts = (fs, e) -> NoDup fs.
Proof.
  intros lim rules facts fs e Hn H. unfold run in H.
  eapply (run_loop_inv (@NoDup pred)); [ | exact Hn | exact H].
  intros cur nf Hcur _. apply insert_all_NoDup; exact Hcur.
Qed.

Theorem run_nodup : forall lim rules facts fs e,
  NoDup facts -> setfree_facts facts -> setfree_rules rules ->
  run rx lim rules facts = (fs, e) -> NoDup fs.
Proof. intros lim rules facts fs e Hn _ _ H. eapply run_nodup_gen; eassumption. Qed.

(* set-freeness of the world is an invariant *)
Lemma round_setfree rules cur nf e :
  setfree_rules rules -> setfree_facts cur ->
  apply_rules rx rules cur [] = (nf, e) -> setfree_facts nf.
Proof.
  intros Hr Hc Ha. unfold setfree_facts. apply Forall_forall. intros f Hf.
  destruct (apply_rules_in _ _ _ _ _ Ha f Hf) as [[]|[r [c [b [Hin [Hcm [Hb [_ Hh]]]]]]]].
  apply combos_in in Hcm as [Hall _].
  eapply inst_head_setfree; [ | | exact Hb | exact Hh].
  - eapply Forall_impl; [|exact Hall]. intros g Hg.
    unfold setfree_facts in Hc. rewrite Forall_forall in Hc. apply Hc; exact Hg.
  - unfold setfree_rules in Hr. rewrite Forall_forall in Hr. apply Hr; exact Hin.
Qed.

Lemma insert_all_setfree cur nf :
  setfree_facts cur -> setfree_facts nf -> setfree_facts (insert_all cur nf).
Proof.
  unfold setfree_facts. rewrite !Forall_forall. intros Hc Hn f Hf.
  apply insert_all_in_inv in Hf as [Hf|Hf]; [apply Hc | apply Hn]; exact Hf.
Qed.

Theorem run_setfree : forall lim rules facts fs e,
  setfree_facts facts -> setfree_rules rules ->
  run rx lim rules facts = (fs, e) -> setfree_facts fs.
Proof.
  intros lim rules facts fs e Hf Hr H. unfold run in H.
  eapply (run_loop_inv setfree_facts); [ | exact Hf | exact H].
  intros cur nf Hcur Ha. apply insert_all_setfree; [exact Hcur|].
  eapply round_setfree; eassumption.
Qed.

(** * 8 (first part). Success is only reported for a world closed under one more round *)

(* no hypothesis at all: the literal content of "the last round added nothing" *)
Theorem run_ok_round : forall lim rules facts fs,
  run rx lim rules facts = (fs, None) ->
  exists nf, apply_rules rx rules fs [] = (nf, None) /\ insert_all fs nf = fs /\
             (forall f, In f nf -> fact_in f fs = true) /\
             (lenN fs < max_facts lim)%N.
Proof.
  intros lim rules facts fs H. unfold run in H.
  apply run_loop_ok in H as [nf [Ha [Heq Hlt]]]. exists nf.
  split; [exact Ha | split; [exact Heq | split; [|exact Hlt]]].
  assert (Hl : length (insert_all fs nf) = length fs) by (rewrite Heq; reflexivity).
  apply insert_all_same_len in Hl as [_ Hall]. exact Hall.
Qed.

Theorem run_ok_no_rule_error : forall lim rules facts fs,
  run rx lim rules facts = (fs, None) ->
  forall r, In r rules -> snd (apply_rule rx r fs []) = None.
Proof.
  intros lim rules facts fs H r Hr.
  apply run_ok_round in H as [nf [Ha _]]. eapply apply_rules_ok_each; eassumption.
Qed.

(* closure: every head instance over the final world has an Equal fact in it
   (no hypothesis: [pred_eqb] is transitive) *)
Lemma run_ok_closed : forall lim rules facts fs,
  run rx lim rules facts = (fs, None) ->
  forall r c b f, In r rules -> In c (combos (r_body r) fs) -> fires r c b f ->
  fact_in f fs = true.
Proof.
  intros lim rules facts fs H r c b f Hr Hc Hfi.
  apply run_ok_round in H as [nf [Ha [_ [Hall _]]]].
  assert (Ht : tuple_out r c = TEmit f) by (apply tuple_out_emit; exists b; exact Hfi).
  pose proof (apply_rules_complete _ _ _ _ _ _ _ Ha Hr Hc Ht) as Hin.
  eapply fact_in_trans; [exact Hin | exact Hall].
Qed.

Theorem run_ok_is_fixpoint : forall lim rules facts fs,
  run rx lim rules facts = (fs, None) ->
  forall r, In r rules -> forall nf, apply_rule rx r fs [] = (nf, None) ->
  forall f, In f nf -> fact_in f fs = true.
Proof.
  intros lim rules facts fs H r Hr nf Hap f Hf.
  unfold apply_rule in Hap.
  destruct (consume_in _ _ _ _ _ Hap f Hf) as [[]|[c [b [Hc Hfi]]]].
  eapply run_ok_closed; eassumption.
Qed.

(** * 3. Completeness, modulo Predicate.Equal *)

(* one candidate tuple, on related tuples *)
Inductive toutrel : tout -> tout -> Prop :=
| tr_skip : toutrel TSkip TSkip
| tr_emit f g : prel f g -> toutrel (TEmit f) (TEmit g)
| tr_stop e : toutrel (TStop e) (TStop e).

Lemma tuple_out_rel r c c' :
  Forall2 prel c c' -> toutrel (tuple_out r c) (tuple_out r c').
Proof.
  intros Hc. unfold tuple_out.
  assert (H0 : brel [] []) by constructor.
  pose proof (bind_all_rel (r_body r) c c' [] [] Hc H0) as Hb.
  destruct (bind_all (r_body r) c []) as [b|], (bind_all (r_body r) c' []) as [b'|];
    cbn [orel] in Hb; try contradiction; [|constructor].
  rewrite (eval_exprs_rel b b' (r_exprs r) Hb).
  destruct (eval_exprs rx (r_exprs r) b') as [[|]|e|s]; try constructor.
  pose proof (inst_head_rel (r_head r) b b' Hb) as Hh.
  destruct (inst_head (r_head r) b) as [f|], (inst_head (r_head r) b') as [f'|];
    cbn [orel] in Hh; try contradiction; constructor. exact Hh.
Qed.

Lemma matches_rel ps : forall c c',
  Forall2 prel c c' ->
  Forall2 (fun g p => pred_match g p = true) c ps -> Forall2 (fun g p => pred_match g p = true) c' ps.
Proof.
  induction ps as [|p ps IH]; intros c c' Hc Hm.
  - inversion Hm; subst. inversion Hc; subst. constructor.
  - inversion Hm as [|g p0 c0 ps0 Hg Hm']; subst. inversion Hc as [|g0 g' c1 c1' Hgg Hc']; subst.
    constructor; [rewrite <- (pred_match_rel g g' p Hgg); exact Hg | eapply IH; eassumption].
Qed.

(* a rule that fires on a tuple fires on every tuple of Equal facts, with an Equal head *)
Lemma fires_sim r c c' b f :
  Forall2 prel c c' -> fires r c b f ->
  exists b' f', fires r c' b' f' /\ prel f f'.
Proof.
  intros Hc Hfi.
  assert (Ht : tuple_out r c = TEmit f) by (apply tuple_out_emit; exists b; exact Hfi).
  pose proof (tuple_out_rel r c c' Hc) as Hr. rewrite Ht in Hr.
  inversion Hr as [|f0 f' Hff Hf0 Hout|]; subst.
  symmetry in Hout. apply tuple_out_emit in Hout as [b' Hb']. exists b', f'. split; assumption.
Qed.

(* every [W]-fact has an Equal [W']-fact *)
Definition wsim (W W' : pred -> Prop) : Prop :=
  forall f, W f -> exists g, W' g /\ prel f g.

Lemma tuple_sim (W W' : pred -> Prop) c :
  wsim W W' -> Forall W c -> exists c', Forall W' c' /\ Forall2 prel c c'.
Proof.
  intros Hs Hc. induction Hc as [|f c Hf _ [c' [Hc' Hcc]]].
  - exists []. split; constructor.
  - destruct (Hs f Hf) as [g [Hg Hfg]]. exists (g :: c'). split; constructor; assumption.
Qed.

Lemma wsim_trans (W1 W2 W3 : pred -> Prop) : wsim W1 W2 -> wsim W2 W3 -> wsim W1 W3.
Proof.
  intros H12 H23 f Hf. destruct (H12 f Hf) as [g [Hg Hfg]]. destruct (H23 g Hg) as [h [Hh Hgh]].
  exists h. split; [exact Hh | eapply prel_trans; eassumption].
Qed.

Lemma wsim_incl (W W' : pred -> Prop) : (forall f, W f -> W' f) -> wsim W W'.
Proof. intros H f Hf. exists f. split; [apply H; exact Hf | apply prel_refl]. Qed.

Lemma wsim_of_InA fs fs' :
  (forall f, In f fs -> InA fact_eqv f fs') -> wsim (fun g => In g fs) (fun g => In g fs').
Proof.
  intros H f Hin. apply H in Hin. apply InA_alt in Hin as [g [Hfg Hg]].
  exists g. split; [exact Hg | apply prel_iff; exact Hfg].
Qed.

Lemma wsim_InA (W : pred -> Prop) fs f : wsim W (fun g => In g fs) -> W f -> InA fact_eqv f fs.
Proof.
  intros H Hf. destruct (H f Hf) as [g [Hg Hfg]].
  apply InA_alt. exists g. split; [exact (prel_eqb _ _ Hfg) | exact Hg].
Qed.

(* the simulation lemma: a set of facts that covers the base facts and is
   closed under the rules, both up to Equal, covers the least model *)
Lemma Derivable_sim rules facts (W : pred -> Prop) :
  wsim (fun f => In f facts) W ->
  (forall r c b f, In r rules -> Forall W c ->
     Forall2 (fun g p => pred_match g p = true) c (r_body r) -> fires r c b f ->
     exists g, W g /\ prel f g) ->
  wsim (Derivable rules facts) W.
Proof.
  intros Hbase Hclosed. unfold wsim. apply Derivable_strong_ind; [exact Hbase|].
  intros r c b f Hr _ Hall Hm Hb He Hh.
  destruct (tuple_sim (fun f => exists g, W g /\ prel f g) W c) as [c' [Hc' Hcc]].
  - intros x [g [Hg Hxg]]. exists g. split; assumption.
  - exact Hall.
  - destruct (fires_sim r c c' b f Hcc (conj Hb (conj He Hh))) as [b' [f' [Hfi Hff]]].
    destruct (Hclosed r c' b' f' Hr Hc' (matches_rel _ _ _ Hcc Hm) Hfi) as [g [Hg Hfg]].
    exists g. split; [exact Hg | eapply prel_trans; eassumption].
Qed.

(* the form the other proofs use: an Equal fact of the world, as a relation *)
Theorem run_complete_rel : forall lim rules facts fs,
  run rx lim rules facts = (fs, None) ->
  wsim (Derivable rules facts) (fun g => In g fs).
Proof.
  intros lim rules facts fs H. apply Derivable_sim.
  - apply wsim_incl. intros f Hin. eapply run_extends; eassumption.
  - intros r c b f Hin Hall Hm Hfi.
    assert (Hc : In c (combos (r_body r) fs)) by (apply combos_in; split; assumption).
    pose proof (run_ok_closed _ _ _ _ H r c b f Hin Hc Hfi) as Hfa.
    apply fact_in_iff in Hfa as [g [Hg He]]. exists g. split; [exact Hg|].
    apply prel_iff. rewrite pred_eqb_sym. exact He.
Qed.

(** every derivable fact has an Equal fact in the world: for every program *)
Theorem run_complete : forall lim rules facts fs,
  run rx lim rules facts = (fs, None) ->
  forall f, Derivable rules facts f -> InA fact_eqv f fs.
Proof.
  intros lim rules facts fs H f Hd.
  exact (wsim_InA _ _ _ (run_complete_rel _ _ _ _ H) Hd).
Qed.

(* the world never holds two Equal facts if it did not at the start *)
Theorem run_nodupA : forall lim rules facts fs e,
  NoDupA fact_eqv facts -> run rx lim rules facts = (fs, e) -> NoDupA fact_eqv fs.
Proof.
  intros lim rules facts fs e Hn H. unfold run in H.
  eapply (run_loop_inv (NoDupA fact_eqv)); [ | exact Hn | exact H].
  intros cur nf Hcur _. apply insert_all_NoDupA; exact Hcur.
Qed.

(** * 5. C05: the result is exactly the least model, one fact per class of Equal facts *)

Theorem C05_least_model : forall lim rules facts fs,
  NoDupA fact_eqv facts ->
  run rx lim rules facts = (fs, None) ->
  (forall f, In f fs -> Derivable rules facts f) /\
  (forall f, Derivable rules facts f -> InA fact_eqv f fs) /\
  NoDupA fact_eqv fs.
Proof.
  intros lim rules facts fs Hn H. split; [|split].
  - eapply run_sound; exact H.
  - eapply run_complete; eassumption.
  - eapply run_nodupA; eassumption.
Qed.

(** * 6. Queries *)

(* the left-to-right direction holds for every rule, every world and every outcome *)
Theorem query_sound : forall r fs h,
  In h (query_rule rx r fs) ->
  exists c b,
    Forall (fun g => In g fs) c /\
    Forall2 (fun g p => pred_match g p = true) c (r_body r) /\
    bind_all (r_body r) c [] = Some b /\
    eval_exprs rx (r_exprs r) b = Ok true /\
    inst_head (r_head r) b = Some h.
Proof.
  intros r fs h. unfold query_rule.
  destruct (apply_rule rx r fs []) as [res e] eqn:Hap. cbn [fst]. unfold apply_rule in Hap.
  intro Hin. destruct (consume_in _ _ _ _ _ Hap h Hin) as [[]|[c [b [Hc [Hb [He Hi]]]]]].
  apply combos_in in Hc as [Ha Hm]. exists c, b. auto.
Qed.

(* every head instance has an Equal fact in the result *)
Theorem query_complete : forall r fs,
  snd (apply_rule rx r fs []) = None ->
  forall c b h,
    Forall (fun g => In g fs) c ->
    Forall2 (fun g p => pred_match g p = true) c (r_body r) ->
    bind_all (r_body r) c [] = Some b ->
    eval_exprs rx (r_exprs r) b = Ok true ->
    inst_head (r_head r) b = Some h ->
    InA fact_eqv h (query_rule rx r fs).
Proof.
  intros r fs Hno c b h Ha Hm Hb He Hi. unfold query_rule.
  destruct (apply_rule rx r fs []) as [res e] eqn:Hap. cbn [fst snd] in *. subst e.
  unfold apply_rule in Hap.
  assert (Hc : In c (combos (r_body r) fs)) by (apply combos_in; split; assumption).
  assert (Ht : tuple_out r c = TEmit h).
  { apply tuple_out_emit. exists b. unfold fires. auto. }
  apply InA_fact_in. exact (consume_complete _ _ _ _ _ _ Hap Hc Ht).
Qed.

Theorem query_exact : forall r fs,
  snd (apply_rule rx r fs []) = None ->
  forall h, InA fact_eqv h (query_rule rx r fs) <->
    exists c b h',
      Forall (fun g => In g fs) c /\
      Forall2 (fun g p => pred_match g p = true) c (r_body r) /\
      bind_all (r_body r) c [] = Some b /\
      eval_exprs rx (r_exprs r) b = Ok true /\
      inst_head (r_head r) b = Some h' /\ fact_eqv h h'.
Proof.
  intros r fs Hno h. split.
  - intro Hin. apply InA_alt in Hin as [h' [Heq Hin]].
    destruct (query_sound r fs h' Hin) as [c [b [Ha [Hm [Hb [He Hi]]]]]].
    exists c, b, h'. auto 7.
  - intros [c [b [h' [Ha [Hm [Hb [He [Hi Heq]]]]]]]].
    eapply InA_eqA; [exact fact_eqv_Equivalence | symmetry; exact Heq|].
    eapply query_complete; eassumption.
Qed.

(** * 7. Order independence *)

(* programs with Equal base facts and the same rules have Equal least models *)
Lemma Derivable_eqv rules rules' facts facts' :
  (forall r, In r rules -> In r rules') ->
  (forall f, In f facts -> InA fact_eqv f facts') ->
  wsim (Derivable rules facts) (Derivable rules' facts').
Proof.
  intros Hincl Hbase. apply Derivable_sim.
  - intros f Hin. apply Hbase in Hin. apply InA_alt in Hin as [g [Hfg Hg]].
    exists g. split; [apply D_base; exact Hg | apply prel_iff; exact Hfg].
  - intros r c b f Hin Hall Hm [Hb [He Hh]]. exists f. split; [|apply prel_refl].
    eapply D_rule; [apply Hincl; exact Hin | exact Hall | exact Hm | exact Hb | exact He | exact Hh].
Qed.

Lemma run_InA_incl lim lim' rules rules' facts facts' a b :
  (forall r, In r rules -> In r rules') ->
  (forall f, In f facts -> InA fact_eqv f facts') ->
  run rx lim rules facts = (a, None) -> run rx lim' rules' facts' = (b, None) ->
  forall x, InA fact_eqv x a -> InA fact_eqv x b.
Proof.
  intros Hincl Hbase Ha Hb x Hx.
  apply InA_alt in Hx as [y [Hxy Hy]].
  pose proof (run_sound _ _ _ _ _ Ha y Hy) as Hd.
  destruct (Derivable_eqv rules rules' facts facts' Hincl Hbase y Hd) as [y' [Hd' Hyy]].
  pose proof (run_complete _ _ _ _ Hb y' Hd') as Hin.
  eapply InA_eqA; [exact fact_eqv_Equivalence | | exact Hin].
  symmetry. etransitivity; [exact Hxy | exact (prel_eqb _ _ Hyy)].
Qed.

(* the same facts up to Equal (in any order, with any multiplicity) and the
   same rules (likewise): the same world up to Equal *)
Theorem run_equivlist : forall lim lim' rules rules' facts facts' a b,
  equivlistA fact_eqv facts facts' -> (forall r, In r rules <-> In r rules') ->
  run rx lim rules facts = (a, None) -> run rx lim' rules' facts' = (b, None) ->
  equivlistA fact_eqv a b.
Proof.
  intros lim lim' rules rules' facts facts' a b He Hrr Ha Hb x. split.
  - eapply (run_InA_incl lim lim' rules rules' facts facts'); try eassumption.
    + intros r H. apply Hrr. exact H.
    + intros f H. apply He. apply In_InA_fact. exact H.
  - eapply (run_InA_incl lim' lim rules' rules facts' facts); try eassumption.
    + intros r H. apply Hrr. exact H.
    + intros f H. apply He. apply In_InA_fact. exact H.
Qed.

Theorem run_perm : forall lim lim' rules rules' facts facts' a b,
  NoDupA fact_eqv facts ->
  Permutation facts facts' -> Permutation rules rules' ->
  run rx lim rules facts = (a, None) -> run rx lim' rules' facts' = (b, None) ->
  PermutationA fact_eqv a b.
Proof.
  intros lim lim' rules rules' facts facts' a b Hn Pf Pr Ha Hb.
  assert (Hn' : NoDupA fact_eqv facts').
  { eapply PermutationA_preserves_NoDupA; [exact fact_eqv_Equivalence | | exact Hn].
    apply Permutation_PermutationA; [exact fact_eqv_Equivalence | exact Pf]. }
  apply NoDupA_equivlistA_PermutationA; [exact fact_eqv_Equivalence | | |].
  - exact (run_nodupA _ _ _ _ _ Hn Ha).
  - exact (run_nodupA _ _ _ _ _ Hn' Hb).
  - eapply (run_equivlist lim lim' rules rules' facts facts'); try eassumption.
    + apply PermutationA_equivlistA; [exact fact_eqv_Equivalence|].
      apply Permutation_PermutationA; [exact fact_eqv_Equivalence | exact Pf].
    + intro r. split; intro H.
      * eapply Permutation_in; eassumption.
      * eapply Permutation_in; [apply Permutation_sym|]; eassumption.
Qed.

(* ------------------------------------------------------------------ *)
(** * The set-free corollaries: syntactic membership *)

(* closure, syntactically *)
Lemma run_ok_closed_setfree : forall lim rules facts fs,
  setfree_facts facts -> setfree_rules rules ->
  run rx lim rules facts = (fs, None) ->
  forall r c b f, In r rules -> In c (combos (r_body r) fs) -> fires r c b f -> In f fs.
Proof.
  intros lim rules facts fs Hsf Hsr H r c b f Hr Hc Hfi.
  pose proof (run_setfree _ _ _ _ _ Hsf Hsr H) as Hfs.
  apply run_ok_round in H as [nf [Ha [_ [Hall _]]]].
  assert (Ht : tuple_out r c = TEmit f) by (apply tuple_out_emit; exists b; exact Hfi).
  pose proof (apply_rules_complete _ _ _ _ _ _ _ Ha Hr Hc Ht) as Hin.
  pose proof (round_setfree _ _ _ _ Hsr Hfs Ha) as Hnf.
  apply fact_in_In in Hin; [|exact Hnf].
  apply fact_in_In; [exact Hfs | apply Hall; exact Hin].
Qed.

Theorem run_complete_setfree : forall lim rules facts fs,
  setfree_facts facts -> setfree_rules rules ->
  run rx lim rules facts = (fs, None) ->
  forall f, Derivable rules facts f -> In f fs.
Proof.
  intros lim rules facts fs Hsf Hsr H. apply Derivable_strong_ind.
  - intros f Hf. eapply run_extends; eassumption.
  - intros r c b f Hr _ Hall Hm Hb He Hh.
    eapply (run_ok_closed_setfree _ _ _ _ Hsf Hsr H r c b f Hr).
    + apply combos_in. split; [exact Hall | exact Hm].
    + unfold fires. auto.
Qed.

Theorem C05_least_model_setfree : forall lim rules facts fs,
  NoDup facts -> setfree_facts facts -> setfree_rules rules ->
  run rx lim rules facts = (fs, None) ->
  (forall f, In f fs <-> Derivable rules facts f) /\ NoDup fs.
Proof.
  intros lim rules facts fs Hn Hsf Hsr H. split.
  - intros f. split.
    + eapply run_sound; exact H.
    + eapply run_complete_setfree; eassumption.
  - eapply run_nodup_gen; eassumption.
Qed.

(* "least": any set of facts that contains the base facts and is closed under
   the rules contains every derivable fact, hence the result of [run] *)
Theorem Derivable_least : forall rules facts (M : pred -> Prop),
  (forall f, In f facts -> M f) ->
  (forall r c b f, In r rules -> Forall M c ->
     Forall2 (fun g p => pred_match g p = true) c (r_body r) ->
     bind_all (r_body r) c [] = Some b -> eval_exprs rx (r_exprs r) b = Ok true ->
     inst_head (r_head r) b = Some f -> M f) ->
  forall f, Derivable rules facts f -> M f.
Proof.
  intros rules facts M Hb Hc. apply Derivable_strong_ind; [exact Hb|].
  intros r c b f Hr _ Hall Hm Hbd He Hh. eapply Hc; eassumption.
Qed.

Theorem query_exact_setfree : forall r fs,
  setfree_facts fs -> setfree_pred (r_head r) = true ->
  snd (apply_rule rx r fs []) = None ->
  forall h, In h (query_rule rx r fs) <->
    exists c b,
      Forall (fun g => In g fs) c /\
      Forall2 (fun g p => pred_match g p = true) c (r_body r) /\
      bind_all (r_body r) c [] = Some b /\
      eval_exprs rx (r_exprs r) b = Ok true /\
      inst_head (r_head r) b = Some h.
Proof.
  intros r fs Hfs Hh Hno h. unfold query_rule.
  destruct (apply_rule rx r fs []) as [res e] eqn:Hap. cbn [fst snd] in *. subst e.
  unfold apply_rule in Hap. split.
  - intro Hin. destruct (consume_in _ _ _ _ _ Hap h Hin) as [[]|[c [b [Hc [Hb [He Hi]]]]]].
    apply combos_in in Hc as [Ha Hm]. exists c, b. auto.
  - intros [c [b [Ha [Hm [Hb [He Hi]]]]]].
    assert (Hc : In c (combos (r_body r) fs)) by (apply combos_in; split; assumption).
    assert (Ht : tuple_out r c = TEmit h).
    { apply tuple_out_emit. exists b. unfold fires. auto. }
    pose proof (consume_complete _ _ _ _ _ _ Hap Hc Ht) as Hfi.
    unfold fact_in in Hfi. apply existsb_exists in Hfi as [g [Hg Heq]].
    assert (Hsh : setfree_pred h = true).
    { eapply inst_head_setfree; [ | exact Hh | exact Hb | exact Hi].
      eapply Forall_impl; [|exact Ha]. intros x Hx.
      unfold setfree_facts in Hfs. rewrite Forall_forall in Hfs. apply Hfs; exact Hx. }
    apply pred_eqb_true_r in Heq; [|exact Hsh]. subst g. exact Hg.
Qed.

(** * 8 (rest). Limits *)

Theorem run_max_facts : forall lim rules facts fs,
  run rx lim rules facts = (fs, Some EMaxFacts) -> (max_facts lim <= lenN fs)%N.
Proof.
  intros lim rules facts fs H. unfold run in H.
  apply run_loop_err in H as [[_ H]|[[H _]|[nf H]]].
  - exact H.
  - discriminate H.
  - apply apply_rules_err_class in H as [H|H]; discriminate H.
Qed.

Theorem run_ok_below_max_facts : forall lim rules facts fs,
  run rx lim rules facts = (fs, None) -> (lenN fs < max_facts lim)%N.
Proof.
  intros lim rules facts fs H. apply run_ok_round in H as [nf [_ [_ [_ H]]]]. exact H.
Qed.

Theorem run_max_iterations_zero : forall lim rules facts,
  max_iterations lim = 0%N -> run rx lim rules facts = (facts, Some EMaxIterations).
Proof. intros lim rules facts H. unfold run. rewrite H. reflexivity. Qed.

(* MaxIterations certifies that every one of the [max_iterations] rounds grew the world *)
Theorem run_max_iterations_grew : forall lim rules facts fs,
  run rx lim rules facts = (fs, Some EMaxIterations) ->
  length facts + N.to_nat (max_iterations lim) <= length fs.
Proof.
  intros lim rules facts fs H. unfold run in H.
  apply run_loop_err in H as [[H _]|[[_ H]|[nf H]]].
  - discriminate H.
  - exact H.
  - apply apply_rules_err_class in H as [H|H]; discriminate H.
Qed.

Theorem run_error_cases : forall lim rules facts fs e,
  run rx lim rules facts = (fs, Some e) ->
  e = EMaxFacts \/ e = EMaxIterations \/
  exists r c b,
    In r rules /\
    Forall (fun g => In g fs) c /\
    Forall2 (fun g p => pred_match g p = true) c (r_body r) /\
    bind_all (r_body r) c [] = Some b /\
    ((eval_exprs rx (r_exprs r) b = Err e /\ expr_err e = true) \/
     (eval_exprs rx (r_exprs r) b = Ok true /\ inst_head (r_head r) b = None /\
      e = EInvalidRule)).
Proof.
  intros lim rules facts fs e H. unfold run in H.
  apply run_loop_err in H as [[H _]|[[H _]|[nf H]]].
  - left; exact H.
  - right; left; exact H.
  - right; right. apply apply_rules_err in H as [r [c [Hr [Hc Hs]]]].
    apply combos_in in Hc as [Ha Hm]. apply tuple_out_stop in Hs as [b [Hb Hcase]].
    exists r, c, b. auto.
Qed.

(* the three error families are disjoint: a rule error is never a limit error *)
Lemma expr_err_not_limit e :
  expr_err e = true \/ e = EInvalidRule -> e <> EMaxFacts /\ e <> EMaxIterations.
Proof. intros [H|H]; split; intro Hc; subst; discriminate. Qed.

Theorem run_perm_setfree : forall lim lim' rules rules' facts facts' a b,
  setfree_facts facts -> setfree_rules rules -> NoDup facts ->
  Permutation facts facts' -> Permutation rules rules' ->
  run rx lim rules facts = (a, None) -> run rx lim' rules' facts' = (b, None) ->
  Permutation a b.
Proof.
  intros lim lim' rules rules' facts facts' a b Hsf Hsr Hn Pf Pr Ha Hb.
  assert (Hsf' : setfree_facts facts').
  { unfold setfree_facts in *. rewrite Forall_forall in *. intros x Hx. apply Hsf.
    eapply Permutation_in; [apply Permutation_sym; exact Pf | exact Hx]. }
  assert (Hsr' : setfree_rules rules').
  { unfold setfree_rules in *. rewrite Forall_forall in *. intros x Hx. apply Hsr.
    eapply Permutation_in; [apply Permutation_sym; exact Pr | exact Hx]. }
  assert (Hn' : NoDup facts') by (eapply Permutation_NoDup; eassumption).
  destruct (C05_least_model_setfree _ _ _ _ Hn Hsf Hsr Ha) as [Hma Hna].
  destruct (C05_least_model_setfree _ _ _ _ Hn' Hsf' Hsr' Hb) as [Hmb Hnb].
  apply NoDup_Permutation; [exact Hna | exact Hnb|].
  intros f. rewrite Hma, Hmb. apply Derivable_perm; assumption.
Qed.

(* on set-free facts Predicate.Equal is equality, and the statements up to
   Equal are the syntactic ones *)
Lemma PermutationA_setfree a b : setfree_facts a -> PermutationA fact_eqv a b -> Permutation a b.
Proof.
  intros Hs H. induction H as [|x y l l' Hxy H IH|x y l|l1 l2 l3 H1 IH1 H2 IH2].
  - constructor.
  - inversion Hs as [|x0 l0 Hx Hl]; subst.
    apply pred_eqb_true_l in Hxy; [|exact Hx]. subst y. constructor. apply IH. exact Hl.
  - apply perm_swap.
  - pose proof (IH1 Hs) as P1. eapply Permutation_trans; [exact P1|]. apply IH2.
    unfold setfree_facts in *. rewrite Forall_forall in *. intros f Hf. apply Hs.
    eapply Permutation_in; [apply Permutation_sym; exact P1 | exact Hf].
Qed.

Lemma NoDup_setfree_NoDupA fs : setfree_facts fs -> NoDup fs -> NoDupA fact_eqv fs.
Proof.
  intros Hs Hn. induction Hn as [|f l Hf Hn IH]; constructor.
  - inversion Hs as [|x0 l0 Hx Hl]; subst. intro Hin. apply InA_alt in Hin as [g [Hfg Hg]].
    apply pred_eqb_true_l in Hfg; [|exact Hx]. subst g. contradiction.
  - apply IH. inversion Hs; assumption.
Qed.


End WithRx.

(* ------------------------------------------------------------------ *)
(** * Deciding the hypotheses on concrete data *)

Fixpoint nodupA_b (fs : list pred) : bool :=
  match fs with [] => true | f :: l => negb (fact_in f l) && nodupA_b l end.

Lemma nodupA_b_ok fs : nodupA_b fs = true -> NoDupA fact_eqv fs.
Proof.
  induction fs as [|f l IH]; cbn [nodupA_b]; intro H; constructor;
    apply andb_true_iff in H as [H1 H2]; [|apply IH; exact H2].
  intro Hin. apply InA_fact_in in Hin. rewrite Hin in H1. discriminate H1.
Qed.

Definition equivlist_b (a b : list pred) : bool :=
  forallb (fun f => fact_in f b) a && forallb (fun f => fact_in f a) b.

Lemma equivlist_b_iff a b : equivlist_b a b = true <-> equivlistA fact_eqv a b.
Proof.
  unfold equivlist_b. rewrite andb_true_iff, !forallb_forall. split.
  - intros [H1 H2] x. split; intro Hx; apply InA_alt in Hx as [y [Hxy Hy]];
      (eapply InA_eqA; [exact fact_eqv_Equivalence | symmetry; exact Hxy |]); apply InA_fact_in.
    + apply H1. exact Hy.
    + apply H2. exact Hy.
  - intro H. split; intros f Hf; apply InA_fact_in; apply H; apply In_InA_fact; exact Hf.
Qed.

(* ------------------------------------------------------------------ *)
(** * 9. Concrete programs *)

Definition rx0 : bytes -> bytes -> option bool := fun _ _ => None.
Definition lim0 : limits := {| max_facts := 1000%N; max_iterations := 100%N |}.

Definition tstr (n : N) : term := TA (AStr [n]).
Definition tvar (n : N) : term := TA (AVar [n]).
Definition tint (z : Z) : term := TA (AInt z).

(* parent = "p", ancestor = "a"; $x $y $z = 120 121 122 *)
Definition parent (a b : term) : pred := {| p_name := [112%N]; p_terms := [a; b] |}.
Definition ancestor (a b : term) : pred := {| p_name := [97%N]; p_terms := [a; b] |}.

Definition anc_facts : list pred :=
  [parent (tstr 1) (tstr 2); parent (tstr 2) (tstr 3); parent (tstr 3) (tstr 4)].

Definition anc_rules : list rule :=
  [ {| r_head := ancestor (tvar 120) (tvar 121);
       r_body := [parent (tvar 120) (tvar 121)];
       r_exprs := [] |};
    {| r_head := ancestor (tvar 120) (tvar 122);
       r_body := [parent (tvar 120) (tvar 121); ancestor (tvar 121) (tvar 122)];
       r_exprs := [] |} ].

(* two-way join + recursion: 3 parent facts, 6 ancestor facts, in the order the
   rounds produce them *)
Example anc_run :
  run rx0 lim0 anc_rules anc_facts =
  (anc_facts ++
   [ancestor (tstr 1) (tstr 2); ancestor (tstr 2) (tstr 3); ancestor (tstr 3) (tstr 4);
    ancestor (tstr 1) (tstr 3); ancestor (tstr 2) (tstr 4); ancestor (tstr 1) (tstr 4)],
   None).
Proof. vm_compute. reflexivity. Qed.

Example anc_run_length :
  length (fst (run rx0 lim0 anc_rules anc_facts)) = 9 /\
  snd (run rx0 lim0 anc_rules anc_facts) = None.
Proof. split; vm_compute; reflexivity. Qed.

(* the hypotheses of the main theorems hold of this program *)
Example anc_setfree_facts : setfree_facts anc_facts.
Proof. repeat constructor. Qed.
Example anc_setfree_rules : setfree_rules anc_rules.
Proof. repeat constructor. Qed.
Example anc_nodup : NoDup anc_facts.
Proof. repeat constructor; cbn [In anc_facts]; intuition discriminate. Qed.

(* C05 instantiated: membership in the computed world is derivability *)
Example anc_least_model :
  (forall f, In f (fst (run rx0 lim0 anc_rules anc_facts)) <-> Derivable rx0 anc_rules anc_facts f)
  /\ NoDup (fst (run rx0 lim0 anc_rules anc_facts)).
Proof.
  apply (C05_least_model_setfree rx0 lim0); [exact anc_nodup | exact anc_setfree_facts
    | exact anc_setfree_rules | vm_compute; reflexivity].
Qed.

Example anc_derivable_1_4 : Derivable rx0 anc_rules anc_facts (ancestor (tstr 1) (tstr 4)).
Proof.
  destruct anc_least_model as [H _]. refine (proj1 (H _) _). vm_compute.
  repeat ((left; reflexivity) || right).
Qed.

(* order independence on the same program with both lists reversed *)
Example anc_perm :
  Permutation (fst (run rx0 lim0 anc_rules anc_facts))
              (fst (run rx0 lim0 (rev anc_rules) (rev anc_facts))).
Proof.
  eapply (run_perm_setfree rx0 lim0 lim0 anc_rules (rev anc_rules) anc_facts (rev anc_facts));
    [exact anc_setfree_facts | exact anc_setfree_rules | exact anc_nodup
    | apply Permutation_rev | apply Permutation_rev
    | vm_compute; reflexivity | vm_compute; reflexivity].
Qed.

(* the reversed program really produces a different order, same set *)
Example anc_perm_order_differs :
  fst (run rx0 lim0 (rev anc_rules) (rev anc_facts)) <> fst (run rx0 lim0 anc_rules anc_facts).
Proof. vm_compute. discriminate. Qed.

(* a query with a repeated variable, a constant and an expression:
   big($x) <- n($x, $x, 7), $x > 1 *)
Definition nfact (a b c : term) : pred := {| p_name := [110%N]; p_terms := [a; b; c] |}.
Definition big (a : term) : pred := {| p_name := [98%N]; p_terms := [a] |}.
Definition q_facts : list pred :=
  [nfact (tint 1) (tint 1) (tint 7); nfact (tint 2) (tint 2) (tint 7);
   nfact (tint 3) (tint 4) (tint 7); nfact (tint 5) (tint 5) (tint 8);
   nfact (tint 6) (tint 6) (tint 7)].
Definition q_rule : rule :=
  {| r_head := big (tvar 120);
     r_body := [nfact (tvar 120) (tvar 120) (tint 7)];
     r_exprs := [[OVal (tvar 120); OVal (tint 1); OBin BGreaterThan]] |}.

Example q_run : query_rule rx0 q_rule q_facts = [big (tint 2); big (tint 6)].
Proof. vm_compute. reflexivity. Qed.

Example q_hyps :
  setfree_facts q_facts /\ setfree_pred (r_head q_rule) = true /\
  snd (apply_rule rx0 q_rule q_facts []) = None.
Proof. split; [repeat constructor | split; vm_compute; reflexivity]. Qed.

Example q_exact_instance :
  exists c b,
    Forall (fun g => In g q_facts) c /\
    Forall2 (fun g p => pred_match g p = true) c (r_body q_rule) /\
    bind_all (r_body q_rule) c [] = Some b /\
    eval_exprs rx0 (r_exprs q_rule) b = Ok true /\
    inst_head (r_head q_rule) b = Some (big (tint 6)).
Proof.
  destruct q_hyps as [H1 [H2 H3]].
  apply (query_exact_setfree rx0 q_rule q_facts H1 H2 H3). vm_compute. tauto.
Qed.

(* an expression error ends the stream; the query keeps what was produced before:
   big($x) <- n($x, $y, $z), 12 / ($y - 4) < 0 *)
Definition q_rule_err : rule :=
  {| r_head := big (tvar 120);
     r_body := [nfact (tvar 120) (tvar 121) (tvar 122)];
     r_exprs := [[OVal (tint 12); OVal (tvar 121); OVal (tint 4); OBin BSub; OBin BDiv;
                  OVal (tint 0); OBin BLessThan]] |}.
Example q_err_run :
  apply_rule rx0 q_rule_err q_facts [] = ([big (tint 1); big (tint 2)], Some EDivZero) /\
  run rx0 lim0 [q_rule_err] q_facts = (q_facts, Some EDivZero).
Proof. split; vm_compute; reflexivity. Qed.

(* a head variable missing from the body *)
Definition q_rule_invalid : rule :=
  {| r_head := big (tvar 119); r_body := [nfact (tvar 120) (tvar 121) (tvar 122)]; r_exprs := [] |}.
Example q_invalid_run :
  run rx0 lim0 [q_rule_invalid] q_facts = (q_facts, Some EInvalidRule).
Proof. vm_compute. reflexivity. Qed.

(* ---- set constants, repeated elements included ---- *)
Definition sp (t : term) : pred := {| p_name := [112%N]; p_terms := [t] |}.
Definition sq (t : term) : pred := {| p_name := [113%N]; p_terms := [t] |}.
Definition sr (t : term) : pred := {| p_name := [114%N]; p_terms := [t] |}.
Definition st (a b : term) : pred := {| p_name := [116%N]; p_terms := [a; b] |}.
Definition set1 : term := TSet [AInt 1].
Definition set11 : term := TSet [AInt 1; AInt 1].
Definition set12 : term := TSet [AInt 1; AInt 2].
Definition set21 : term := TSet [AInt 2; AInt 1].
Definition set112 : term := TSet [AInt 1; AInt 1; AInt 2].
Definition set122 : term := TSet [AInt 1; AInt 2; AInt 2].
(* q($x) <- p($x) *)
Definition set_rule : rule :=
  {| r_head := sq (tvar 120); r_body := [sp (tvar 120)]; r_exprs := [] |}.

(* Before the repair of Set.Equal the program below lost q([1,2]) in one fact
   order (p([1,2]) was taken for a duplicate of p([1,1]) by [insert_fact]); now
   both p's and both q's are in the world, in both fact orders *)
Example run_sets_repaired :
  run rx0 lim0 [set_rule] (insert_all [] [sp set11; sp set12])
    = ([sp set11; sp set12; sq set11; sq set12], None) /\
  run rx0 lim0 [set_rule] (insert_all [] [sp set12; sp set11])
    = ([sp set12; sp set11; sq set12; sq set11], None).
Proof. split; vm_compute; reflexivity. Qed.

(* Equal sets are one fact for [insert_fact], which keeps the first
   representative: membership in the world is membership up to Equal ([InA
   fact_eqv]), not [In] *)
(* p($x) <- r($x) *)
Definition set_rule2 : rule :=
  {| r_head := sp (tvar 120); r_body := [sr (tvar 120)]; r_exprs := [] |}.

Example run_complete_modulo_equal :
  run rx0 lim0 [set_rule2] [sp set12; sr set21] = ([sp set12; sr set21], None) /\
  Derivable rx0 [set_rule2] [sp set12; sr set21] (sp set21) /\
  ~ In (sp set21) [sp set12; sr set21] /\
  InA fact_eqv (sp set21) [sp set12; sr set21].
Proof.
  split; [vm_compute; reflexivity | split; [|split]].
  - apply (D_rule rx0 [set_rule2] [sp set12; sr set21] set_rule2 [sr set21] [([120%N], set21)]).
    + left; reflexivity.
    + constructor; [apply D_base; right; left; reflexivity | constructor].
    + constructor; [vm_compute; reflexivity | constructor].
    + vm_compute; reflexivity.
    + vm_compute; reflexivity.
    + vm_compute; reflexivity.
  - cbn [In]. intuition discriminate.
  - apply InA_fact_in. vm_compute. reflexivity.
Qed.

(** Before the repair of Set.Intersect / Set.Union the operators copied the
    repetitions of their left operand and told Equal sets apart ([1,1,2] and
    [1,2,2] are Equal; their intersections with [1] were [1,1] and [1]).  Now
    they return each element once and Equal operands give Equal results. *)
Example setops_respect_equal_sets :
  term_eqb set112 set122 = true /\
  eval_binary rx0 BIntersection set112 set1 = Ok (TSet [AInt 1]) /\
  eval_binary rx0 BIntersection set122 set1 = Ok (TSet [AInt 1]) /\
  eval_binary rx0 BUnion set1 set112 = Ok (TSet [AInt 1; AInt 2]) /\
  eval_binary rx0 BUnion set1 set122 = Ok (TSet [AInt 1; AInt 2]) /\
  eval_binary rx0 BUnion set11 (TSet []) = Ok (TSet [AInt 1]) /\
  eval_binary rx0 BIntersection (TSet [AInt 2; AInt 1; AInt 1]) set12 = Ok (TSet [AInt 2; AInt 1]) /\
  eval_binary rx0 BUnion set112 set1 = Ok (TSet [AInt 1; AInt 2]) /\
  eval_binary rx0 BUnion set122 set1 = Ok (TSet [AInt 1; AInt 2]).
Proof. vm_compute. repeat split; reflexivity. Qed.

(* q($x) <- p($x), $x.intersection([1]).length() == 2   (the old witness: true
   of [1,1,2] and false of [1,2,2] before the repair)
   q($x) <- p($x), $x.intersection([1]).length() == 1   (true of both now) *)
Definition inter_rule : rule :=
  {| r_head := sq (tvar 120); r_body := [sp (tvar 120)];
     r_exprs := [[OVal (tvar 120); OVal set1; OBin BIntersection; OUn ULength;
                  OVal (tint 2); OBin BEqual]] |}.
Definition inter_rule1 : rule :=
  {| r_head := sq (tvar 120); r_body := [sp (tvar 120)];
     r_exprs := [[OVal (tvar 120); OVal set1; OBin BIntersection; OUn ULength;
                  OVal (tint 1); OBin BEqual]] |}.

(* the program that used to be a counter-example (a repeated element in a fact
   AND an intersection in a rule): the expression now has the same value on the two
   Equal sets, so nothing is derivable from one that is not from the other, and
   the two fact orders give Equal worlds *)
Example run_sets_setops_repaired :
  run rx0 lim0 [set_rule2; inter_rule] [sp set122; sr set112] = ([sp set122; sr set112], None) /\
  ~ Derivable rx0 [set_rule2; inter_rule] [sp set122; sr set112] (sq set112) /\
  run rx0 lim0 [inter_rule] (insert_all [] [sp set112; sp set122]) = ([sp set112], None) /\
  run rx0 lim0 [inter_rule] (insert_all [] [sp set122; sp set112]) = ([sp set122], None) /\
  run rx0 lim0 [set_rule2; inter_rule1] [sp set122; sr set112]
    = ([sp set122; sr set112; sq set122], None) /\
  Derivable rx0 [set_rule2; inter_rule1] [sp set122; sr set112] (sq set112) /\
  InA fact_eqv (sq set112) [sp set122; sr set112; sq set122] /\
  run rx0 lim0 [inter_rule1] (insert_all [] [sp set112; sp set122]) = ([sp set112; sq set112], None) /\
  run rx0 lim0 [inter_rule1] (insert_all [] [sp set122; sp set112]) = ([sp set122; sq set122], None) /\
  equivlistA fact_eqv [sp set112; sq set112] [sp set122; sq set122].
Proof.
  split; [vm_compute; reflexivity|].
  split.
  { intro Hd.
    assert (Hin : InA fact_eqv (sq set112) [sp set122; sr set112]).
    { eapply (run_complete rx0 lim0); [|exact Hd]. vm_compute. reflexivity. }
    apply InA_fact_in in Hin. vm_compute in Hin. discriminate Hin. }
  split; [vm_compute; reflexivity|]. split; [vm_compute; reflexivity|].
  split; [vm_compute; reflexivity|].
  split.
  { apply (D_rule rx0 _ _ inter_rule1 [sp set112] [([120%N], set112)]).
    + right; left; reflexivity.
    + constructor; [|constructor].
      apply (D_rule rx0 _ _ set_rule2 [sr set112] [([120%N], set112)]).
      * left; reflexivity.
      * constructor; [apply D_base; right; left; reflexivity | constructor].
      * constructor; [vm_compute; reflexivity | constructor].
      * vm_compute; reflexivity.
      * vm_compute; reflexivity.
      * vm_compute; reflexivity.
    + constructor; [vm_compute; reflexivity | constructor].
    + vm_compute; reflexivity.
    + vm_compute; reflexivity.
    + vm_compute; reflexivity. }
  split; [apply InA_fact_in; vm_compute; reflexivity|].
  split; [vm_compute; reflexivity|]. split; [vm_compute; reflexivity|].
  apply equivlist_b_iff. vm_compute. reflexivity.
Qed.

(** Repeated elements and set operators together.  Base facts p([1,1,2]),
    p([1,2,2]) (Equal), p([1,1]), p([1,2]), p([2,1]) (the last two Equal);
    q($x) <- p($x), $x.contains(2), $x.length() == 3;
    t($x,$y) <- q($x), p($y), $x.intersection($y).length() == 2, $x.union($y) == [2,1].
    Two presentations: the facts loaded in opposite orders, the rules swapped. *)
Definition len3_rule : rule :=
  {| r_head := sq (tvar 120); r_body := [sp (tvar 120)];
     r_exprs := [[OVal (tvar 120); OVal (tint 2); OBin BContains];
                 [OVal (tvar 120); OUn ULength; OVal (tint 3); OBin BEqual]] |}.
Definition pair_rule : rule :=
  {| r_head := st (tvar 120) (tvar 121); r_body := [sq (tvar 120); sp (tvar 121)];
     r_exprs := [[OVal (tvar 120); OVal (tvar 121); OBin BIntersection; OUn ULength;
                  OVal (tint 2); OBin BEqual];
                 [OVal (tvar 120); OVal (tvar 121); OBin BUnion; OVal set21; OBin BEqual]] |}.
Definition rep_facts : list pred := [sp set112; sp set122; sp set11; sp set12; sp set21].
Definition rep_rules : list rule := [len3_rule; pair_rule].
Definition rep_base : list pred := insert_all [] rep_facts.
Definition rep_base' : list pred := insert_all [] (rev rep_facts).

Example rep_runs :
  run rx0 lim0 rep_rules rep_base
    = ([sp set112; sp set11; sp set12; sq set112; st set112 set112; st set112 set12], None) /\
  run rx0 lim0 (rev rep_rules) rep_base'
    = ([sp set21; sp set11; sp set122; sq set122; st set122 set21; st set122 set122], None).
Proof. split; vm_compute; reflexivity. Qed.

Example rep_hyps :
  NoDupA fact_eqv rep_base /\ equivlistA fact_eqv rep_base rep_base' /\ rep_base <> rep_base'.
Proof.
  split; [apply nodupA_b_ok; vm_compute; reflexivity|].
  split; [apply equivlist_b_iff; vm_compute; reflexivity | vm_compute; discriminate].
Qed.

(* C05 instantiated on it: sound, complete up to Equal, one fact per class *)
Example rep_least_model :
  (forall f, In f (fst (run rx0 lim0 rep_rules rep_base)) -> Derivable rx0 rep_rules rep_base f) /\
  (forall f, Derivable rx0 rep_rules rep_base f -> InA fact_eqv f (fst (run rx0 lim0 rep_rules rep_base))) /\
  NoDupA fact_eqv (fst (run rx0 lim0 rep_rules rep_base)).
Proof.
  destruct rep_hyps as [H1 _].
  apply (C05_least_model rx0 lim0); [exact H1 | vm_compute; reflexivity].
Qed.

(* the two presentations give the same world up to Equal, although no fact
   with a set is literally the same in both *)
Example rep_order_free :
  equivlistA fact_eqv (fst (run rx0 lim0 rep_rules rep_base))
                      (fst (run rx0 lim0 (rev rep_rules) rep_base')).
Proof.
  destruct rep_hyps as [_ [H5 _]].
  eapply (run_equivlist rx0 lim0 lim0 rep_rules (rev rep_rules) rep_base rep_base');
    [exact H5 | | vm_compute; reflexivity | vm_compute; reflexivity].
  intro r. apply in_rev.
Qed.

(* and for a permutation of one duplicate-free base, a permutation up to Equal *)
Example rep_perm :
  PermutationA fact_eqv (fst (run rx0 lim0 rep_rules rep_base))
                        (fst (run rx0 lim0 (rev rep_rules) (rev rep_base))).
Proof.
  destruct rep_hyps as [H1 _].
  eapply (run_perm rx0 lim0 lim0 rep_rules (rev rep_rules) rep_base (rev rep_base));
    [exact H1 | apply Permutation_rev | apply Permutation_rev
    | vm_compute; reflexivity | vm_compute; reflexivity].
Qed.

(* a query over a world with Equal-but-different sets: the result holds one
   fact per class, and [query_exact] characterises it up to Equal *)
Example set_query_exact :
  query_rule rx0 set_rule [sp set12; sp set21; sp set11] = [sq set12; sq set11] /\
  InA fact_eqv (sq set21) (query_rule rx0 set_rule [sp set12; sp set21; sp set11]) /\
  ~ In (sq set21) (query_rule rx0 set_rule [sp set12; sp set21; sp set11]).
Proof.
  split; [vm_compute; reflexivity | split].
  - apply query_exact; [vm_compute; reflexivity|].
    exists [sp set21], [([120%N], set21)], (sq set21).
    split; [repeat constructor; cbn [In]; tauto|].
    split; [constructor; [vm_compute; reflexivity | constructor]|].
    repeat split; vm_compute; reflexivity.
  - vm_compute. intuition discriminate.
Qed.

(* limits: a chain c1 <- c0, c2 <- c1, ..., c5 <- c4 over the single fact c0.
   (Heads only take body variables and constants, so no program of this model
   has an infinite least model; a chain longer than the limits plays the part
   of the diverging program.) *)
Definition cpred (i : N) : pred := {| p_name := [99%N; i]; p_terms := [] |}.
Definition crule (i : N) : rule :=
  {| r_head := cpred (i + 1); r_body := [cpred i]; r_exprs := [] |}.
Definition chain_rules : list rule := map crule [0; 1; 2; 3; 4]%N.

Example chain_ok :
  run rx0 lim0 chain_rules [cpred 0] = (map cpred [0; 1; 2; 3; 4; 5]%N, None).
Proof. vm_compute. reflexivity. Qed.

Example chain_hits_max_facts :
  run rx0 {| max_facts := 3%N; max_iterations := 100%N |} chain_rules [cpred 0]
  = (map cpred [0; 1; 2]%N, Some EMaxFacts).
Proof. vm_compute. reflexivity. Qed.

Example chain_hits_max_iterations :
  run rx0 {| max_facts := 1000%N; max_iterations := 2%N |} chain_rules [cpred 0]
  = (map cpred [0; 1; 2]%N, Some EMaxIterations).
Proof. vm_compute. reflexivity. Qed.

(* the limit is [>=]: a program whose least model has exactly max_facts facts fails *)
Example chain_exact_max_facts_fails :
  run rx0 {| max_facts := 6%N; max_iterations := 100%N |} chain_rules [cpred 0]
  = (map cpred [0; 1; 2; 3; 4; 5]%N, Some EMaxFacts).
Proof. vm_compute. reflexivity. Qed.

(* the fixpoint needs one more round than it has growing rounds: 5 growing rounds
   with max_iterations = 5 is an error although the world is already the least model *)
Example chain_exact_max_iterations_fails :
  run rx0 {| max_facts := 1000%N; max_iterations := 5%N |} chain_rules [cpred 0]
  = (map cpred [0; 1; 2; 3; 4; 5]%N, Some EMaxIterations).
Proof. vm_compute. reflexivity. Qed.

Print Assumptions run_sound.
Print Assumptions run_complete.
Print Assumptions C05_least_model.
Print Assumptions query_exact.
Print Assumptions run_perm.
Print Assumptions run_equivlist.
Print Assumptions run_complete_rel.
Print Assumptions query_complete.
Print Assumptions run_nodupA.
Print Assumptions term_eqb_sym.
Print Assumptions term_eqb_trans.
Print Assumptions pred_eqb_sym.
Print Assumptions pred_eqb_trans.
Print Assumptions eval_exprs_rel.
Print Assumptions run_complete_setfree.
Print Assumptions C05_least_model_setfree.
Print Assumptions query_exact_setfree.
Print Assumptions run_perm_setfree.
Print Assumptions run_sets_setops_repaired.
Print Assumptions setops_respect_equal_sets.
Print Assumptions eval_binary_rel.
Print Assumptions set_intersect_equal.
Print Assumptions set_union_equal.
Print Assumptions rep_least_model.
Print Assumptions rep_order_free.
Print Assumptions run_nodup.
Print Assumptions run_extends.
Print Assumptions run_ok_is_fixpoint.
Print Assumptions run_max_facts.
Print Assumptions run_max_iterations_grew.
Print Assumptions run_error_cases.
