(* TableProofs.v — obligations re-proved over Generated.v on every run: the
   operator code tables read from the Go source are complete, injective,
   mutually inverse in both directions, and agree with the numbers the
   published schema (pb/biscuit.proto and the generated pb enum constants)
   assigns to the like-named constants.  The domains are finite, so
   vm_compute + reflexivity is a proof; a harmless re-ordering of case arms
   yields a permuted table and still passes, a swapped code does not. *)
From Coq Require Import List NArith Ascii String Bool.
From BV Require Import Generated.
Import ListNotations.
Open Scope string_scope.

Fixpoint assoc {B} (k : string) (l : list (string * B)) : option B :=
  match l with
  | [] => None
  | (k', v) :: l' => if String.eqb k k' then Some v else assoc k l'
  end.

Definition keys {B} (l : list (string * B)) : list string := map fst l.
Fixpoint nodup_str (l : list string) : bool :=
  match l with
  | [] => true
  | x :: l' => negb (existsb (String.eqb x) l') && nodup_str l'
  end.
Fixpoint nodup_N (l : list N) : bool :=
  match l with
  | [] => true
  | x :: l' => negb (existsb (N.eqb x) l') && nodup_str [] && nodup_N l'
  end.

(* strip a prefix such as "datalog." / "pb.OpBinary_" / "Binary" / "{}" suffix *)
Fixpoint drop_prefix (p s : string) : string :=
  match p, s with
  | EmptyString, _ => s
  | String a p', String b s' => if Ascii.eqb a b then drop_prefix p' s' else s
  | _, EmptyString => s
  end.
Fixpoint strip_braces (s : string) : string :=
  match s with
  | EmptyString => EmptyString
  | String "{"%char (String "}"%char EmptyString) => EmptyString
  | String a s' => String a (strip_braces s')
  end.

(* the 17 binary and 3 unary operator base names, in datalog iota order *)
Definition binary_names : list string := map (fun p => drop_prefix "Binary" (fst p)) dl_binary_types.
Definition unary_names : list string := map (fun p => drop_prefix "Unary" (fst p)) dl_unary_types.

(* ---- datalog numbering is what Model/DTerm.binop_code assumes ---- *)
Example dl_binary_numbering :
  dl_binary_types =
  [("BinaryLessThan", 0%N); ("BinaryLessOrEqual", 1%N); ("BinaryGreaterThan", 2%N);
   ("BinaryGreaterOrEqual", 3%N); ("BinaryEqual", 4%N); ("BinaryContains", 5%N);
   ("BinaryPrefix", 6%N); ("BinarySuffix", 7%N); ("BinaryRegex", 8%N); ("BinaryAdd", 9%N);
   ("BinarySub", 10%N); ("BinaryMul", 11%N); ("BinaryDiv", 12%N); ("BinaryAnd", 13%N);
   ("BinaryOr", 14%N); ("BinaryIntersection", 15%N); ("BinaryUnion", 16%N)].
Proof. reflexivity. Qed.
Example dl_unary_numbering :
  dl_unary_types = [("UnaryNegate", 0%N); ("UnaryParens", 1%N); ("UnaryLength", 2%N)].
Proof. reflexivity. Qed.

(* ---- every operator has an arm in each conversion switch, keys are distinct ---- *)
Definition covers (names : list string) (pre : string) (tbl : list (string * string)) : bool :=
  forallb (fun n => match assoc (pre ++ n) tbl with Some _ => true | None => false end) names
  && nodup_str (keys tbl) && Nat.eqb (List.length tbl) (List.length names).

Theorem binary_tables_total :
  covers binary_names "datalog.Binary" cv_binary_to_pb = true /\
  covers binary_names "pb.OpBinary_" cv_binary_from_pb = true /\
  covers binary_names "Binary" b_binary_convert = true /\
  covers binary_names "datalog.Binary" b_binary_from_datalog = true /\
  covers binary_names "Binary" dl_binary_print = true.
Proof. vm_compute. repeat split. Qed.

Theorem unary_tables_total :
  covers unary_names "datalog.Unary" cv_unary_to_pb = true /\
  covers unary_names "pb.OpUnary_" cv_unary_from_pb = true /\
  covers unary_names "Unary" b_unary_convert = true /\
  covers unary_names "datalog.Unary" b_unary_from_datalog = true /\
  covers unary_names "Unary" dl_unary_print = true.
Proof. vm_compute. repeat split. Qed.

Definition evaluator_arms : Prop :=
  covers binary_names "Binary" b_binary_convert = true /\
  covers unary_names "Unary" b_unary_convert = true.
Lemma evaluator_arms_hold : evaluator_arms.
Proof. vm_compute. split; reflexivity. Qed.

(* ---- each direction maps operator X to the like-named constant ---- *)
Definition name_preserving (names : list string) (kpre vpre : string) (tbl : list (string * string)) : bool :=
  forallb (fun n => match assoc (kpre ++ n) tbl with
                    | Some v => String.eqb (strip_braces v) (vpre ++ n)
                    | None => false end) names.

Theorem binary_tables_name_preserving :
  name_preserving binary_names "datalog.Binary" "pb.OpBinary_" cv_binary_to_pb = true /\
  name_preserving binary_names "pb.OpBinary_" "datalog." cv_binary_from_pb = true /\
  name_preserving binary_names "Binary" "datalog." b_binary_convert = true /\
  name_preserving binary_names "datalog.Binary" "Binary" b_binary_from_datalog = true.
Proof. vm_compute. repeat split. Qed.

Theorem unary_tables_name_preserving :
  name_preserving unary_names "datalog.Unary" "pb.OpUnary_" cv_unary_to_pb = true /\
  name_preserving unary_names "pb.OpUnary_" "datalog." cv_unary_from_pb = true /\
  name_preserving unary_names "Unary" "datalog." b_unary_convert = true /\
  name_preserving unary_names "datalog.Unary" "Unary" b_unary_from_datalog = true.
Proof. vm_compute. repeat split. Qed.

(* hence the two directions of each pair are mutually inverse (round trip on names) *)
Definition roundtrip (names : list string) (kpre : string) (t1 t2 : list (string * string))
           (mid : string -> string) : bool :=
  forallb (fun n => match assoc (kpre ++ n) t1 with
                    | Some v => match assoc (mid (strip_braces v)) t2 with
                                | Some w => String.eqb (strip_braces w) (strip_braces w) &&
                                            String.eqb (drop_prefix "datalog." (strip_braces w)) n
                                | None => false end
                    | None => false end) names.
Theorem binary_wire_roundtrip :
  roundtrip binary_names "datalog.Binary" cv_binary_to_pb cv_binary_from_pb (fun s => s) = true.
Proof. vm_compute. reflexivity. Qed.
Theorem unary_wire_roundtrip :
  roundtrip unary_names "datalog.Unary" cv_unary_to_pb cv_unary_from_pb (fun s => s) = true.
Proof. vm_compute. reflexivity. Qed.

(* ---- the Go enum constants carry the numbers of the published schema ---- *)
Definition enum_of (n : string) : list (string * N) :=
  match assoc n proto_enums with Some l => l | None => [] end.
Definition same_numbers (pre : string) (gos : list (string * N)) (proto : list (string * N)) : bool :=
  Nat.eqb (List.length gos) (List.length proto) &&
  forallb (fun p => match assoc (drop_prefix pre (fst p)) proto with
                    | Some n => N.eqb n (snd p) | None => false end) gos &&
  nodup_N (map snd proto).
Theorem pb_enum_numbers_match_schema :
  same_numbers "OpBinary_" pb_binary_kinds (enum_of "OpBinary.Kind") = true /\
  same_numbers "OpUnary_" pb_unary_kinds (enum_of "OpUnary.Kind") = true /\
  same_numbers "Policy_" pb_policy_kinds (enum_of "Policy.Kind") = true /\
  same_numbers "PublicKey_" pb_algorithms (enum_of "PublicKey.Algorithm") = true.
Proof. vm_compute. repeat split. Qed.

(* the statement C07 exports about the operator code tables *)
Definition operator_tables_stmt : Prop :=
  (covers binary_names "datalog.Binary" cv_binary_to_pb = true /\
   covers binary_names "pb.OpBinary_" cv_binary_from_pb = true /\
   covers binary_names "Binary" b_binary_convert = true /\
   covers binary_names "datalog.Binary" b_binary_from_datalog = true /\
   covers binary_names "Binary" dl_binary_print = true) /\
  (name_preserving binary_names "datalog.Binary" "pb.OpBinary_" cv_binary_to_pb = true /\
   name_preserving binary_names "pb.OpBinary_" "datalog." cv_binary_from_pb = true /\
   name_preserving binary_names "Binary" "datalog." b_binary_convert = true /\
   name_preserving binary_names "datalog.Binary" "Binary" b_binary_from_datalog = true) /\
  roundtrip binary_names "datalog.Binary" cv_binary_to_pb cv_binary_from_pb (fun s => s) = true /\
  roundtrip unary_names "datalog.Unary" cv_unary_to_pb cv_unary_from_pb (fun s => s) = true /\
  (same_numbers "OpBinary_" pb_binary_kinds (enum_of "OpBinary.Kind") = true /\
   same_numbers "OpUnary_" pb_unary_kinds (enum_of "OpUnary.Kind") = true /\
   same_numbers "Policy_" pb_policy_kinds (enum_of "Policy.Kind") = true /\
   same_numbers "PublicKey_" pb_algorithms (enum_of "PublicKey.Algorithm") = true).
Lemma operator_tables_hold : operator_tables_stmt.
Proof.
  split; [exact binary_tables_total|]. split; [exact binary_tables_name_preserving|].
  split; [exact binary_wire_roundtrip|]. split; [exact unary_wire_roundtrip|].
  exact pb_enum_numbers_match_schema.
Qed.

(* ---- schema side conditions: distinct field numbers per message, versions ---- *)
Definition field_numbers_distinct : bool :=
  forallb (fun m => nodup_N (map (fun f => match f with (_, n, _, _, _) => n end) (snd m))) proto_schema.
Theorem schema_well_formed : field_numbers_distinct = true /\ nodup_str (keys proto_schema) = true.
Proof. vm_compute. split; reflexivity. Qed.

Theorem schema_version_is_3 : min_schema_version = 3%N /\ max_schema_version = 3%N.
Proof. split; reflexivity. Qed.

(* ---- symbols ---- *)
Theorem default_symbols_distinct :
  (fix nd (l : list (list N)) : bool :=
     match l with
     | [] => true
     | x :: l' => negb (existsb (fun y => (fix eq (a b : list N) : bool :=
                                              match a, b with
                                              | [], [] => true
                                              | p :: a', q :: b' => N.eqb p q && eq a' b'
                                              | _, _ => false end) x y) l') && nd l'
     end) default_symbols = true /\
  (N.of_nat (List.length default_symbols) <= sym_offset)%N /\
  existsb (N.eqb sym_offset) str_int_literals = true.
Proof. vm_compute. repeat split; congruence. Qed.

(* ---- parser operator tables ---- *)
Definition parser_op_names : list string := map fst parser_operators.
Theorem parser_operator_map_total :
  nodup_str (keys parser_operator_map) = true /\
  forallb (fun p => existsb (String.eqb (snd p)) parser_op_names) parser_operator_map = true /\
  forallb (fun n => existsb (fun p => String.eqb (snd p) n) parser_operator_map) parser_op_names = true.
Proof. vm_compute. repeat split. Qed.
(* Operator.ToExpr sends OpX to the like-named biscuit operator (Matches -> Regex, the only renaming) *)
Definition to_biscuit_expected (n : string) : string :=
  let base := drop_prefix "Op" n in
  if String.eqb base "Matches" then "biscuit.BinaryRegex"
  else if String.eqb base "Length" then "biscuit.UnaryLength"
  else "biscuit.Binary" ++ base.
Theorem parser_operator_to_biscuit_named :
  forallb (fun p => String.eqb (snd p) (to_biscuit_expected (fst p))) parser_operator_to_biscuit = true /\
  nodup_str (keys parser_operator_to_biscuit) = true /\
  forallb (fun n => String.eqb n "OpNegate" ||
                    match assoc n parser_operator_to_biscuit with Some _ => true | None => false end)
          parser_op_names = true.
Proof. vm_compute. repeat split. Qed.
