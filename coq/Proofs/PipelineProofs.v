(* PipelineProofs.v — totality of the pipeline applied to untrusted bytes (C10):
   unmarshal, signature verification, append, seal, re-serialization and
   evaluation never yield the Panic outcome. *)
From BV Require Import Base Term Expr Datalog Authz DTerm Symbols Chain Wire Token.
From BV Require Import WireProofs ChainProofs ExprProofs.

Lemma np_unmarshal_blocks sbs : forall t, np (unmarshal_blocks t sbs).
Proof.
  induction sbs as [|sb sbs IH]; intros t; cbn [unmarshal_blocks]; [reflexivity|].
  apply np_bind; [apply np_gate_and_decode|]. intros b.
  destruct (negb (dblock_closed _ b)); [reflexivity|].
  apply np_bind; [apply IH|]. intros r. reflexivity.
Qed.

Theorem tk_unmarshal_with_no_panic base bs s : tk_unmarshal_with base bs <> Panic s.
Proof.
  apply np_not_panic. unfold tk_unmarshal_with.
  apply np_bind; [apply np_dec_container|]. intros c.
  apply np_bind; [apply np_unmarshal_blocks|]. intros r.
  destruct (fst r); reflexivity.
Qed.

Theorem tk_unmarshal_no_panic bs s : tk_unmarshal bs <> Panic s.
Proof. apply tk_unmarshal_with_no_panic. Qed.

(* whatever Unmarshal accepts has 32-byte keys and 64-byte signatures *)
Lemma unmarshal_blocks_sizes sbs : forall t r,
  unmarshal_blocks t sbs = Ok r ->
  Forall (fun sb => length (sb_key sb) = 32%nat /\ length (sb_sig sb) = 64%nat) sbs.
Proof.
  induction sbs as [|sb sbs IH]; intros t r; cbn [unmarshal_blocks]; [constructor|].
  unfold gate_and_decode at 1.
  destruct (Nat.eqb_spec (length (sb_key sb)) 32) as [Hk|Hk]; cbn [negb bind]; [|discriminate].
  destruct (Nat.eqb_spec (length (sb_sig sb)) 64) as [Hs|Hs]; cbn [negb bind]; [|discriminate].
  destruct (dec_block (sb_block sb)) as [b| |]; cbn [bind]; try discriminate.
  destruct (negb (dblock_closed _ b)); [discriminate|].
  destruct (unmarshal_blocks _ sbs) as [r'| |] eqn:E; cbn [bind]; try discriminate.
  intros _. constructor; [auto|]. eapply IH; eauto.
Qed.

Section Pipe.
  Variable pub : bytes -> bytes.
  Variable sign : bytes -> bytes -> bytes.
  Variable verify : bytes -> bytes -> bytes -> bool.

  (* verification under any 32-byte key *)
  Theorem tk_verify_no_panic root t s :
    length root = 32%nat -> tk_verify pub verify (KSingular root) t <> Panic s.
  Proof.
    intros Hr. unfold tk_verify, authorizer_for, select_key. cbn [bind].
    rewrite Hr. cbn [Nat.eqb]. apply verify_token_no_panic. assumption.
  Qed.

  Lemma np_gen_seed src : np (gen_seed src).
  Proof. unfold gen_seed. destruct (32 <=? length src)%nat; reflexivity. Qed.

  Lemma np_enc_block b : np (enc_block b).
  Proof. unfold enc_block. destruct (block_ok b); reflexivity. Qed.

  Theorem tk_append_no_panic t blk src s : tk_append pub sign t blk src <> Panic s.
  Proof.
    apply np_not_panic. unfold tk_append.
    destruct (c_proof (tk_container t)) as [x|x|]; try reflexivity.
    destruct (negb (length x =? 32)%nat); [reflexivity|].
    destruct (negb (sym_disjoint _ _)); [reflexivity|].
    apply np_bind; [apply np_gen_seed|]. intros _.
    apply np_bind; [apply np_enc_block|]. intros bs.
    apply np_bind; [|intros r; reflexivity].
    unfold append. destruct (c_proof (tk_container t)) as [y|y|]; try reflexivity.
    destruct (negb (length y =? 32)%nat); [reflexivity|].
    apply np_bind; [apply np_gen_seed|]. intros [sd sr]. reflexivity.
  Qed.

  Theorem tk_seal_no_panic t s : tk_seal sign t <> Panic s.
  Proof.
    apply np_not_panic. unfold tk_seal. apply np_bind; [|intros c; reflexivity].
    unfold seal. destruct (c_proof (tk_container t)) as [y|y|]; try reflexivity.
    destruct (negb (length y =? 32)%nat); reflexivity.
  Qed.
End Pipe.

(* evaluation: the authorizer model is a total function into verdicts; its only
   internal [res] (the blocks phase) never takes the Panic branch, and expression
   evaluation never panics (ExprProofs.eval_no_panic) *)
Theorem authorize_total rx tok a :
  exists st v, authorize rx tok a = (st, v).
Proof. destruct (authorize rx tok a) as [st v]. eauto. Qed.
